#!/usr/bin/env python3
import subprocess, re
t = subprocess.check_output(["python3", "/verif/tools/seed_table.py"], text=True)
s = open("/verif/DESIGN.md").read()
s = re.sub(r"<!-- SEED-TABLE-BEGIN -->.*?<!-- SEED-TABLE-END -->", "<!-- SEED-TABLE-BEGIN -->\n" + t + "<!-- SEED-TABLE-END -->", s, flags=re.S)
open("/verif/DESIGN.md", "w").write(s)
