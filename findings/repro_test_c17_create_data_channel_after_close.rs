use anyhow::Result;
use rustrtc::transports::ice::IceGathererState;
use rustrtc::transports::sctp::DataChannelConfig;
use rustrtc::{PeerConnection, PeerConnectionState, RtcConfiguration};
use std::sync::Arc;
use std::time::Duration;
use tokio::time::timeout;

async fn wait_gather_complete(pc: &PeerConnection) {
    loop {
        if pc.ice_transport().gather_state() == IceGathererState::Complete { break; }
        tokio::time::sleep(Duration::from_millis(20)).await;
    }
}
async fn signal_loopback(offerer: &PeerConnection, answerer: &PeerConnection) -> Result<()> {
    let _ = offerer.create_offer().await?;
    wait_gather_complete(offerer).await;
    let offer = offerer.create_offer().await?;
    offerer.set_local_description(offer.clone())?;
    answerer.set_remote_description(offer).await?;
    let _ = answerer.create_answer().await?;
    wait_gather_complete(answerer).await;
    let answer = answerer.create_answer().await?;
    answerer.set_local_description(answer.clone())?;
    offerer.set_remote_description(answer).await?;
    Ok(())
}

/// create_data_channel() on a closed connection: whatever it returns, nothing may hang.
#[tokio::test(flavor = "multi_thread", worker_threads = 2)]
async fn repro_c17_create_data_channel_after_close_does_not_hang() -> Result<()> {
    let pc = PeerConnection::new(RtcConfiguration::default());
    pc.close();
    match pc.create_data_channel("late", None) {
        Err(_) => {}
        Ok(dc) => {
            let got = timeout(Duration::from_secs(2), dc.recv()).await;
            assert!(got.is_ok(), "recv() on a channel created after close() never returns (state {:?})", dc.state.load(std::sync::atomic::Ordering::SeqCst));
        }
    }
    Ok(())
}

