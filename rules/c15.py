"""C15 — RTP/RTCP encode/decode agree on their dispatch tables and match the RFC numbers (thin claim)."""
from engine import core, mir, layout
from engine.core import RuleResult, suffix

EXPLANATION = (
    "Static table agreement (K6) only; inverse laws over all packets are value-level and NOT decided. "
    "R15.1 the (packet type, FMT) pair passed to write_rtcp_packet for every RtcpPacket variant in marshal_rtcp_packets "
    "equals the RFC 3550/4585/5104 number. R15.2 the parser dispatch (parse_rtcp_packets on the packet type, "
    "parse_rtcp_rtpfb / parse_rtcp_psfb on FMT) constructs, for each such pair, the same variant the marshaller "
    "writes it for; every variant has both a marshal arm and a parse arm. R15.3 RTP version constant is 2 and the "
    "one-/two-byte header-extension profile ids 0xBEDE / 0x1000 are used by both get_extension and set_extension.")
ASSUMPTIONS = ["constants are compared as evaluated by rustc; the byte layout inside each body is not decided"]
TRUSTED_BASE = ["rustc MIR construction and constant evaluation", "RFC table in rules/c15.py"]

RFC = {"SenderReport": (200, None), "ReceiverReport": (201, None), "SourceDescription": (202, None), "Goodbye": (203, None),
       "PictureLossIndication": (206, 1), "FullIntraRequest": (206, 4), "GenericNack": (205, 1),
       "RemoteBitrateEstimate": (206, 15), "TransportWideCc": (205, 15)}


def _marshal_table(ctx):
    b = ctx.body("rtp::marshal_rtcp_packets")
    table = {}
    for bi, blk in enumerate(b.blocks):
        if bi in b.cleanup or blk["t"]["k"] != "switch":
            continue
        term, regions = core.arm_regions(b, bi)
        if term[0] != "discr" or not term[2].endswith("RtcpPacket"):
            continue
        for variant, blocks in regions.items():
            for cb, t, p in core.calls_to(b, suffix("rtp::write_rtcp_packet")):
                if cb in blocks:
                    fmt = mir.int_value(b.term_operand(t["a"][1]))
                    pt = mir.int_value(b.term_operand(t["a"][2]))
                    table[variant] = (pt, fmt, b.where(cb))
    return b, table


def _parse_table(ctx):
    """(pt, fmt) -> variant constructed"""
    out = {}
    top = ctx.body("rtp::parse_rtcp_packets")
    for bi, blk in enumerate(top.blocks):
        if bi in top.cleanup or blk["t"]["k"] != "switch":
            continue
        term, regions = core.arm_regions(top, bi)
        if not ({200, 201} <= set(k for k in regions if isinstance(k, int))):
            continue
        for pt, blocks in regions.items():
            if not isinstance(pt, int):
                continue
            vs = set()
            for ab, si, s in core.aggregates(top, lambda a: a.endswith("rtp::RtcpPacket")):
                if ab in blocks:
                    vs.add(s["rv"]["variant"])
            for v in vs:
                out[(pt, None)] = v
            for cb, t, p in top.calls():
                if cb in blocks and p in ("rtp::parse_rtcp_rtpfb", "rtp::parse_rtcp_psfb"):
                    sub = ctx.body(p)
                    for sb, sblk in enumerate(sub.blocks):
                        if sb in sub.cleanup or sblk["t"]["k"] != "switch":
                            continue
                        st, sreg = core.arm_regions(sub, sb)
                        if not (st[0] in ("arg", "var") and st[1] == "fmt"):
                            continue
                        for fmt, sblocks in sreg.items():
                            if not isinstance(fmt, int):
                                continue
                            for ab, si, s in core.aggregates(sub, lambda a: a.endswith("rtp::RtcpPacket")):
                                if ab in sblocks:
                                    out[(pt, fmt)] = s["rv"]["variant"]
    return out


def r15_1(ctx):
    r = RuleResult("R15.1", "K6", "marshal table equals the RFC numbers")
    b, table = _marshal_table(ctx)
    r.scope.append(b.name)
    r.need("RtcpPacket variants with a marshal arm", len(table), 9)
    for v, (pt, fmt) in RFC.items():
        got = table.get(v)
        if got is None:
            r.violate(b.name, "arm:%s" % v, b.where(0), "RtcpPacket::%s has no marshal arm" % v)
            continue
        ok = got[0] == pt and (fmt is None or got[1] == fmt)
        if ok:
            r.ok({"variant": v, "packet_type": got[0], "fmt": got[1] if fmt is not None else "count field"})
        else:
            r.violate(b.name, "arm:%s" % v, got[2], "RtcpPacket::%s is written as (pt=%s, fmt=%s); RFC says (%s, %s)" % (v, got[0], got[1], pt, fmt))
    for v in sorted(set(table) - set(RFC)):
        r.notes.append("variant %s marshalled as %s (not in the RFC table of this rule)" % (v, table[v][:2]))
    return r


def r15_2(ctx):
    r = RuleResult("R15.2", "K6", "parser dispatch is the inverse of the marshal table")
    _, mt = _marshal_table(ctx)
    pt_ = _parse_table(ctx)
    r.need("parser dispatch arms", len(pt_), 9)
    top = ctx.body("rtp::parse_rtcp_packets")
    for v, (pt, fmt, where) in sorted(mt.items()):
        key = (pt, fmt if RFC.get(v, (0, None))[1] is not None else None)
        got = pt_.get(key)
        if got == v:
            r.ok({"(pt,fmt)": key, "parsed as": got, "marshalled from": v})
        else:
            r.violate(top.name, "dispatch:%s" % v, where, "(pt=%s, fmt=%s) is written for %s but parsed as %s" % (key[0], key[1], v, got))
    return r


def r15_3(ctx):
    r = RuleResult("R15.3", "K6", "RTP version and header-extension profile ids")
    c = ctx.facts.consts.get("rtp::RTP_VERSION")
    if c and c.get("v") == 2:
        r.ok({"RTP_VERSION": 2})
    else:
        r.violate("rtp", "const:RTP_VERSION", "src/rtp.rs:1", "RTP_VERSION is %s" % (c or {}).get("v"))
    for fn in ("rtp::RtpHeader::get_extension", "rtp::RtpHeader::set_extension"):
        b = ctx.body(fn)
        vals = set(v for v, ty in core.ints_in_blocks(b, range(len(b.blocks))) if ty == "u16")
        need = {0xBEDE} | ({0x1000} if fn.endswith("get_extension") else set())
        if need <= vals:
            r.ok({fn.split("::")[-1]: sorted(hex(v) for v in vals & {0xBEDE, 0x1000, 0xFFF0})})
        else:
            r.violate(fn, "profile", b.where(0), "extension profile id(s) %s not used (found %s): RFC 8285 one-byte form is 0xBEDE, two-byte form 0x100x" % (sorted(hex(v) for v in need - vals), sorted(hex(v) for v in vals)))
    return r


def r15_4(ctx):
    """RFC 3550 6.5: every SDES chunk's item list is terminated by at least one null octet, THEN padded to a
    32-bit boundary. The parser (and every other implementation) finds the end of a chunk only through that
    octet, so a chunk whose items happen to end on a boundary still needs it."""
    r = RuleResult("R15.4", "K4", "every SDES chunk written ends with an end-of-list octet")
    fn = "rtp::build_sdes_body"
    b = ctx.body(fn)
    r.scope.append(fn)
    loops = b.loops()
    if not loops:
        raise core.CheckerError("R15.4: no chunk loop in build_sdes_body")
    hdr, blocks = max(loops, key=lambda x: len(x[1]))
    starts = []
    for sb in blocks:
        if b.blocks[sb]["t"]["k"] != "switch":
            continue
        term, outs = b.switch_info(sb)
        if term[0] == "discr" and mir.has_call(term[1], "::next") and mir.has_field(term[1], "chunks") and not mir.has_field(term[1], "items"):
            starts += [tgt for tgt, _, m in outs if m == "Some"]
    if not starts:
        raise core.CheckerError("R15.4: cannot find the iteration over sdes.chunks")
    zero_push = [bi for bi, t, p in core.calls_to(b, suffix("Vec::<T, A>::push"))
                 if len(t["a"]) == 2 and mir.int_value(b.term_operand(t["a"][1])) == 0]
    p = b.path_to(starts, hdr, cut_blocks=set(zero_push))
    if p is None and zero_push:
        r.ok({"site": b.where(zero_push[0]), "rule": "every path through one chunk passes body.push(0)"})
    else:
        r.violate(fn, "sdes:end-of-list", b.where(starts[0]),
                  "an SDES chunk can be written without the terminating null item (only alignment padding, which is empty when "
                  "the items end on a 32-bit boundary): the next chunk's SSRC is then parsed as an item",
                  core.describe_path(b, p) if p else "")
    return r


LAYOUT_PAIRS = [
    ("rtp::parse_sender_report", "rtp::build_sender_report_body"),
    ("rtp::parse_receiver_report", "rtp::build_receiver_report_body"),
    ("rtp::parse_report_block", "rtp::build_report_block"),
    ("rtp::parse_psfb_common", "rtp::build_psfb_common"),
    ("rtp::parse_fir_body", "rtp::build_fir_body"),
    ("rtp::parse_nack_body", "rtp::build_nack_body"),
    ("rtp::parse_remb_body", "rtp::build_remb_body"),
    ("rtp::parse_twcc_body", "rtp::build_twcc_body"),
    ("rtp::RtpHeader::parse", "rtp::RtpHeader::write_to"),
]
def r15_5(ctx):
    """sibling agreement (Engler/Min): for every RTCP body with a fixed-offset part, the byte positions the
    parser reads a field from are the byte positions the marshaller writes that field to. Decides the layout of
    the fixed part only (no loops, no bit packing inside a byte)."""
    r = RuleResult("R15.5", "K6", "parser and marshaller agree on the byte positions of every fixed-offset RTCP field")
    compared = layout.compare(r, core, ctx, LAYOUT_PAIRS, adt_prefix="rtp::")
    r.need("fixed-offset fields compared", compared, 27)
    return r


def _range_of(t):
    """(start, end_exclusive) of a constant Range / RangeInclusive iterated by `next`, found inside term t"""
    for x in mir.walk(t):
        if x[0] == "agg" and x[1].endswith("ops::Range") and len(x[3]) == 2 and x[3][0][0] == "const" and x[3][1][0] == "const":
            return x, (x[3][0][1], x[3][1][1])
        if x[0] == "call" and x[1].endswith("RangeInclusive::<Idx>::new") and len(x[2]) == 2 and x[2][0][0] == "const" and x[2][1][0] == "const":
            return x, (x[2][0][1], x[2][1][1] + 1)
    return None, None


def _eval(t, elem_pred, v):
    """evaluate a small integer term with the loop element bound to v (None if not evaluable)"""
    if elem_pred(t):
        return v
    if t[0] == "const":
        return t[1]
    if t[0] == "cast":
        return _eval(t[1], elem_pred, v)
    if t[0] == "bin" and t[1] in ("Add", "Sub", "AddWithOverflow", "SubWithOverflow", "AddUnchecked", "SubUnchecked"):
        a, c = _eval(t[2], elem_pred, v), _eval(t[3], elem_pred, v)
        if a is None or c is None:
            return None
        return a + c if t[1].startswith("Add") else a - c
    if t[0] == "field" and t[2] == "0":          # .0 of a checked-arithmetic pair
        return _eval(t[1], elem_pred, v)
    return None


def r15_6(ctx):
    """RFC 4585 6.2.1: the 16 bits of BLP flag the packets PID+1 .. PID+16, bit i (LSB = 0) standing for PID+i+1.
    The parser must visit all 16 bits and pair bit i with offset i+1 (pack_nack_pairs sets bit diff-1 for diff
    1..=16)."""
    r = RuleResult("R15.6", "K6", "Generic NACK: the parser reads all 16 BLP bits, bit i meaning PID+i+1")
    fn = "rtp::parse_nack_body"
    b = ctx.body(fn)
    r.scope.append(fn)
    shifts = []
    for bi, si, st in b.assigns():
        rv = st["rv"]
        if rv["r"] == "bin" and rv["op"] in ("Shr", "Shl", "ShrUnchecked", "ShlUnchecked"):
            t = b.term_rvalue(rv)
            rng_t, rng = _range_of(t[3])
            if rng is not None:
                shifts.append((bi, si, t[3], rng_t, rng))
    adds = []
    for bi, t, p in b.calls():
        if p and p.endswith("::wrapping_add") and len(t["a"]) == 2:
            a1 = b.term_operand(t["a"][1])
            rng_t, rng = _range_of(a1)
            if rng is not None:
                adds.append((bi, a1, rng_t, rng))
    r.need("BLP bit shifts driven by a constant range", len(shifts), 1)
    r.need("PID offsets driven by the same range", len(adds), 1)

    def elem(rng_t):
        return lambda x: x[0] == "field" and x[2] == "0" and x[1][0] == "variant" and mir.has(x[1], lambda y: y == rng_t)
    for bi, si, amt, rng_t, (lo, hi) in shifts:
        bits = [_eval(amt, elem(rng_t), v) for v in range(lo, hi)]
        offs = None
        for abi, a1, art, arng in adds:
            if art == rng_t:
                offs = [_eval(a1, elem(rng_t), v) for v in range(lo, hi)]
        if None in bits or offs is None or None in offs:
            raise core.CheckerError("R15.6: cannot evaluate the BLP loop of parse_nack_body")
        if sorted(bits) == list(range(16)) and all(o == bt + 1 for o, bt in zip(offs, bits)):
            r.ok({"site": b.where(bi, si), "bits": "0..=15", "offsets": "bit+1"})
        else:
            r.violate(fn, "blp:coverage", b.where(bi, si),
                      "the BLP loop visits bits %s with PID offsets %s: not all of bits 0..=15 paired with offsets 1..=16" % (bits, offs))
    return r


RTP_MASKS = {0x20: "P (padding) bit of byte 0", 0x10: "X (extension) bit of byte 0", 0x0F: "CSRC count of byte 0",
             0x80: "M (marker) bit of byte 1", 0x7F: "payload type of byte 1"}


def _mask_consts(b):
    out = set()
    for bi, si, st in b.assigns():
        rv = st["rv"]
        if rv["r"] == "bin" and rv["op"] in ("BitAnd", "BitOr"):
            for o in (rv["a"], rv["b"]):
                if o.get("k") == "c":
                    v = mir.int_value(b.term_operand(o))
                    if isinstance(v, int):
                        out.add(v)
    return out


def r15_7(ctx):
    """RFC 3550 5.1: V(2) P(1) X(1) CC(4) | M(1) PT(7). Parser and writer must use the same five masks, and they
    must be the RFC's."""
    r = RuleResult("R15.7", "K6", "RTP header bit fields: parser and writer use the RFC 3550 masks")
    pb, wb = ctx.body("rtp::RtpHeader::parse"), ctx.body("rtp::RtpHeader::write_to")
    r.scope += [pb.name, wb.name]
    pm, wm = _mask_consts(pb), _mask_consts(wb)
    for m, what in sorted(RTP_MASKS.items()):
        if m in pm and m in wm:
            r.ok({"mask": hex(m), "field": what})
        else:
            r.violate(wb.name if m not in wm else pb.name, "mask:%s" % hex(m), (wb if m not in wm else pb).where(0),
                      "mask %s (%s) is not used by %s" % (hex(m), what, "the writer" if m not in wm else "the parser"))
    for m in sorted((pm | wm) - set(RTP_MASKS) - {0, 1, 0xFF}):
        if m in pm and m in wm:
            continue
        r.violate(wb.name if m in wm else pb.name, "mask:%s" % hex(m), (wb if m in wm else pb).where(0),
                  "bit mask %s is used on the RTP header by only one of parser / writer" % hex(m))
    return r


def r15_8(ctx):
    """RFC 8285 4.2 one-byte header extension elements: one byte `ID(4) | L(4)` with L = length-1, followed by
    `length` data bytes; ID 15 stops parsing, ID 0 is padding. The writer (set_extension) and the two readers
    (get_extension, the re-parse inside set_extension) must use the same packing."""
    r = RuleResult("R15.8", "K6", "one-byte header extension element: ID << 4 | (len - 1), read back as ID = b >> 4, len = (b & 0x0F) + 1")
    se, ge = ctx.body("rtp::RtpHeader::set_extension"), ctx.body("rtp::RtpHeader::get_extension")
    r.scope += [se.name, ge.name]

    def has_pack(b):
        for bi, si, st in b.assigns():
            t = b.term_rvalue(st["rv"])
            if t[0] == "bin" and t[1] == "BitOr" and t[2][0] == "bin" and t[2][1] == "Shl" and mir.int_value(t[2][3]) == 4 and \
                    t[2][2] == ("arg", "id") and mir.has(t[3], lambda x: x[0] == "bin" and x[1] in ("Sub", "SubUnchecked") and mir.int_value(x[3]) == 1 and
                                                        mir.has(x[2], lambda y: y[0] == "call" and y[1].endswith("::len"))):
                return b.where(bi, si)
        return None

    def unpack_sites(b):
        ids, lens = [], []
        for bi, si, st in b.assigns():
            t = b.term_rvalue(st["rv"])
            if t[0] == "bin" and t[1] == "Shr" and mir.int_value(t[3]) == 4:
                ids.append(b.where(bi, si))
            if t[0] == "bin" and t[1] in ("Add", "AddUnchecked") and mir.int_value(t[3]) == 1 and \
                    mir.has(t[2], lambda x: x[0] == "bin" and x[1] == "BitAnd" and mir.int_value(x[3]) == 0x0F):
                lens.append(b.where(bi, si))
        return ids, lens
    w = has_pack(se)
    if w:
        r.ok({"writer": w, "packs": "(id << 4) | (data.len() - 1)"})
    else:
        r.violate(se.name, "pack", se.where(0), "set_extension does not build the element header as (id << 4) | (data.len() - 1)")
    for b in (ge, se):
        ids, lens = unpack_sites(b)
        if ids and lens:
            r.ok({"reader": b.name, "id": ids[0], "len": lens[0]})
        else:
            r.violate(b.name, "unpack", b.where(0), "the one-byte element header is not read back as id = b >> 4, len = (b & 0x0F) + 1")
    # admission: id in 1..=14, 1 <= len <= 16
    consts = set()
    for bi, si, st in se.assigns():
        rv = st["rv"]
        if rv["r"] == "bin" and rv["op"] in ("Eq", "Ne", "Ge", "Gt", "Lt", "Le"):
            for o in (rv["a"], rv["b"]):
                v = mir.int_value(se.term_operand(o))
                if isinstance(v, int):
                    consts.add((rv["op"], v))
    need = {("Ge", 15), ("Gt", 16)}
    if need <= consts and (("Eq", 0) in consts):
        r.ok({"admission": "id != 0 && id < 15, 1 <= data.len() <= 16"})
    else:
        r.violate(se.name, "admission", se.where(0), "set_extension no longer restricts id to 1..=14 and the data length to 1..=16 (comparisons found: %s)" % sorted(consts))
    return r


def r15_9(ctx):
    """RFC 4588 4: an RTX payload is the 2-byte original sequence number (OSN) followed by the original payload;
    SSRC / payload type are the RTX stream's, timestamp and marker the original's. wrap and unwrap must be inverse
    on those fields."""
    r = RuleResult("R15.9", "K6", "RTX wrap / unwrap: OSN in payload bytes 0..2, original payload from byte 2, timestamp and marker carried over")
    w, u = ctx.body("rtx::wrap_rtx_packet"), ctx.body("rtx::unwrap_rtx_packet")
    r.scope += [w.name, u.name]
    from engine import layout
    wl = layout.writer_layout(w)
    if wl.get("sequence_number") == {0, 1}:
        r.ok({"wrap": "payload[0..2] = original.header.sequence_number"})
    else:
        r.violate(w.name, "osn:write", w.where(0), "wrap_rtx_packet does not put the original sequence number into payload bytes 0..2 (found %s)" % sorted(wl.get("sequence_number", ())))
    ext = [t for bi, t, p in w.calls() if p and p.endswith("::extend_from_slice")]
    if ext and mir.has_field(w.term_operand(ext[0]["a"][1]), "payload") and len(ext) == 1:
        r.ok({"wrap": "then the whole original payload"})
    else:
        r.violate(w.name, "payload:write", w.where(0), "wrap_rtx_packet does not append exactly the original payload after the OSN")
    # unwrap: header sequence = from_be_bytes([payload[0], payload[1]]), payload = payload.slice(2..)
    ctor = [(bi, t) for bi, t, p in u.calls() if p and p.endswith("RtpHeader::new")]
    okseq = False
    for bi, t in ctor:
        seq = u.term_operand(t["a"][1])
        idx = sorted(x[2][1] for x in mir.walk(seq) if x[0] == "index" and x[2][0] == "const")
        okseq = seq[0] == "call" and seq[1].endswith("::from_be_bytes") and idx == [0, 1]
        ts = u.term_operand(t["a"][2])
        if okseq and mir.field_path(ts) and mir.field_path(ts).endswith("header.timestamp"):
            r.ok({"unwrap": "sequence = u16::from_be_bytes(payload[0..2]), timestamp = rtx.header.timestamp"})
        else:
            r.violate(u.name, "osn:read", u.where(bi), "unwrap_rtx_packet does not rebuild the header from OSN = payload[0..2] and the RTX timestamp")
    sl = [t for bi, t, p in u.calls() if p and p.endswith("Bytes::slice")]
    if sl and mir.has(u.term_operand(sl[0]["a"][1]), lambda x: x[0] == "agg" and x[1].endswith("RangeFrom") and mir.int_value(x[3][0]) == 2):
        r.ok({"unwrap": "payload = rtx.payload.slice(2..)"})
    else:
        r.violate(u.name, "payload:read", u.where(0), "unwrap_rtx_packet does not return the payload from byte 2 on")
    for b in (w, u):
        mk = [st for bi, si, st in core.field_writes(b, lambda f: f == "marker") if si is not None]
        if mk and all((mir.field_path(b.term_rvalue(st["rv"])) or "").endswith("header.marker") for st in mk):
            r.ok({b.name.split("::")[-1]: "marker copied"})
        else:
            r.violate(b.name, "marker", b.where(0), "the marker bit is not carried over")
    r.need("RtpHeader::new in unwrap_rtx_packet", len(ctor), 1)
    return r


def r15_10(ctx):
    """RFC 3550 6.4.1: 'cumulative number of packets lost' is a SIGNED 24-bit field (duplicates can make it
    negative). The parser must sign-extend the three bytes into the i32 (shift left by 8, arithmetic shift right by
    8), the writer must clamp to the 24-bit range and keep the low 24 bits."""
    r = RuleResult("R15.10", "K6", "report block: the signed 24-bit loss counter is sign-extended on parse and truncated on write")
    pb, wb = ctx.body("rtp::parse_report_block"), ctx.body("rtp::build_report_block")
    r.scope += [pb.name, wb.name]
    t = None
    for bi, si, st in pb.assigns():
        rv = st["rv"]
        if rv["r"] == "agg" and rv.get("ak") == "adt" and "packets_lost" in rv.get("fields", ()):
            t = pb.term_operand(rv["ops"][rv["fields"].index("packets_lost")])
    if t is None:
        raise core.CheckerError("R15.10: packets_lost not found in parse_report_block")
    sx = t[0] == "bin" and t[1] in ("Shr", "ShrUnchecked") and mir.int_value(t[3]) == 8 and \
        t[2][0] == "bin" and t[2][1] in ("Shl", "ShlUnchecked") and mir.int_value(t[2][3]) == 8
    if sx and sorted(_const_idx(t)) == [5, 6, 7]:
        r.ok({"parse": "((b5<<16 | b6<<8 | b7) << 8) >> 8 on i32: sign-extended"})
    else:
        r.violate(pb.name, "signext:packets_lost", pb.where(0),
                  "the 24-bit loss counter is assembled as %s without sign extension: negative counts parse as n + 2^24" % mir.show(t, 120))
    ok_w = False
    for bi, si, st in wb.assigns():
        tt = wb.term_rvalue(st["rv"])
        if tt[0] == "bin" and tt[1] == "BitAnd" and mir.int_value(tt[3]) == 0x00FFFFFF and mir.has(tt[2], lambda x: x[0] == "call" and x[1].endswith("::clamp")):
            ok_w = True
    if ok_w:
        r.ok({"write": "(clamp(-2^23, 2^23-1) as u32) & 0x00FFFFFF"})
    else:
        r.violate(wb.name, "trunc:packets_lost", wb.where(0), "the loss counter is not clamped to 24 signed bits and masked with 0x00FFFFFF before it is written")
    return r


def _const_idx(t):
    return [x[2][1] for x in mir.walk(t) if x[0] == "index" and x[2][0] == "const"]


def r15_11(ctx):
    """a decoder's "is there room for this element" guard must accept the boundary case where the element ends exactly
    at the end of the buffer: `pos + size > len => stop` / `len < pos + size => error`, not `>=` / `<=`. An over-strict
    guard silently drops (or refuses) a valid LAST element - e.g. the final attribute of a STUN message, the last report
    block of an RR - while everything produced by this crate (which ends in other elements) still round-trips."""
    r = RuleResult("R15.11", "K6", "RTP/RTCP parsers: element-fits guards accept an element that ends exactly at the end of the buffer")
    n = 0
    for b in ctx.facts.all_bodies():
        if "::tests::" in b.name or not b.name.startswith(('rtp::', 'media::depacketizer::', '<media::depacketizer::')):
            continue
        for sb, t, tight in core.bound_guards(b):
            n += 1
            if tight:
                r.ok({"site": b.where(sb), "guard": mir.show(t, 90)})
            else:
                r.violate(b.name, "guard:over-strict", b.where(sb),
                          "the guard %s also rejects an element that ends exactly at the end of the buffer (the access it protects is in "
                          "bounds there): a valid last element is dropped or refused" % mir.show(t, 100))
    r.need("element-fits guards", n, 7)
    return r


def _oty(b, o):
    if o.get("k") == "c":
        return o.get("ty", "")
    p_ = o.get("p", {})
    if "p" in p_:
        return "?"
    return b.locals[p_["l"]]["ty"]


def r15_12(ctx):
    """'NACK ... preserves the set of lost sequence numbers across wraparound': RTP sequence numbers live modulo 2^16.
    In the NACK code (receiver gap detection, sender NACK buffer, pair packing / unpacking) a run of sequence numbers
    is walked with wrapping steps and two sequence numbers are related through wrapping_sub only. A plain `a..b` over
    u16 values is empty when the run crosses 65535 -> 0, and a raw `<` orders them wrongly there. Constant-bounded
    ranges (the 16 BLP bit positions) are not sequence numbers."""
    r = RuleResult("R15.12", "K6/lint", "NACK code never iterates or orders RTP sequence numbers with non-wrapping u16 ranges / comparisons")
    nfn = 0
    n = 0
    for b in ctx.facts.all_bodies():
        nm = b.name
        if "::tests::" in nm or "nack" not in nm.lower():
            continue
        if not nm.lstrip("<").startswith(("peer_connection::", "rtp::")):
            continue
        nfn += 1
        for bi, si, st in b.assigns():
            rv = st["rv"]
            if rv["r"] == "agg" and rv.get("ak") == "adt" and rv["adt"].endswith(("ops::Range", "ops::RangeInclusive")):
                tys = [_oty(b, o) for o in rv["ops"]]
                if "u16" in tys:
                    n += 1
                    if all(o.get("k") == "c" for o in rv["ops"]):
                        r.ok({"site": b.where(bi, si), "range": "constant bounds (bit positions)"})
                    else:
                        r.violate(nm, "seq:range", b.where(bi, si),
                                  "a plain range over u16 sequence numbers (%s): empty when the run crosses 65535 -> 0, so the lost "
                                  "packets around the wrap are never NACKed" % ", ".join(mir.show(b.term_operand(o), 50) for o in rv["ops"]))
            if rv["r"] == "bin" and rv["op"] in ("Lt", "Le", "Gt", "Ge"):
                if _oty(b, rv["a"]) == "u16" and _oty(b, rv["b"]) == "u16" and rv["a"].get("k") != "c" and rv["b"].get("k") != "c":
                    n += 1
                    r.violate(nm, "seq:cmp", b.where(bi, si),
                              "two u16 sequence numbers ordered with a raw `%s`: wrong across the 65535 -> 0 wrap (use wrapping_sub)" % rv["op"])
        for bi, t, p in b.calls():
            if p and "RangeInclusive" in p and p.endswith("::new") and any(_oty(b, a) == "u16" for a in t["a"]) and bi not in b.cleanup:
                n += 1
                if all(a.get("k") == "c" for a in t["a"]):
                    r.ok({"site": b.where(bi), "range": "constant bounds"})
                else:
                    r.violate(nm, "seq:range", b.where(bi), "a plain inclusive range over u16 sequence numbers: empty / wrong across the wrap")
    r.ok({"NACK functions scanned": nfn, "u16 ranges / comparisons seen": n})
    r.need("NACK functions scanned", nfn, 6)
    return r


def r15_13(ctx):
    """RFC 8285: the identifiers 0 (padding) and 15 (stop) are special in the ONE-byte form only; in the two-byte form
    the ID is a full octet and 15 is an ordinary identifier. get_extension therefore may not judge the requested `id`
    before it knows which form the block has: no branch on `id` ahead of the profile test (a guard such as
    `if id == 0 || id == 15 { return None }` at the top makes a two-byte element with ID 15 unreadable)."""
    r = RuleResult("R15.13", "K1", "get_extension applies the one-byte reserved IDs only inside the one-byte branch")
    fn = "rtp::RtpHeader::get_extension"
    b = ctx.body(fn)
    r.scope.append(fn)
    prof = []
    idsw = []
    for sb in range(len(b.blocks)):
        if sb in b.cleanup or b.blocks[sb]["t"]["k"] != "switch":
            continue
        term, outs = b.switch_info(sb)
        if mir.has_field(term, "profile") and mir.has(term, lambda x: mir.int_value(x) in (0xBEDE, 0x1000)):
            prof.append(sb)
        elif mir.has(term, lambda x: x == ("arg", "id")) and not mir.has(term, lambda x: x[0] == "index"):
            idsw.append(sb)        # a test on the requested id that does not involve a byte of the block
    r.need("profile tests in get_extension", len(prof), 1)
    first = min(prof)
    early = [sb for sb in idsw if first in b.reachable([sb], cut_edges=b.back_edges())]
    if early:
        r.violate(fn, "ext:id-before-form", b.where(early[0]),
                  "the requested id is tested (%s) before the header-extension form is known: a rule of the one-byte form (IDs 0 / 15 "
                  "reserved) is applied to two-byte blocks, where those are ordinary identifiers" % mir.show(b.switch_info(early[0])[0], 60))
    else:
        r.ok({"profile test": b.where(first), "id tests ahead of it": 0})
    return r


_SHRINKS = ("truncate", "pop", "drain", "clear", "remove", "swap_remove", "retain", "split_off", "set_len", "dedup")


def r15_14(ctx):
    """'setting a header extension ... leaves other extensions intact': set_extension rebuilds the element list into a
    fresh buffer - every existing element copied verbatim (padding skipped), the new one appended. Element VALUES may
    contain and end in zero bytes (a transport-cc number 0x0100, an audio level 0, an abs-send-time with a zero low
    byte); once copied, nothing may be taken off the buffer again: zero bytes at its end are data, not padding.
    Decided: the rebuilt buffer of set_extension is only ever appended to (no truncate / pop / drain / clear / ...)."""
    r = RuleResult("R15.14", "K3", "set_extension never shortens the rebuilt element list")
    b = ctx.body("rtp::RtpHeader::set_extension")
    r.scope.append(b.name)
    grows, shrinks = [], []
    for bi, t, p in b.calls():
        if not p or not t["a"] or bi in b.cleanup:
            continue
        a0 = b.term_operand(t["a"][0])
        if not (a0[0] == "var" and a0[1] == "new_data"):
            continue
        m = p.split("::")[-1]
        if m in ("push", "extend_from_slice", "extend", "resize"):
            grows.append(bi)
        elif m in _SHRINKS:
            shrinks.append((bi, m))
    r.need("appends to the rebuilt extension buffer", len(grows), 3)
    for bi, m in shrinks:
        r.violate(b.name, "ext:shrunk:%s" % m, b.where(bi),
                  "the rebuilt extension buffer is shortened (%s) after existing elements were copied into it: trailing zero bytes there are the "
                  "value of the last element, not padding - that element is corrupted and the appended one unreadable" % m)
    if not shrinks:
        r.ok({"buffer": "new_data", "appends": len(grows), "shrinking calls": 0})
    return r


def r15_15(ctx):
    """'... and vice versa': what an independent implementation serialises must parse here. RTCP padding (P bit): the last
    octet counts the pad octets including itself; receivers strip that many. The only counts that cannot be right are 0
    and more than the packet holds. Senders do not owe a multiple of four: transport-wide congestion control feedback of
    libwebrtc, pion and webrtc-rs pads its chunk/delta area with 1..3 octets and says so - rejecting those loses the
    feedback and every other report in the same compound packet. Decided: between the P-bit test and the point where
    the count is subtracted, parse_rtcp_packets rejects on exactly the two conditions pad == 0 and pad > body length."""
    r = RuleResult("R15.15", "K6", "RTCP padding is rejected only when the count is 0 or exceeds the packet")
    b = ctx.body("rtp::parse_rtcp_packets")
    r.scope.append(b.name)
    pbit = core.guard_edges(b, lambda term, meaning, *_: meaning is True and term[0] == "bin" and term[1] == "Ne" and mir.int_value(term[3]) == 0 and
                            term[2][0] == "bin" and term[2][1] == "BitAnd" and mir.int_value(term[2][3]) == 0x20)
    r.need("P-bit test in parse_rtcp_packets", len(pbit), 1)
    accept = [bi for bi, si, st in b.assigns() if b.local_name(st["p"]["l"]) == "body_end" and "p" not in st["p"] and
              (lambda t: t[0] == "bin" and t[1] in ("Sub", "SubUnchecked"))(b.term_rvalue(st["rv"]))]
    r.need("pad subtraction", len(accept), 1)
    region = b.reachable([t for _s, t in pbit], cut_blocks=set(accept), cut_edges=b.back_edges())

    def pad_term(t):
        return t[0] == "cast" and mir.has(t, lambda x: x[0] == "index")
    n_ok = 0
    for sb in sorted(region):
        if b.blocks[sb]["t"]["k"] != "switch" or b.blocks[sb]["t"]["sp"]["x"].startswith("m:"):
            continue
        term, outs = b.switch_info(sb)
        if not mir.has(term, pad_term):
            continue            # not a test of the pad count
        zero = term[0] == "bin" and term[1] in ("Eq", "Ne") and pad_term(term[2]) and mir.int_value(term[3]) == 0
        too_big = term[0] == "bin" and ((term[1] in ("Gt", "Ge") and pad_term(term[2])) or (term[1] in ("Lt", "Le") and pad_term(term[3])))
        if zero or too_big:
            n_ok += 1
            r.ok({"site": b.where(sb), "rejects": "pad == 0" if zero else "pad larger than the packet body"})
        else:
            r.violate(b.name, "rtcp:padding-stricter", b.where(sb),
                      "a padded RTCP packet is rejected on a condition other than 'count is 0' / 'count exceeds the packet' (%s): pad counts that "
                      "conforming senders produce (1..3 after transport-cc feedback) make the whole compound packet fail" % mir.show(term, 70))
    r.need("padding sanity tests", n_ok, 2)
    return r


def _bound_pred(T, limit):
    """guard predicate: this edge establishes  T <= limit  (T a term, compared with a constant)"""
    def pred(term, meaning, *_):
        neg, t = False, term
        if t[0] == "un" and t[1] == "Not":
            t, neg = t[2], True
        if t[0] != "bin" or t[1] not in ("Gt", "Ge", "Lt", "Le") or not isinstance(meaning, bool):
            return False
        truth = meaning != neg
        op, x, y = t[1], t[2], t[3]
        cx, cy = mir.int_value(x), mir.int_value(y)
        if x == T and isinstance(cy, int):
            c = cy
        elif y == T and isinstance(cx, int):
            c = cx
            op = {"Gt": "Lt", "Ge": "Le", "Lt": "Gt", "Le": "Ge"}[op]      # C op T  ->  T op' C
        else:
            return False
        # normalised: T op c, with truth value `truth`
        if op == "Gt":
            return (not truth) and c <= limit
        if op == "Ge":
            return (not truth) and c - 1 <= limit
        if op == "Le":
            return truth and c <= limit
        if op == "Lt":
            return truth and c - 1 <= limit
        return False
    return pred


def _self_bounded(T, limit):
    """T is min(.., C) with C <= limit, or (.. BitAnd C) with C <= limit"""
    if T[0] == "call" and T[1].endswith("::min") and len(T[2]) == 2:
        return any(isinstance(mir.int_value(a), int) and mir.int_value(a) <= limit for a in T[2])
    if T[0] == "bin" and T[1] == "BitAnd":
        return any(isinstance(mir.int_value(a), int) and mir.int_value(a) <= limit for a in (T[2], T[3]))
    return False


def _strip_casts(t):
    while t[0] == "cast":
        t = t[1]
    return t


def r15_16(ctx):
    """'REMB mantissa/exponent limits': the 18-bit mantissa is written as three masked pieces (`>> 16 & 0x03`, `>> 8 & 0xFF`,
    `& 0xFF`). The masks silently drop bit 18 and up, so the value that reaches them has to be at most 0x3FFFF on every
    path - otherwise the packet carries a different bitrate (2^k encodes as 0) and parse(marshal(p)) != p. Decided: the
    term masked into the top two mantissa bits is, at that site, bounded by a comparison with a constant <= 0x3FFFF on
    every path (the normalising loop's exit edge), or is itself a min()/mask with such a constant. This is the bounded-write
    part; that the exponent counts exactly the shifts applied is R15.5's sibling rule."""
    r = RuleResult("R15.16", "K1", "the REMB mantissa reaching the 18-bit field is at most 0x3FFFF")
    b = ctx.body("rtp::build_remb_body")
    r.scope.append(b.name)
    sites = []
    for bi, t, p in b.calls():
        if not p or not p.endswith("::push"):
            continue
        for a in t["a"]:
            for x in mir.walk(b.term_operand(a)):
                if x[0] == "bin" and x[1] == "BitAnd" and 3 in (mir.int_value(x[2]), mir.int_value(x[3])):
                    other = x[2] if mir.int_value(x[3]) == 3 else x[3]
                    o = _strip_casts(other)
                    if o[0] == "bin" and o[1] == "Shr" and mir.int_value(o[3]) == 16:
                        sites.append((bi, _strip_casts(o[2])))
    r.need("sites packing the top mantissa bits", len(sites), 1)
    for bi, T in sites:
        if _self_bounded(T, 0x3FFFF):
            r.ok({"site": b.where(bi), "mantissa": mir.show(T, 60), "bounded": "by construction"})
            continue
        g = core.guard_edges(b, _bound_pred(T, 0x3FFFF))
        if g and core.k1(b, [bi], g)[bi] is None:
            r.ok({"site": b.where(bi), "mantissa": mir.show(T, 60), "bounded": "every path passes an edge establishing mantissa <= 0x3FFFF"})
        else:
            r.violate(b.name, "remb:mantissa-unbounded", b.where(bi),
                      "the value packed into the 18-bit REMB mantissa (%s) is not bounded by 0x3FFFF on every path: bit 18 is dropped by the "
                      "`& 0x03` mask and the packet carries another bitrate" % mir.show(T, 60))
    return r


RTCP_BUILDERS = ("rtp::marshal_rtcp_packets", "rtp::rtcp_count", "rtp::build_sender_report_body", "rtp::build_receiver_report_body",
                 "rtp::build_sdes_body", "rtp::build_goodbye_body", "rtp::build_nack_body", "rtp::build_remb_body", "rtp::build_fir_body",
                 "rtp::build_twcc_body")


def r15_17(ctx):
    """'Parsing any packet the stack serialises returns the same logical packet': RTCP carries list lengths in narrow
    fields - 5 bits for the report-block / chunk / source count, one octet for an SDES item length, a BYE reason length,
    the REMB SSRC count. The marshaller narrows `len() as u8` (and write_rtcp_packet masks `& 0x1F`); for a list that
    does not fit, the count announces fewer entries than the body carries: 32 report blocks serialise without error and
    parse back as none, a 300-byte CNAME produces a packet our own parser rejects. Decided: in the RTCP marshal functions
    every `<len-derived> as u8` is, on every path, behind a comparison bounding that value by the field's capacity (31
    for the count handed to write_rtcp_packet, 255 otherwise), or is a min()/mask with such a constant; and
    marshal_rtcp_packets hands write_rtcp_packet no count that did not go through such a narrowing."""
    r = RuleResult("R15.17", "K1", "RTCP count / length fields: every narrowing of a list length is bounded by the field's capacity")
    n = 0
    for fn in RTCP_BUILDERS:
        if not ctx.facts.has_body(fn):
            continue
        b = ctx.body(fn)
        r.scope.append(fn)
        limit = 31 if fn in ("rtp::marshal_rtcp_packets", "rtp::rtcp_count") else 255
        seen = set()
        sites = []
        for bi, blk in enumerate(b.blocks):
            if bi in b.cleanup:
                continue
            terms = [b.term_rvalue(st["rv"]) for st in blk["s"] if st["k"] == "as"]
            if blk["t"]["k"] == "call":
                terms += [b.term_operand(a) for a in blk["t"]["a"]]
            for t in terms:
                for x in mir.walk(t):
                    if x[0] == "cast" and len(x) > 2 and str(x[2]) == "u8":
                        inner = _strip_casts(x[1])
                        lenish = mir.has(inner, lambda z: (z[0] == "call" and z[1].endswith("::len")) or z == ("arg", "entries"))
                        if lenish and (bi, inner) not in seen:
                            seen.add((bi, inner))
                            sites.append((bi, inner))
        for bi, T in sites:
            n += 1
            if _self_bounded(T, limit):
                r.ok({"site": b.where(bi), "value": mir.show(T, 60), "bounded": "min / mask <= %d" % limit})
                continue
            g = core.guard_edges(b, _bound_pred(T, limit))
            if g and core.k1(b, [bi], g, fresh_per_iteration=True)[bi] is None:
                r.ok({"site": b.where(bi), "value": mir.show(T, 60), "bounded": "comparison with a constant <= %d on every path" % limit})
            else:
                r.violate(fn, "narrowing:%s" % mir.show(T, 50), b.where(bi),
                          "`%s as u8` is not bounded by %d on every path: a longer list is serialised with a count / length that announces "
                          "fewer entries than the body carries - what is parsed back is another packet (or none)" % (mir.show(T, 60), limit))
    r.need("list-length narrowings in the RTCP marshaller", n, 4)
    return r


def r15_18(ctx):
    """'one- and two-byte header extensions': RFC 8285 4.3 - the two-byte form is announced by 0x100 in the upper 12 bits of
    the profile word, the low 4 bits are application bits a sender may set. get_extension compared the profile with
    0x1000 exactly; under 0x1001 every element (MID, RID, ...) was invisible. Decided: the two-byte branch of
    get_extension tests the profile under the mask 0xFFF0."""
    r = RuleResult("R15.18", "K6", "two-byte header extensions are recognised for every appbits value")
    b = ctx.body("rtp::RtpHeader::get_extension")
    r.scope.append(b.name)
    found = None
    for sb in range(len(b.blocks)):
        if sb in b.cleanup or b.blocks[sb]["t"]["k"] != "switch":
            continue
        term, outs = b.switch_info(sb)
        if term[0] == "bin" and term[1] in ("Eq", "Ne") and mir.has_field(term, "profile"):
            c = mir.int_value(term[3]) if isinstance(mir.int_value(term[3]), int) else mir.int_value(term[2])
            if isinstance(c, int) and c != 0xBEDE:
                found = (sb, term, c)
    if found is None:
        raise core.CheckerError("R15.18: the two-byte profile test was not found in get_extension")
    sb, term, c = found
    other = term[2] if isinstance(mir.int_value(term[3]), int) else term[3]
    masked = other[0] == "bin" and other[1] == "BitAnd" and 0xFFF0 in (mir.int_value(other[2]), mir.int_value(other[3]))
    if c != 0x1000:
        r.violate(b.name, "two-byte-profile:value", b.where(sb), "the two-byte extension form is looked for under profile %#06x, RFC 8285 4.3 says 0x100 in the upper 12 bits (0x1000..0x100F)" % c)
    elif masked:
        r.ok({"site": b.where(sb), "test": mir.show(term, 80)})
    else:
        r.violate(b.name, "two-byte-profile:exact", b.where(sb),
                  "the two-byte extension form is recognised only for profile 0x1000 exactly (%s): with non-zero appbits (0x1001 ..) the "
                  "elements of a conforming packet are not found" % mir.show(term, 70))
    return r


def r15_19(ctx):
    """'serialising any well-formed packet it parsed reproduces bytes ...': the X bit and the 4-byte profile/length word are
    written exactly when the header HAS an extension block - RFC 3550 5.3.1 allows one of length 0, and the parser keeps
    it as Some(profile, []). A writer that decides by 'is there anything to put on the wire' drops such a block: parse then
    marshal changes the bytes, marshal then parse loses the profile. Decided: in RtpHeader::write_to and encoded_len the
    Option whose Some-ness sets the X bit / adds the block is the field `self.extension` itself, not a filtered copy."""
    r = RuleResult("R15.19", "K6", "the X bit and the extension block follow extension.is_some(), also for an empty block")
    for fn in ("rtp::RtpHeader::write_to", "rtp::RtpHeader::encoded_len"):
        b = ctx.body(fn)
        r.scope.append(fn)
        deciders = []
        for sb in range(len(b.blocks)):
            if sb in b.cleanup or b.blocks[sb]["t"]["k"] != "switch":
                continue
            term, outs = b.switch_info(sb)
            t = term
            while t[0] == "un" and t[1] == "Not":
                t = t[2]
            opt = None
            if t[0] == "call" and t[1].endswith(("Option::<T>::is_some", "Option::<T>::is_none")) and t[2]:
                opt = t[2][0]
            elif t[0] == "discr" and len(t) > 2 and str(t[2]).endswith("option::Option"):
                opt = t[1]
            if opt is not None and (mir.has_field(opt, "extension") or mir.has(opt, lambda x: x[0] == "call" and "extension" in x[1])):
                deciders.append((sb, opt))
        for bi, t, p in b.calls():
            if p and p.endswith(("Option::<T>::map_or", "Option::<T>::map", "Option::<T>::is_some_and")) and t["a"]:
                opt = b.term_operand(t["a"][0])
                if mir.has_field(opt, "extension") or mir.has(opt, lambda x: x[0] == "call" and "extension" in x[1]):
                    deciders.append((bi, opt))
        if not deciders:
            raise core.CheckerError("R15.19: no decision on the extension found in %s" % fn)
        for sb, opt in deciders:
            core_opt = opt
            while core_opt[0] == "call" and core_opt[1].endswith(("::as_ref", "::as_deref")) and core_opt[2]:
                core_opt = core_opt[2][0]
            direct = core_opt[0] == "field" and core_opt[2] == "extension"
            if direct:
                r.ok({"site": b.where(sb), "decides on": "self.extension"})
            else:
                r.violate(fn, "xbit:filtered", b.where(sb),
                          "the extension is written / counted depending on %s, not on self.extension.is_some(): a present block of length 0 "
                          "(legal, RFC 3550 5.3.1) is dropped on serialisation" % mir.show(opt, 70))
    return r


def run(ctx):
    return [r15_1(ctx), r15_2(ctx), r15_3(ctx), r15_4(ctx), r15_5(ctx), r15_6(ctx), r15_7(ctx), r15_8(ctx), r15_9(ctx), r15_10(ctx), r15_11(ctx), r15_12(ctx), r15_13(ctx), r15_14(ctx), r15_15(ctx), r15_16(ctx), r15_17(ctx), r15_18(ctx), r15_19(ctx)]
