#!/bin/bash
# usage: tools/seed_try_wt.sh <patch.diff> <ID> [<ID>...]  -- like seed_try.sh but in the scratch worktree /tmp/wt2
# (synchronised to /repo HEAD first), so that /repo itself stays untouched while a long check is reading it.
set -u
patch=$1; shift
wt=${SEED_TRY_WT:-/tmp/wt2}
cd $wt || exit 2
git checkout -q -- . && git clean -fdq && git checkout -q --detach $(git -C /repo rev-parse HEAD)
git apply "$patch" || exit 2
trap 'git -C $wt checkout -q -- . ; git -C $wt clean -fdq' EXIT
for id in "$@"; do
  echo "== $id"
  VERIF_REPO=$wt VERIF_EVIDENCE_DIR=$(mktemp -d) /verif/check "$id" --tier quick 2>&1 | grep -v "^KNOWN-FINDING" | tail -15
  echo "exit=${PIPESTATUS[0]}"
done
