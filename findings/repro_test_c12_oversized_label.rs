use rustrtc::transports::sctp::DataChannelOpen;
use rustrtc::{PeerConnection, RtcConfiguration};

/// A label that does not fit the 16-bit length field of DCEP OPEN must be refused at the API,
/// not announced to the peer as something else.
#[tokio::test]
async fn repro_c12_label_longer_than_the_dcep_length_field() {
    let label = "L".repeat(65_541);
    let pc = PeerConnection::new(RtcConfiguration::default());
    match pc.create_data_channel(&label, None) {
        Err(_) => {}
        Ok(_dc) => {
            // what the peer would be told
            let open = DataChannelOpen { message_type: 0x03, channel_type: 0, priority: 0, reliability_parameter: 0, label: label.clone(), protocol: "proto".into() };
            let seen = DataChannelOpen::unmarshal(&open.marshal()).expect("unmarshal");
            assert_eq!((seen.label.len(), seen.protocol.as_str()), (label.len(), "proto"),
                "create_data_channel accepted the label, but the peer is told label length {} and protocol {:?}", seen.label.len(), &seen.protocol[..seen.protocol.len().min(8)]);
        }
    }
}
