#!/usr/bin/env python3
"""Generate MANIFEST.json from the registry below (kept in one place so the manifest stays valid)."""
import json, os
VERIF = os.path.dirname(os.path.dirname(os.path.abspath(__file__)))

TECH = "static analysis: custom rustc_private MIR fact driver + repository-specific CFG/dataflow rules (cut-set guards, who-may, pairing, lock-held, table agreement)"
NOTE = ("Trusted: rustc's MIR construction, the fact driver's place/field-name resolution, the python CFG/value-graph engine, "
        "the frozen rule tables (one line of reason per exception). Unwind edges and async cancellation are not treated as paths. "
        "Dependencies are opaque. Decides the named structural clauses for every path (hence every input/schedule/history driving "
        "the analysed functions); behaviour over values/histories that is not a function of code shape is explicitly not decided (see DESIGN.md).")

CLAIMED = {
    "C01": ("§4 C01", "Necessary conditions only: dedup-before-deliver cut-set in handle_data, who-may-write the receive point/tags, association set-up must not clobber a live association (known findings), serial-number-arithmetic lint over transports::sctp, SSN/fragment lock discipline. Delivery over loss/dup/reorder histories and liveness are not decided."),
    "C02": ("§4 C02", "Assume/guarantee chain over the DTLS handshake context (Connected => Finished verified => keys after verified key exchange => signature by the fingerprinted certificate => fingerprint from remote SDP), each link a cut-set/who-may rule over all CFG paths; the server-role gap is reported as a known finding."),
    "C03": ("§4 C03", "Cut-set rules: no upward effect from an unauthenticated record; only the sealed buffer is sent, only under Connected, bounded record size; every AEAD seal consumes a fresh sequence number (atomic RMW or counter advanced on every path)."),
    "C05": ("§4 C05", "Cut-set rules: replay/rollover state, Ok returns and per-SSRC table changes in the SRTP receive path are reachable only past an authentication-success edge; transport drops on unprotect error."),
    "C06": ("§4 C06", "Cut-set: every ICE state effect of the inbound Binding-request handlers must be cut by a credential verification edge (none exists: 22 known findings, one per effect site; a new unauthenticated effect is still reported); responses are dispatched only on the Some edge of pending_transactions.remove(id) and a binding check succeeds only past id/method/class tests."),
    "C07": ("§4 C07", "Site census with proof-or-table over the decoder layer (about 230 functions, 825 potential panic sites): every bounds/overflow/div-by-zero Assert and every call of a panicking std/bytes API is either PROVEN by a forward length analysis (difference constraints over integer locals and buffer lengths with cursor accounting, slicing, branch refinement, iterator ranges and callee preconditions checked at every call site) or listed in a reviewed table with its reason. Decides panic-freedom of those sites relative to the library model; hangs and allocation size are not decided."),
    "C09": ("§4 C09", "Table agreement: (SDP type, required state, next state) triples extracted from the CFG of the four JSEP entry points equal the JSEP table; who-may-send on the signaling state; no-effect-before-failure: no feasible CFG path (SDP type and signaling state tracked as correlated predicates, infallible callees pruned by summary) from an effect to an error return. Errors that only propagate a transport start-up failure are listed as not decided."),
    "C11": ("§4 C11", "Necessary conditions of RFC 6347 4.2.4 retransmission: every handshake record sent flows into the stored flight (must-flow on success paths), the retransmit tick re-sends the stored flight only while Handshaking and the deadline ends in Failed, a duplicate client Finished re-sends the final flight, fragments are placed by offset. Convergence over loss histories and key agreement are not decided."),
    "C12": ("§4 C12", "Open announced only by the call performing Connecting->Open (or on a freshly created channel), Close only by the call performing ->Closed, Closed terminal; fragments under one queue guard with B/E flags on the first/last-fragment edges; SSN under send_lock; DCEP type table/PPIDs equal RFC 8832; FORWARD-TSN serial comparison. No-merge/no-split under loss is not decided."),
    "C13": ("§4 C13", "Single wire exit with CRC32c over the finished packet stored little-endian at bytes 8..12; evaluated size constants and their use in batching/fragmentation; TSNs only from next_tsn.fetch_add(1) under the sent_queue lock; verification-tag argument flow with a 3-entry RFC exception table; dequeue loop bounded by a budget derived from rwnd/cwnd/flight. Window arithmetic correctness and quiescence are not decided."),
    "C14": ("§4 C14", "Negative property over every path = cut-set: every RTP/RTCP egress is cut by protect(Ok)-on-the-sent-buffer or the sender's srtp_required==false; every ingress delivery by unprotect(Ok) or srtp_required==false; who-may-call IceConn egress; srtp_required wiring at construction."),
    "C15": ("§4 C15", "Thin claim, table agreement only: RTCP (packet type, FMT) pairs written per variant equal the RFC numbers and the parser dispatch is their inverse; RTP version and header-extension profile ids. Inverse laws over all packets are value-level and not decided."),
    "C16": ("§4 C16", "Thin claim, table agreement and ordering only: STUN method/class bit tables and attribute type codes of encoder and decoder agree with each other and with RFC 5389/5766/IANA; magic cookie / FINGERPRINT constants; padding on every append path; MESSAGE-INTEGRITY before FINGERPRINT, each after a length fix-up. XOR algebra, HMAC/CRC values, priorities and candidate round trips are not decided."),
    "C17": ("§4 C17", "Spawn census (every JoinHandle flows into track_task / LoopsGuard / the caller, or the detached task is in a reviewed table with a machine-checked termination witness), close-path completeness derived from the transport-typed fields of PeerConnectionInner, cleanup guard armed before the first await, close wakes both Notify objects and waiters re-test Closed. Bounded time, descriptor counts and racing terminating events are not decided."),
    "C18": ("§4 C18", "Who-may-write the latch state plus cut-set rules for stickiness and legitimacy (each destination write cut separately by unlatched / expected-SSRC / not-RTCP / latching-enabled) for all packet histories; rule precedence among candidates is not decided."),
    "C19": ("§4 C19", "State discipline of RewriteBridge::rewrite_packet that stream continuity rests on (stable per-source output SSRC keyed by the source SSRC read before the rewrite, sequence counter advanced by exactly one per packet, timestamp offset changed only at discontinuities) and single delivery in RtpTransport::receive. Which listener a packet is routed to and wraparound arithmetic are not decided."),
    "C20": ("§4 C20", "Ownership/lock discipline of the SPSC ring: every push under one shared producer lock, every pop under one shared consumer lock (guard-liveness dataflow), atomic ordering table, Send/Sync bounds, sender accounting, drain-before-EOS."),
}

NOT_APPLICABLE = {
    "C04": "round-trip equality, interop with another SRTP implementation and rollover estimation over all sequence pairs are statements about computed values (keystreams, MACs, 48-bit indices); no CFG-shape/ownership fact implies them and checking them means executing the code (different technique family).",
    "C08": "validity of a generated answer is a relation between the contents of two SDP documents and a configuration, computed by data-dependent loops over attribute strings; no structural necessary condition survives a behaviour-preserving rewrite.",
    "C10": "'every compatible configuration pair connects within timeouts' is end-to-end liveness across two processes, sockets and timers; not a function of code shape.",
}

PENDING = {}


def main():
    props = [json.loads(l) for l in open(os.path.join(VERIF, "properties.jsonl"))]
    checks = []
    for p in props:
        pid = p["id"]
        if pid in CLAIMED:
            ref, text = CLAIMED[pid]
            checks.append({
                "property_id": pid,
                "quick_cmd": "./check %s --tier quick" % pid,
                "thorough_cmd": "./check %s --tier thorough" % pid,
                "evidence_file": "/verif/evidence/%s.json" % pid,
                "replay_cmd_template": "./check %s --replay {path}" % pid,
                "engine": "mirfacts",
                "level_claimed": {"category": "other", "text": text, "design_ref": ref},
                "level_note": NOTE,
                "technique": TECH,
            })
    na = []
    for p in props:
        pid = p["id"]
        if pid in CLAIMED:
            continue
        reason = NOT_APPLICABLE.get(pid) or PENDING.get(pid)
        if reason is None:
            reason = "no static rule built yet for this property in the committed state; not claimed (work in progress, see DESIGN.md §9)"
        na.append({"property_id": pid, "reason": reason})
    m = {
        "version": 1,
        "setup_cmd": "cd /verif/driver && cargo build --release --offline && cd /verif && python3 engine/factsrun.py default",
        "hooks": {
            "guard": "rustrtc_verif",
            "enable": "no hooks are needed: the checks read the compiler's MIR of the unmodified sources (cargo +nightly check with the fact driver as RUSTC_WORKSPACE_WRAPPER)",
            "baseline_off_cmd": "cd /repo && cargo nextest run --workspace --no-fail-fast --tool-config-file pb:/w/lib/nextest.toml --profile pb --test-threads 8 --offline",
            "source_commits": [],
            "add_only": True,
        },
        "engines": [{
            "name": "mirfacts",
            "path": "/verif/driver (rustc_private fact dump) + /verif/engine (python3 CFG/value graph/rule kinds) + /verif/rules (per-property rules)",
            "serves_properties": sorted(CLAIMED),
            "kind_free_text": "static analysis over type-checked MIR; no execution of the code under analysis",
        }],
        "checks": checks,
        "not_applicable": na,
        "notes": "Fixes of genuine defects found by the checks are separate 'fix:' commits in /repo, listed in /verif/KNOWN_FINDINGS.txt. Exit codes: 0 held (KNOWN-FINDING lines for listed findings), 1 VIOLATION, 2 CHECKER-ERROR (anchor missing / build failed; fail closed).",
    }
    with open(os.path.join(VERIF, "MANIFEST.json"), "w") as fh:
        json.dump(m, fh, indent=1)
    print("MANIFEST.json: %d checks, %d not_applicable" % (len(checks), len(na)))

main()
