"""Length / range analysis for C07: a forward abstract interpretation over MIR.

Domain: sparse sets of difference constraints  A >= B + c  over symbols
    ('L', local)   current value of an integer local
    ('N', key)     current length / remaining() of the buffer denoted by `key` (canonical value-graph term,
                   so `&buf`, `&mut buf`, `*buf` and derefs of the same buffer share one key)
    'Z'            zero
Every symbol is an unsigned quantity (>= 0).  Upper bounds are facts Z >= x + (-u).
Transfer functions model integer copies/casts/+-const/masks/min, the len()/remaining() family, cursor consumption
(get_uN, advance, split_to, copy_to_*), slicing (range Index, Bytes::slice, split_at/off) and branch conditions.
Obligations (index < len, start <= end <= len, remaining >= n, a >= b for a-b, divisor != 0, shift < bits, equal lengths
for copy_from_slice) are discharged by a depth-bounded search over the facts (an entailment check inside the abstract
domain - no external solver).  What cannot be discharged is reported as UNPROVEN, never as a defect.

The library model (which std/bytes APIs panic and what they require/produce) is the frozen table below; it is part of
the trusted base and is printed in the evidence."""
import re

from . import mir

Z = "Z"
BIG = 1 << 40          # assumed upper bound for any buffer length (inputs are datagrams / SDP texts, << 2^40)
TYPE_MAX = {"u8": 255, "u16": 65535, "u32": (1 << 32) - 1, "u64": (1 << 64) - 1, "usize": (1 << 64) - 1,
            "i8": 127, "i16": 32767, "i32": (1 << 31) - 1, "i64": (1 << 63) - 1, "isize": (1 << 63) - 1, "u128": (1 << 128) - 1}

LEN_CALLS = ("::len", "Buf::remaining", "::remaining")
GET_FIXED = {"get_u8": 1, "get_i8": 1, "get_u16": 2, "get_i16": 2, "get_u16_le": 2, "get_u32": 4, "get_i32": 4, "get_u32_le": 4,
             "get_u64": 8, "get_i64": 8, "get_u64_le": 8, "get_u128": 16, "get_f32": 4, "get_f64": 8}
SAME_LEN_CALLS = ("::to_vec", "::freeze", "Bytes::copy_from_slice", "::clone", "::to_owned", "::into_boxed_slice", "::as_slice",
                  "::as_mut_slice", "::as_bytes", "::into_bytes", "::to_bytes", "::as_ref", "::as_mut", "::borrow", "::deref", "::deref_mut",
                  "BytesMut::from", "Bytes::from", "::into", "Vec::<T>::from", "::chunk", "::into_vec")
GROWABLE = ("bytes::BytesMut", "std::vec::Vec<", "&mut bytes::BytesMut", "&mut std::vec::Vec<", "std::string::String", "&mut std::string::String")

LIBRARY_MODEL = {
    "len()/remaining()/PtrMetadata": "result == N(buf)",
    "Buf::get_uN/get_iN": "requires N(buf) >= N/8; N(buf) -= N/8",
    "Buf::get_uint(n)/get_int(n)": "requires N(buf) >= n (and n <= 8); N(buf) -= n",
    "Buf::advance(n)": "requires N(buf) >= n; N(buf) -= n",
    "Bytes/BytesMut::split_to(n)": "requires N(buf) >= n; result N == n; N(buf) -= n",
    "Bytes/BytesMut::split_off(n)": "requires N(buf) >= n; result N == N(buf)-n; N(buf) = n",
    "Buf::copy_to_slice(dst)": "requires N(buf) >= N(dst); N(buf) -= N(dst)",
    "Buf::copy_to_bytes(n)": "requires N(buf) >= n; result N == n; N(buf) -= n",
    "Bytes::slice(a..b) / Index<Range>": "requires a <= b <= N(buf); result N == b-a",
    "Index<RangeFrom a..>": "requires a <= N(buf); result N == N(buf)-a",
    "Index<RangeTo ..b> / RangeToInclusive": "requires b <= N(buf) (b < N for ..=); result N == b (b+1)",
    "slice::split_at(mid)": "requires mid <= N(buf)",
    "slice::copy_from_slice(dst, src)": "requires N(dst) == N(src)",
    "Assert bounds(idx, len)": "requires idx < len",
    "Assert overflow Sub(a,b)": "requires a >= b",
    "Assert overflow Add/Mul(a,b)": "requires ub(a) (+|*) ub(b) <= MAX(type)",
    "Assert overflow Shl/Shr(a,k)": "requires k < bits(type)",
    "Assert div/rem zero(b)": "requires b >= 1",
    "BufMut::put_* on BytesMut/Vec": "never panics (growable)",
    "BufMut::put_* on &mut [u8]": "requires remaining_mut >= n",
    "unwrap/expect": "not modelled: always UNPROVEN (goes to the reviewed table)",
    "slice::chunks(n)/chunks_exact(n)": "requires n >= 1",
    "Vec::remove(i)/swap_remove(i)": "requires i < N(vec)",
    "Vec::insert(i, _)": "requires i <= N(vec)",
    "Vec::truncate / Bytes::truncate": "N = min(N, n), never panics",
    "to_vec/freeze/clone/from/as_ref": "result N == N(arg)",
}


class State:
    __slots__ = ("f",)

    def __init__(self, f=None):
        self.f = dict(f) if f else {}

    def copy(self):
        return State(self.f)

    def add(self, a, b, c):
        """a >= b + c"""
        if a == b:
            return
        k = (a, b)
        old = self.f.get(k)
        if old is None or c > old:
            self.f[k] = c

    def eq(self, a, b, c=0):
        """a == b + c"""
        self.add(a, b, c)
        self.add(b, a, -c)

    def kill(self, s, eliminate=True):
        """forget symbol s (it is about to be redefined); keep what is implied through it"""
        ins = [(a, c) for (a, b), c in self.f.items() if b == s]
        outs = [(b, c) for (a, b), c in self.f.items() if a == s]
        if eliminate and len(ins) * len(outs) <= 64:
            for a, c1 in ins:
                for b, c2 in outs:
                    if a != b:
                        self.add(a, b, c1 + c2)
        def mentions(x):
            return x == s or (isinstance(x, tuple) and x and x[0] == "S" and (x[1] == s or x[2] == s))
        for k in [k for k in self.f if mentions(k[0]) or mentions(k[1])]:
            del self.f[k]

    def shift(self, s, k):
        """symbol s decreases by constant k:  s' = s - k"""
        def has(x):
            return x == s or (isinstance(x, tuple) and x and x[0] == "S" and (x[1] == s or x[2] == s))
        for (a, b), c in list(self.f.items()):
            ha, hb = has(a), has(b)
            if ha and not hb:
                self.f[(a, b)] = c - k
            elif hb and not ha:
                self.f[(a, b)] = c + k

    def join(self, other):
        out = {}
        for k, c in self.f.items():
            c2 = other.f.get(k)
            if c2 is not None:
                out[k] = min(c, c2)
        return State(out)

    def __eq__(self, o):
        return self.f == o.f


def entails(st, a, b, c, typ_ub=None, depth=9):
    """does the state imply a >= b + c ?  search paths a -> ... -> b (each edge x >= y + k)"""
    if a == b:
        return c <= 0
    if b == Z and c <= 0:
        return True
    best = {a: 0}
    frontier = [a]
    succ = {}
    for (x, y), k in st.f.items():
        succ.setdefault(x, []).append((y, k))
    for _ in range(depth):
        nxt = []
        for x in frontier:
            base = best[x]
            edges = list(succ.get(x, ()))
            edges.append((Z, 0))  # everything is >= 0
            for y, k in edges:
                v = base + k
                if y not in best or v > best[y]:
                    best[y] = v
                    nxt.append(y)
        frontier = nxt
        if not frontier:
            break
    if b in best and best[b] >= c:
        return True
    # through upper bound of b:  a >= (lower bound const) and b <= u  =>  a >= b + (lb - u)
    if typ_ub is not None:
        lb = best.get(Z)
        ub = typ_ub(b)
        if lb is not None and ub is not None and lb - ub >= c:
            return True
    return False



import json as _json
import os as _os
import re as _re

_TBL = _os.path.join(_os.path.dirname(_os.path.dirname(_os.path.abspath(__file__))), "tables", "std_panics.json")
STD_PANICS = _json.load(open(_TBL)) if _os.path.exists(_TBL) else {}
_INTS = ("u8", "u16", "u32", "u64", "u128", "usize", "i8", "i16", "i32", "i64", "i128", "isize")

# documented-panicking functions that are total under the stated assumptions of C07 (reviewed, one reason each)
ASSUMED_TOTAL = {
    "Vec::extend_from_slice": "capacity overflow beyond isize::MAX bytes only (allocation size: not decided, A-64)",
    "Vec::with_capacity": "capacity overflow beyond isize::MAX bytes only (allocation size: not decided, A-64)",
    "Vec::resize": "capacity overflow only (A-64)", "Vec::reserve": "capacity overflow only (A-64)",
    "Vec::push": "capacity overflow only (A-64)", "Vec::append": "capacity overflow only (A-64)",
    "Vec::extend_from_within": "modelled elsewhere when used",
    "String::push_str": "capacity overflow only (A-64)", "String::push": "capacity overflow only (A-64)",
    "String::with_capacity": "capacity overflow only (A-64)", "String::reserve": "capacity overflow only (A-64)",
    "VecDeque::push_back": "capacity overflow only (A-64)", "VecDeque::with_capacity": "capacity overflow only (A-64)",
    "BytesMut::reserve": "capacity overflow only (A-64)", "BytesMut::with_capacity": "capacity overflow only (A-64)",
    "BytesMut::extend_from_slice": "capacity overflow only (A-64)", "BytesMut::resize": "capacity overflow only (A-64)",
    "Mutex::lock": "panics/deadlocks only on re-entrant locking by the same thread: lock discipline, not input dependent",
    "RwLock::read": "as Mutex::lock", "RwLock::write": "as Mutex::lock",
    "Future::poll": "poll-after-completion: compiler generated await never re-polls a completed future",
    "Iterator::enumerate": "index overflow beyond usize::MAX elements (A-64)", "Enumerate::next": "as enumerate",
    "Iterator::position": "more than usize::MAX elements (A-64)", "Iterator::count": "more than usize::MAX elements (A-64)",
    "Iterator::rposition": "more than usize::MAX elements (A-64)", "Iterator::sum": "debug overflow on accumulated lengths (A-64)",
    "OnceLock::get_or_init": "propagates a panic of the initialiser only",
    "Instant::elapsed": "documented: no longer panics (saturates) on current Rust",
    "Instant::duration_since": "documented: no longer panics (saturates) on current Rust",
    "[T]::sort_unstable": "only with an Ord implementation that is not a total order (keys are integers)",
    "[T]::sort": "as sort_unstable", "[T]::sort_by_key": "as sort_unstable", "[T]::sort_unstable_by_key": "as sort_unstable",
    "[T]::sort_by": "as sort_unstable", "[T]::sort_unstable_by": "as sort_unstable",
    "Index::index": "modelled (slice/Vec/Bytes indexing); map indexing appears as call:index",
    "IndexMut::index_mut": "modelled",
    "Buf::get_u8": "modelled", "Buf::advance": "modelled", "Buf::copy_to_slice": "modelled", "Buf::copy_to_bytes": "modelled",
    "Result::expect": "modelled (unwrap/expect site)", "Option::expect": "modelled", "Result::unwrap": "modelled", "Option::unwrap": "modelled",
}


def _strip_generics(p):
    out, d = [], 0
    for ch in p:
        if ch == "<":
            d += 1
        elif ch == ">":
            d -= 1
        elif d == 0:
            out.append(ch)
    return "".join(out)


def panic_keys(path):
    """candidate keys of tables/std_panics.json for a MIR callee path"""
    if not path:
        return []
    m = _re.match(r"^<(.+) as (.+)>::(\w+)$", path)
    if m:
        ty = _strip_generics(m.group(1)).split("::")[-1].strip("&").strip()
        if ty.startswith("["):
            ty = "[T]"
        return ["%s::%s" % (ty, m.group(3)), "%s::%s" % (_strip_generics(m.group(2)).split("::")[-1], m.group(3))]
    m = _re.search(r"<impl (.+?)>::(\w+)$", path)
    if m:
        ty = m.group(1)
        if ty in _INTS:
            return ["%s::%s" % ("uint_macros" if ty[0] == "u" else "int_macros", m.group(2)), "%s::%s" % (ty, m.group(2))]
        if ty.startswith("["):
            return ["[T]::%s" % m.group(2)]
        return ["%s::%s" % (_strip_generics(ty).split("::")[-1], m.group(2))]
    segs = [x for x in _strip_generics(path).split("::") if x]
    if len(segs) >= 2:
        return ["%s::%s" % (segs[-2], segs[-1])]
    return []


class Site:
    def __init__(self, body, bi, kind, desc, src, expansion):
        self.fn = body.name
        self.bi = bi
        self.kind = kind
        self.desc = desc
        self.src = src
        self.where = body.where(bi)
        self.expansion = expansion
        self.proven = False
        self.why = ""
        self.obligations = []

    def key(self, ordinal):
        norm = " ".join((self.src or "").split())[:80]
        return "%s|%s|%s|%d" % (self.fn, self.kind, norm, ordinal)


class Analyzer:
    def __init__(self, body, assume_params=None, summaries=None):
        self.b = body
        self.assume = assume_params or {}    # {param_key: min_len}
        self.summaries = summaries or {}     # callee path -> {arg_index: required_len}
        self.sites = []
        self.progress = {}     # block -> why this block makes a parser loop advance
        self.ranges = {}       # local -> ('Range'|'RangeFrom'|..., operands)
        self._keys = {}
        self.int_locals = set(i for i, l in enumerate(body.locals) if l["ty"] in TYPE_MAX and l["ty"].startswith("u"))
        self._single_def = None

    # ------------------------------------------------------------------ symbols
    def key_of_operand(self, o):
        t = self.b.term_operand(o)
        return self.key_of_term(t)

    ARR = re.compile(r"^&?(?:mut )?\[.*; (\d+)\]$")

    def array_len(self, l):
        m = self.ARR.match(self.b.locals[l]["ty"])
        return int(m.group(1)) if m else None

    def seed_array(self, st, l):
        n = self.array_len(l)
        if n is not None:
            k = ("N", mir.show(self.b.term_local(l), 240))
            st.kill(k, eliminate=False)
            st.eq(k, Z, n)
            return True
        return False

    def key_of_term(self, t):
        k = self._keys.get(id(t))
        if k is None:
            k = mir.show(t, 240)
            self._keys[id(t)] = k
        return ("N", k)

    def lf(self, o):
        """operand -> (symbol, const) linear form, or None"""
        if o["k"] == "c":
            v = o.get("v")
            if isinstance(v, int):
                return (Z, v)
            return None
        p = o["p"]
        if "p" in p:
            return None
        return (("L", p["l"]), 0)

    def typ_ub(self, sym):
        if sym == Z:
            return 0
        if sym[0] == "L":
            return TYPE_MAX.get(self.b.locals[sym[1]]["ty"])
        if sym[0] == "N":
            return BIG
        if sym[0] == "S":
            a, b = self.typ_ub(sym[1]), self.typ_ub(sym[2])
            return None if a is None or b is None else a + b
        return None

    def ub(self, st, sym, depth=6):
        """best known upper bound of a symbol"""
        if sym == Z:
            return 0
        best = self.typ_ub(sym)
        # Z >= sym + c   =>  sym <= -c ;   X >= sym + c and X <= u => sym <= u - c
        for (a, b), c in st.f.items():
            if b == sym:
                if a == Z:
                    u = -c
                elif depth > 0:
                    ua = self.typ_ub(a) if depth == 1 else self.ub(st, a, depth - 1)
                    if ua is None:
                        continue
                    u = ua - c
                else:
                    continue
                if best is None or u < best:
                    best = u
        return best

    def ub_lf(self, st, lf):
        if lf is None:
            return None
        u = self.ub(st, lf[0])
        return None if u is None else u + lf[1]

    def need(self, st, site, a, b, c, text):
        """obligation a >= b + c"""
        ok = entails(st, a, b, c, self.typ_ub)
        site.obligations.append((text, ok))
        return ok

    def need_lf_ge(self, st, site, big, small, extra, text):
        """big >= small + extra, both linear forms"""
        if big is None or small is None:
            site.obligations.append((text + " [operand not linear]", False))
            return False
        return self.need(st, site, big[0], small[0], small[1] + extra - big[1], text)

    # ------------------------------------------------------------------ transfer
    def assign_local(self, st, l, rv, blk_l):
        b = self.b
        x = ("L", l)
        r = rv["r"]
        is_int = l in self.int_locals
        # pre-compute from operands BEFORE killing x (x may appear on the right-hand side)
        new = []     # list of ('eq'|'ge'|'le', sym, const)   relative to x
        if r == "use":
            lf = self.lf(rv["o"])
            o = rv["o"]
            if lf is not None and is_int:
                new.append(("eq", lf[0], lf[1]))
            elif o["k"] in ("cp", "mv") and "p" in o["p"] and is_int:
                # projection of a checked-arithmetic tuple: (_t.0)
                pl = o["p"]
                if pl["p"] == [{"f": "0"}] and pl["l"] in self.ranges and self.ranges[pl["l"]][0] == "checked":
                    _, op, a, c2 = self.ranges[pl["l"]]
                    new += self._arith(st, op, a, c2)
            if o["k"] in ("cp", "mv") and "p" in o["p"] and is_int and o["p"]["p"] == [{"v": "Some"}, {"f": "0"}]:
                r_ = self.ranges.get(o["p"]["l"])
                if r_ and r_[0] == "item":
                    if r_[1]:
                        new.append(("ge", r_[1][0], r_[1][1]))
                    if r_[2]:
                        new.append(("le", r_[2][0], r_[2][1] - 1))
            if o["k"] in ("cp", "mv") and "p" in o["p"] and is_int and o["p"]["p"] == [{"v": "Some"}, {"f": "0"}, {"f": "0"}]:
                r_ = self.ranges.get(o["p"]["l"])
                if r_ and r_[0] == "enumitem":
                    new.append(("le", r_[1], -1))      # index < len(slice)
            if o["k"] in ("cp", "mv") and not is_int:
                # moving / copying a buffer value or a range: propagate aggregates
                src = o["p"]
                if "p" not in src and src["l"] in self.ranges:
                    self.ranges[l] = self.ranges[src["l"]]
        elif r == "cast" and is_int:
            lf = self.lf(rv["o"])
            o = rv["o"]
            src_ty = None
            if o["k"] in ("cp", "mv") and "p" not in o["p"]:
                src_ty = b.locals[o["p"]["l"]]["ty"]
            elif o["k"] == "c":
                src_ty = o.get("ty")
            dst_ty = b.locals[l]["ty"]
            if lf is not None and src_ty in TYPE_MAX and dst_ty in TYPE_MAX:
                if TYPE_MAX[dst_ty] >= TYPE_MAX[src_ty] and not src_ty.startswith("i"):
                    new.append(("eq", lf[0], lf[1]))        # widening unsigned cast keeps the value
                else:
                    # narrowing: value preserved only if known to fit
                    u = self.ub_lf(st, lf)
                    if u is not None and u <= TYPE_MAX[dst_ty] and not src_ty.startswith("i"):
                        new.append(("eq", lf[0], lf[1]))
        elif r == "bin" and is_int:
            op = rv["op"]
            new += self._arith(st, op, rv["a"], rv["b"])
        elif r == "bin" and rv["op"].endswith("WithOverflow"):
            self.ranges[l] = ("checked", rv["op"][:-12], rv["a"], rv["b"])
        elif r == "un" and rv["op"] == "PtrMetadata" and is_int:
            new.append(("eq", self.key_of_operand(rv["o"]), 0))
        elif r == "agg" and rv.get("ak") == "adt" and rv["adt"].startswith("std::ops::Range"):
            self.ranges[l] = (rv["variant"], rv["ops"])
        elif r == "repeat":
            n = rv.get("n", "")
            try:
                cnt = int(str(n).split("_")[0])
                st.kill(("N", mir.show(b.term_local(l), 240)))
                st.eq(("N", mir.show(b.term_local(l), 240)), Z, cnt)
            except ValueError:
                pass
        elif r == "agg" and rv.get("ak") == "array":
            k = ("N", mir.show(b.term_local(l), 240))
            st.eq(k, Z, len(rv["ops"]))
        if not is_int:
            if not self.seed_array(st, l) and r == "use" and rv["o"]["k"] in ("cp", "mv"):
                ty = b.locals[l]["ty"]
                if any(x in ty for x in ("[u8]", "bytes::Bytes", "Vec<u8>", "&str", "String")):
                    dk = ("N", mir.show(b.term_local(l), 240))
                    sk = ("N", mir.show(b.term_operand(rv["o"]), 240))
                    if dk != sk:
                        st.kill(dk)
                        st.eq(dk, sk, 0)
        if is_int:
            st.kill(x)
            for kind, sym, c in new:
                if sym == x:
                    continue
                if kind == "eq":
                    st.eq(x, sym, c)
                elif kind == "ge":
                    st.add(x, sym, c)
                elif kind == "le":
                    st.add(sym, x, -c)

    def _arith(self, st, op, a, b):
        """facts about the result of `a op b` as [(kind, sym, const)]"""
        la, lb = self.lf(a), self.lf(b)
        out = []
        if op in ("Add", "AddUnchecked"):
            if la and lb:
                if lb[0] == Z:
                    out.append(("eq", la[0], la[1] + lb[1]))
                elif la[0] == Z:
                    out.append(("eq", lb[0], lb[1] + la[1]))
                else:
                    out.append(("ge", la[0], la[1]))
                    out.append(("ge", lb[0], lb[1]))
                    x1, x2 = sorted([self.canon(st, la[0]), self.canon(st, lb[0])], key=repr)
                    if not (isinstance(x1, tuple) and x1[0] == "S") and not (isinstance(x2, tuple) and x2[0] == "S"):
                        ssym = ("S", x1, x2)
                        # the canonical symbol is at least each summand
                        st.add(ssym, x1, 0)
                        st.add(ssym, x2, 0)
                        out.append(("eq", ssym, la[1] + lb[1]))
                    ua, ub_ = self.ub_lf(st, la), self.ub_lf(st, lb)
                    if ua is not None:
                        out.append(("le", lb[0], lb[1] + ua))
                    if ub_ is not None:
                        out.append(("le", la[0], la[1] + ub_))
        elif op in ("Sub", "SubUnchecked"):
            if la and lb:
                if lb[0] == Z:
                    out.append(("eq", la[0], la[1] - lb[1]))
                else:
                    out.append(("le", la[0], la[1]))
                    # x = a - b  and we know a >= b + c  =>  x >= c ; a <= b + d => x <= d
                    lbnd = self._diff_lb(st, la, lb)
                    if lbnd is not None:
                        out.append(("ge", Z, lbnd))
                    ubb = self.ub_lf(st, lb)
                    if ubb is not None:
                        out.append(("ge", la[0], la[1] - ubb))
        elif op == "BitAnd":
            for x, y in ((la, lb), (lb, la)):
                if x and x[0] == Z and x[1] >= 0:
                    out.append(("le", Z, x[1]))
                if y:
                    out.append(("le", y[0], y[1]))
        elif op == "Rem":
            if lb and lb[0] == Z and lb[1] > 0:
                out.append(("le", Z, lb[1] - 1))
            elif lb:
                out.append(("le", lb[0], lb[1] - 1))
            if la:
                out.append(("le", la[0], la[1]))
        elif op == "Shr" or op == "Div":
            if la:
                out.append(("le", la[0], la[1]))
            if op == "Shr" and la and lb and lb[0] == Z:
                u = self.ub_lf(st, la)
                if u is not None:
                    out.append(("le", Z, u >> lb[1]))
            if op == "Div" and la and lb and lb[0] == Z and lb[1] > 0:
                u = self.ub_lf(st, la)
                if u is not None:
                    out.append(("le", Z, u // lb[1]))
        elif op in ("Mul", "Shl"):
            if la and lb:
                ua, ub_ = self.ub_lf(st, la), self.ub_lf(st, lb)
                if ua is not None and ub_ is not None:
                    out.append(("le", Z, ua * ub_ if op == "Mul" else (ua << ub_ if ub_ < 64 else None) or 0))
                if op == "Mul" and lb[0] == Z and lb[1] >= 1:
                    out.append(("ge", la[0], la[1]))
        elif op == "BitOr":
            if la:
                out.append(("ge", la[0], la[1]))
            if lb:
                out.append(("ge", lb[0], lb[1]))
        return [o for o in out if o[2] is not None]

    def canon(self, st, sym):
        """canonical representative of the class of symbols currently equal to sym (two hops)"""
        if sym == Z:
            return sym
        eq = {sym}
        frontier = [sym]
        for _ in range(3):
            nxt = []
            for x in frontier:
                for (a, b), c in st.f.items():
                    if a == x and c == 0 and b not in eq and b != Z and st.f.get((b, a)) == 0:
                        eq.add(b)
                        nxt.append(b)
            frontier = nxt
        cands = [e for e in eq if not (isinstance(e, tuple) and e[0] == "S")]

        def rank(e):
            if isinstance(e, tuple) and e[0] == "L":
                return (0 if self.b.locals[e[1]].get("u") else 1, e[1], "")
            return (2, 0, repr(e))
        return min(cands or [sym], key=rank)

    def _diff_lb(self, st, la, lb):
        """largest c with la >= lb + c provable (tries a few constants)"""
        for c in (65536, 4096, 1024, 256, 64, 32, 24, 20, 16, 12, 8, 4, 3, 2, 1, 0):
            if entails(st, la[0], lb[0], lb[1] + c - la[1], self.typ_ub):
                return c
        return None

    # ------------------------------------------------------------------ calls
    def do_call(self, st, bi, t, site_cb):
        """library model first; then the catch-all: a call of a std/bytes function whose documentation has a
        `# Panics` section (tables/std_panics.json, generated from rust-src) that the model did not handle and that
        is not on the reviewed ASSUMED_TOTAL list becomes a site of its own (never proven here: it must be
        justified in the reviewed table)."""
        n0 = len(self.sites)
        self._handled = False
        self._do_call_model(st, bi, t, site_cb)
        if len(self.sites) != n0 or self._handled:
            return
        f = t["f"]
        if f.get("k") != "c":
            return
        hit = None
        for cand in (f.get("res"), f.get("fn")):
            for k in panic_keys(cand):
                if k in STD_PANICS:
                    hit = k
                    break
            if hit:
                break
        if hit is None or hit in ASSUMED_TOTAL:
            return
        b = self.b
        if hit.endswith(("::range", "::range_mut")) and len(t["a"]) == 2:
            ra = t["a"][1]
            rng = self.ranges.get(ra["p"]["l"]) if ra["k"] in ("cp", "mv") and "p" not in ra["p"] else None
            rty = b.locals[ra["p"]["l"]]["ty"] if ra["k"] in ("cp", "mv") else ""
            if any(x in rty for x in ("RangeFrom<", "RangeTo<", "RangeToInclusive<", "RangeFull")):
                return           # one-sided ranges cannot be inverted
            s = Site(b, bi, "call:%s" % hit, "requires start <= end", t.get("src"), t["sp"]["x"])
            self.sites.append(s)
            if rng is not None and rng[0] in ("Range", "RangeInclusive"):
                a, e = self.lf(rng[1][0]), self.lf(rng[1][1])
                s.proven = self.need_lf_ge(st, s, e, a, 0, "start <= end")
            else:
                s.obligations.append(("range operand not tracked", False))
            return
        s = Site(b, bi, "call:%s" % hit, "documented to panic: %s" % STD_PANICS[hit]["panics"][:100], t.get("src"), t["sp"]["x"])
        s.obligations.append(("documented `# Panics`: %s" % STD_PANICS[hit]["panics"][:120], False))
        self.sites.append(s)

    def _do_call_model(self, st, bi, t, site_cb):
        b = self.b
        path = mir.callee_path(t["f"]) or ""
        gen = mir.callee_generic(t["f"]) or ""
        name = path.split("::")[-1]
        args = t["a"]
        dst = t["dst"]
        dl = dst["l"] if "p" not in dst else None
        res_int = dl is not None and dl in self.int_locals
        res_key = ("N", mir.show(b.term_local(dl), 240)) if dl is not None and not res_int else None
        src = t.get("src")

        def result_len_eq(sym, c=0):
            if res_key is not None:
                st.kill(res_key)
                st.eq(res_key, sym, c)

        def kill_result():
            if dl is not None:
                if res_int:
                    st.kill(("L", dl))
                elif res_key is not None:
                    st.kill(res_key, eliminate=False)

        def newsite(kind, desc):
            s = Site(b, bi, kind, desc, src, t["sp"]["x"])
            self.sites.append(s)
            return s

        if dl is not None and not res_int and self.array_len(dl) is not None:
            # the result is a fixed-size array (to_be_bytes, ...): its length is its type
            self._post_array = dl
        else:
            self._post_array = None
        a0key = self.key_of_operand(args[0]) if args else None
        is_len = any(path.endswith(s) or gen.endswith(s) for s in LEN_CALLS) and len(args) == 1
        if is_len and res_int:
            st.kill(("L", dl))
            st.eq(("L", dl), a0key, 0)
            return
        if (path.endswith("::is_empty") or gen.endswith("::is_empty")) and len(args) == 1:
            kill_result()
            self.ranges[dl] = ("is_empty", a0key)
            return
        if path.endswith("RangeInclusive::<Idx>::new") and len(args) == 2 and dl is not None:
            self.ranges[dl] = ("RangeInclusive", [args[0], args[1]])
            self._handled = True
            return
        # ---- cursor reads
        if name in GET_FIXED and ("Buf::" in path or "Buf::" in gen or "bytes::" in path):
            self.progress[bi] = "cursor %s" % name
            n = GET_FIXED[name]
            s = newsite("call:%s" % name, "requires remaining >= %d" % n)
            s.proven = self.need(st, s, a0key, Z, n, "remaining(%s) >= %d" % (a0key[1][:40], n))
            st.shift(a0key, n)
            self._floor(st, a0key)
            kill_result()
            return
        if name in ("get_uint", "get_int", "get_uint_le") and len(args) == 2:
            n = self.lf(args[1])
            s = newsite("call:%s" % name, "requires remaining >= n")
            s.proven = self.need_lf_ge(st, s, (a0key, 0), n, 0, "remaining >= n")
            self._consume(st, a0key, n)
            kill_result()
            return
        if name == "advance" and len(args) == 2 and ("Buf" in path or "Buf" in gen or "bytes" in path):
            n = self.lf(args[1])
            if n is not None and (self._diff_lb(st, n, (Z, 0)) or 0) >= 1:
                self.progress[bi] = "cursor advance(>= 1)"
            s = newsite("call:advance", "requires remaining >= n")
            s.proven = self.need_lf_ge(st, s, (a0key, 0), n, 0, "remaining(%s) >= %s" % (a0key[1][:40], src))
            self._consume(st, a0key, n)
            return
        if name in ("split_to", "copy_to_bytes") and len(args) == 2:
            n = self.lf(args[1])
            if n is not None and (self._diff_lb(st, n, (Z, 0)) or 0) >= 1:
                self.progress[bi] = "cursor %s(>= 1)" % name
            s = newsite("call:%s" % name, "requires len >= n")
            s.proven = self.need_lf_ge(st, s, (a0key, 0), n, 0, "len(%s) >= %s" % (a0key[1][:40], src))
            self._consume(st, a0key, n)
            if n is not None and res_key is not None:
                st.kill(res_key)
                st.eq(res_key, n[0], n[1])
            return
        if name == "split_off" and len(args) == 2:
            n = self.lf(args[1])
            s = newsite("call:split_off", "requires at <= len")
            s.proven = self.need_lf_ge(st, s, (a0key, 0), n, 0, "len >= at")
            if res_key is not None:
                st.kill(res_key)
            if n is not None:
                # result = len - at ; buf = at
                lb = self._diff_lb(st, (a0key, 0), n)
                st.kill(a0key)
                st.eq(a0key, n[0], n[1])
                if res_key is not None and lb is not None:
                    st.add(res_key, Z, lb)
            else:
                st.kill(a0key)
            return
        if name == "copy_to_slice" and len(args) == 2:
            dk = self.key_of_operand(args[1])
            s = newsite("call:copy_to_slice", "requires remaining >= dst.len()")
            s.proven = self.need(st, s, a0key, dk, 0, "remaining >= len(dst)")
            self._consume(st, a0key, (dk, 0))
            return
        if name == "copy_from_slice" and len(args) == 2 and "slice" in path:
            dk, sk = a0key, self.key_of_operand(args[1])
            s = newsite("call:copy_from_slice", "requires equal lengths")
            ok1 = self.need(st, s, dk, sk, 0, "len(dst) >= len(src)")
            ok2 = self.need(st, s, sk, dk, 0, "len(src) >= len(dst)")
            s.proven = ok1 and ok2
            return
        if name in ("split_at", "split_at_mut") and len(args) == 2:
            n = self.lf(args[1])
            s = newsite("call:%s" % name, "requires mid <= len")
            s.proven = self.need_lf_ge(st, s, (a0key, 0), n, 0, "len >= mid")
            kill_result()
            return
        if name in ("chunks", "chunks_exact", "windows", "chunks_mut") and len(args) == 2:
            n = self.lf(args[1])
            s = newsite("call:%s" % name, "requires size >= 1")
            s.proven = self.need_lf_ge(st, s, n, (Z, 0), 1, "chunk size >= 1") if n else False
            kill_result()
            return
        if name in ("remove", "swap_remove") and len(args) == 2 and ("Vec::" in path):
            n = self.lf(args[1])
            s = newsite("call:%s" % name, "requires index < len")
            s.proven = self.need_lf_ge(st, s, (a0key, 0), n, 1, "len > index")
            st.kill(a0key)
            kill_result()
            return
        if name == "insert" and len(args) == 3 and "Vec::" in path:
            n = self.lf(args[1])
            s = newsite("call:insert", "requires index <= len")
            s.proven = self.need_lf_ge(st, s, (a0key, 0), n, 0, "len >= index")
            st.kill(a0key)
            return
        if name in ("unwrap", "expect") and ("Option::" in path or "Result::" in path):
            s = newsite("call:%s" % name, "unwrap/expect may panic")
            s.proven = False
            s.obligations.append(("value is Some/Ok", False))
            kill_result()
            return
        if name.startswith("put_") or name == "put":
            recv_ty = b.locals[args[0]["p"]["l"]]["ty"] if args and args[0]["k"] in ("cp", "mv") and "p" not in args[0]["p"] else ""
            if any(g in recv_ty for g in GROWABLE):
                for k_ in [k_ for k_ in st.f if k_[1] == a0key]:
                    del st.f[k_]
                self._handled = True
                return
            s = newsite("call:%s" % name, "BufMut on a fixed slice requires remaining_mut")
            s.proven = False
            s.obligations.append(("remaining_mut >= n on %s" % recv_ty[:40], False))
            return
        # ---- range indexing / slicing
        if ("::index" in path or "::index_mut" in path or "::index" in gen) and len(args) == 2 or (name == "slice" and "Bytes" in path and len(args) == 2):
            rng = None
            ra = args[1]
            if ra["k"] in ("cp", "mv") and "p" not in ra["p"]:
                rng = self.ranges.get(ra["p"]["l"])
            idx_lf = self.lf(ra)
            if rng is None and idx_lf is not None and "Range" not in (b.locals[ra["p"]["l"]]["ty"] if ra["k"] != "c" else ""):
                # plain usize index through Index::index (Vec<T>[i])
                s = newsite("call:index", "requires index < len")
                s.proven = self.need_lf_ge(st, s, (a0key, 0), idx_lf, 1, "len(%s) > %s" % (a0key[1][:40], src))
                kill_result()
                return
            s = newsite("call:%s" % ("slice" if name == "slice" else "index_range"), "range within bounds")
            if rng is None or rng[0] not in ("Range", "RangeFrom", "RangeTo", "RangeInclusive", "RangeToInclusive", "RangeFull"):
                if "RangeFull" in (b.locals[ra["p"]["l"]]["ty"] if ra["k"] != "c" else ra.get("ty", "")):
                    s.proven = True
                    result_len_eq(a0key)
                    self.sites.pop()
                    self._handled = True
                    return
                s.proven = False
                s.obligations.append(("range operand not tracked", False))
                kill_result()
                return
            kind, ops = rng
            if kind == "RangeFull":
                self.sites.pop()
                self._handled = True
                result_len_eq(a0key)
                return
            if kind == "Range":
                a, e = self.lf(ops[0]), self.lf(ops[1])
                ok1 = self.need_lf_ge(st, s, e, a, 0, "start <= end")
                ok2 = self.need_lf_ge(st, s, (a0key, 0), e, 0, "end <= len(%s)" % a0key[1][:40])
                s.proven = ok1 and ok2
                if res_key is not None:
                    st.kill(res_key)
                    if a and e:
                        if a[0] == Z:
                            st.eq(res_key, e[0], e[1] - a[1])
                        elif a[0] == e[0]:
                            st.eq(res_key, Z, e[1] - a[1])
                        else:
                            d = self._diff_lb(st, e, a)
                            if d is not None:
                                st.add(res_key, Z, d)
                            st.add(e[0], res_key, -e[1])
                return
            if kind == "RangeFrom":
                a = self.lf(ops[0])
                s.proven = self.need_lf_ge(st, s, (a0key, 0), a, 0, "start <= len(%s)" % a0key[1][:40])
                if res_key is not None:
                    st.kill(res_key)
                    if a:
                        if a[0] == Z:
                            st.eq(res_key, a0key, -a[1])
                        else:
                            d = self._diff_lb(st, (a0key, 0), a)
                            if d is not None:
                                st.add(res_key, Z, d)
                            st.add(a0key, res_key, 0)
                return
            if kind in ("RangeTo", "RangeToInclusive"):
                e = self.lf(ops[0])
                extra = 1 if kind == "RangeToInclusive" else 0
                s.proven = self.need_lf_ge(st, s, (a0key, 0), e, extra, "end <= len(%s)" % a0key[1][:40])
                if res_key is not None:
                    st.kill(res_key)
                    if e:
                        st.eq(res_key, e[0], e[1] + extra)
                return
            if kind == "RangeInclusive":
                s.proven = False
                s.obligations.append(("RangeInclusive not modelled", False))
                kill_result()
                return
        # ---- min / saturating_sub / checked_sub and friends
        if name == "min" and len(args) == 2 and res_int:
            la, lb = self.lf(args[0]), self.lf(args[1])
            st.kill(("L", dl))
            for l_ in (la, lb):
                if l_:
                    st.add(l_[0], ("L", dl), -l_[1])
            return
        if name == "max" and len(args) == 2 and res_int:
            la, lb = self.lf(args[0]), self.lf(args[1])
            st.kill(("L", dl))
            for l_ in (la, lb):
                if l_:
                    st.add(("L", dl), l_[0], l_[1])
            return
        if name in ("saturating_sub", "wrapping_sub") and len(args) == 2 and res_int:
            la, lb = self.lf(args[0]), self.lf(args[1])
            st.kill(("L", dl))
            if name == "saturating_sub" and la:
                st.add(la[0], ("L", dl), -la[1])
                if lb:
                    d = self._diff_lb(st, la, lb)
                    if d:
                        st.add(("L", dl), Z, d)
            return
        if name in ("from_be_bytes", "from_le_bytes", "from_ne_bytes") and res_int:
            st.kill(("L", dl))
            return
        if name == "truncate" and len(args) == 2:
            n = self.lf(args[1])
            # len' <= n, len' <= len
            ins = [(a, c) for (a, b_), c in st.f.items() if b_ == a0key]
            st.kill(a0key, eliminate=False)
            for a, c in ins:
                st.add(a, a0key, c)
            if n:
                st.add(n[0], a0key, -n[1])
            return
        if name in ("push", "extend_from_slice", "extend", "push_str", "push_back", "append", "put_slice", "put_u8", "put_u16", "put_u32",
                    "put_u64", "put", "put_bytes", "reserve") and args:
            recv_ty = b.locals[args[0]["p"]["l"]]["ty"] if args[0]["k"] in ("cp", "mv") and "p" not in args[0]["p"] else ""
            if any(g in recv_ty for g in GROWABLE):
                # growable buffers only grow: lower bounds on the length survive, upper bounds do not
                for k_ in [k_ for k_ in st.f if k_[1] == a0key]:
                    del st.f[k_]
                return
        if name in ("resize",) and len(args) >= 2:
            n = self.lf(args[1])
            st.kill(a0key)
            if n:
                st.eq(a0key, n[0], n[1])
            return
        if any(path.endswith(s_) or gen.endswith(s_) for s_ in SAME_LEN_CALLS) and len(args) == 1 and res_key is not None:
            if res_key != a0key:
                result_len_eq(a0key)
            return
        if name == "from_elem" and len(args) == 2 and res_key is not None:
            n = self.lf(args[1])
            st.kill(res_key)
            if n:
                st.eq(res_key, n[0], n[1])
            return
        if name in ("iter", "iter_mut") and len(args) == 1 and dl is not None and ("slice" in path or "Vec" in path):
            self.ranges[dl] = ("sliceiter", a0key)
            kill_result()
            return
        if name == "enumerate" and len(args) == 1 and dl is not None:
            a = args[0]
            r = self.ranges.get(a["p"]["l"]) if a["k"] in ("cp", "mv") and "p" not in a["p"] else None
            if r and r[0] == "sliceiter":
                self.ranges[dl] = ("enum", r[1])
            kill_result()
            return
        if (gen.endswith("IntoIterator::into_iter") or path.endswith("::into_iter")) and len(args) == 1 and dl is not None:
            a = args[0]
            r = self.ranges.get(a["p"]["l"]) if a["k"] in ("cp", "mv") and "p" not in a["p"] else None
            if r and r[0] in ("enum", "sliceiter", "iter"):
                self.ranges[dl] = r
                kill_result()
                return
            a = args[0]
            if a["k"] in ("cp", "mv") and "p" not in a["p"] and a["p"]["l"] in self.ranges and self.ranges[a["p"]["l"]][0] == "Range":
                ops = self.ranges[a["p"]["l"]][1]
                self.ranges[dl] = ("iter", self.lf(ops[0]), self.lf(ops[1]))
            kill_result()
            return
        if (gen.endswith("Iterator::next") or path.endswith("::next")) and len(args) == 1 and dl is not None:
            it = self._deref_local(args[0])
            r = self.ranges.get(it) if it is not None else None
            if r and r[0] == "iter":
                self.ranges[dl] = ("item", r[1], r[2])
            elif r and r[0] == "enum":
                self.ranges[dl] = ("enumitem", r[1])
            elif dl in self.ranges:
                del self.ranges[dl]
            kill_result()
            return
        if name in ("with_capacity", "new") and res_key is not None and ("Vec" in path or "BytesMut" in path or "Bytes" in path or "String" in path):
            st.kill(res_key)
            st.eq(res_key, Z, 0)
            return
        # ---- helpers returning one of a few constants (tag_len(), key_len(), ...)
        hr = getattr(Analyzer, "HELPER_RANGES", {}).get(path)
        if hr is not None and res_int:
            st.kill(("L", dl))
            st.add(("L", dl), Z, hr[0])
            st.add(Z, ("L", dl), -hr[1])
            return
        # ---- callee summaries (preconditions on buffer parameters)
        summ = self.summaries.get(path)
        if summ:
            for ai, req in summ.items():
                if ai < len(args):
                    ak = self.key_of_operand(args[ai])
                    s = newsite("call:%s" % name, "callee requires len(arg%d) >= %d" % (ai, req))
                    s.proven = self.need(st, s, ak, Z, req, "len(%s) >= %d (precondition of %s)" % (ak[1][:40], req, name))
        # ---- unknown call: forget the result and every buffer passed by &mut
        kill_result()
        for a in args:
            if a["k"] in ("cp", "mv") and "p" not in a["p"]:
                ty = b.locals[a["p"]["l"]]["ty"]
                if ty.startswith("&mut ") and a["p"]["l"] not in self.int_locals:
                    st.kill(self.key_of_operand(a), eliminate=False)

    def _floor(self, st, key):
        pass

    def _deref_local(self, o, hops=4):
        """local that a `&mut x` / `&x` temporary points to"""
        if o["k"] not in ("cp", "mv") or "p" in o["p"]:
            return None
        l = o["p"]["l"]
        for _ in range(hops):
            ds = self.b.defs().get(l, [])
            if len(ds) != 1 or ds[0][0] != "s":
                return l
            rv = self.b.blocks[ds[0][1]]["s"][ds[0][2]]["rv"]
            if rv["r"] == "ref" and ("p" not in rv["p"] or rv["p"]["p"] == ["*"]):
                l = rv["p"]["l"]
            elif rv["r"] == "use" and rv["o"]["k"] in ("cp", "mv") and "p" not in rv["o"]["p"]:
                l = rv["o"]["p"]["l"]
            else:
                return l
        return l

    def _consume(self, st, key, n):
        if n is None:
            st.kill(key, eliminate=False)
            return
        if n[0] == Z:
            st.shift(key, n[1])
            return
        # len' = len - (x + c)
        x, c = n
        keep_in = [(a, k) for (a, b), k in st.f.items() if b == key]       # a >= len + k  => a >= len' + k
        lb = None
        for cc in (1024, 256, 64, 32, 16, 12, 8, 4, 2, 1, 0):
            if entails(st, key, x, c + cc, self.typ_ub):
                lb = cc
                break
        ubx = self.ub(st, x)
        via_sum = []
        cx = self.canon(st, x)
        for (a, b_), k in st.f.items():
            if isinstance(b_, tuple) and b_ and b_[0] == "S" and cx in (b_[1], b_[2]):
                # a >= S(x, other) + k ; if len >= a (+k2) then len - x - c >= other + k + k2 - c
                if a == key:
                    k2 = 0
                elif entails(st, key, a, 0, self.typ_ub, depth=4):
                    k2 = 0
                else:
                    continue
                other = b_[2] if b_[1] == cx else b_[1]
                via_sum.append((other, k + k2 - c))
        outs = [(b, k) for (a, b), k in st.f.items() if a == key and b != x]
        st.kill(key, eliminate=False)
        for a, k in keep_in:
            st.add(a, key, k + 0)
        if lb is not None:
            st.add(key, Z, lb)
        for other, k in via_sum:
            st.add(key, other, k)
        if ubx is not None:
            for b_, k in outs:
                st.add(key, b_, k - ubx - c)

    # ------------------------------------------------------------------ terminators
    def do_assert(self, st, bi, t):
        b = self.b
        mk = t["mk"]
        s = Site(b, bi, "assert:" + mk, "", t.get("src"), t["sp"]["x"])
        self.sites.append(s)
        if mk == "bounds":
            ln, ix = self.lf(t["len"]), self.lf(t["idx"])
            s.proven = self.need_lf_ge(st, s, ln, ix, 1, "index < len  [%s]" % (t.get("src") or ""))
        elif mk.startswith("overflow:"):
            op = mk.split(":")[1]
            la, lb = self.lf(t.get("oa", {"k": "c"})), self.lf(t.get("ob", {"k": "c"})) if "ob" in t else None
            ty = None
            oa = t.get("oa")
            if oa and oa["k"] in ("cp", "mv") and "p" not in oa["p"]:
                ty = b.locals[oa["p"]["l"]]["ty"]
            elif oa and oa["k"] == "c":
                ty = oa.get("ty")
            ty = t.get("oty") or ty
            mx = TYPE_MAX.get(ty)
            ca = oa.get("v") if oa and oa["k"] == "c" else None
            obo = t.get("ob")
            cb = obo.get("v") if obo and obo["k"] == "c" else None
            if isinstance(ca, int) and isinstance(cb, int) and mx is not None:
                val = {"Add": ca + cb, "Sub": ca - cb, "Mul": ca * cb}.get(op)
                lo = -(mx + 1) if ty.startswith("i") else 0
                if val is not None:
                    s.proven = lo <= val <= mx
                    s.obligations.append(("constant %s %s %s = %s fits %s" % (ca, op, cb, val, ty), s.proven))
                    return
                if op in ("Shl", "Shr"):
                    bits = {"u8": 8, "u16": 16, "u32": 32, "u64": 64, "usize": 64, "i32": 32, "i64": 64, "i16": 16, "i8": 8, "u128": 128}.get(ty)
                    s.proven = bits is not None and 0 <= cb < bits
                    s.obligations.append(("constant shift %s < %s" % (cb, bits), s.proven))
                    return
            if op == "Sub":
                s.proven = self.need_lf_ge(st, s, la, lb, 0, "a >= b in a - b  [%s]" % (t.get("src") or ""))
            elif op in ("Add", "Mul"):
                ua, ub_ = self.ub_lf(st, la), self.ub_lf(st, lb)
                ok = ua is not None and ub_ is not None and mx is not None and ((ua + ub_) if op == "Add" else (ua * ub_)) <= mx
                how = ""
                if not ok and ty in ("usize", "u64") and op == "Add" and self._a64_ok(st, oa, la) and self._a64_ok(st, t.get("ob"), lb):
                    # assumption A-64: 64-bit sums of lengths, <=32-bit wire fields, constants and accumulators of those
                    # cannot reach 2^64 (inputs are <= 64 KiB datagrams / texts; loops make progress)
                    ok = True
                    how = " [A-64]"
                if not ok and ty in ("usize", "u64") and op == "Mul" and ua is not None and ub_ is not None and ua * ub_ < (1 << 63):
                    ok = True
                s.obligations.append(("ub(a)=%s %s ub(b)=%s <= %s%s  [%s]" % (ua, "+" if op == "Add" else "*", ub_, mx, how, t.get("src") or ""), ok))
                s.proven = ok
            elif op in ("Shl", "Shr"):
                bits = {"u8": 8, "u16": 16, "u32": 32, "u64": 64, "usize": 64, "i32": 32, "i64": 64, "i16": 16, "i8": 8, "u128": 128}.get(ty)
                ub_ = self.ub_lf(st, lb)
                ok = ub_ is not None and bits is not None and ub_ < bits
                s.obligations.append(("shift amount %s < %s bits" % (ub_, bits), ok))
                s.proven = ok
            else:
                s.obligations.append(("%s overflow not modelled" % op, False))
        elif mk in ("divzero", "remzero"):
            dv = self._divisor(t)
            la = self.lf(dv) if dv is not None else None
            s.proven = self.need_lf_ge(st, s, la, (Z, 0), 1, "divisor >= 1  [%s]" % (t.get("src") or ""))
        else:
            s.obligations.append((mk, False))

    def _a64_ok(self, st, operand, lf):
        """operand is a 64-bit quantity that is not directly attacker-supplied at full width"""
        if operand is None:
            return False
        if operand["k"] == "c":
            return isinstance(operand.get("v"), int) and operand["v"] < (1 << 62)
        u = self.ub_lf(st, lf)
        if u is not None and u < (1 << 62):
            return True
        t = self.b.term_operand(operand)
        wide = mir.has(t, lambda x: x[0] == "call" and (x[1].endswith("get_u64") or x[1].endswith("get_u128") or x[1].endswith("get_uint")
                                                        or (x[1].endswith("from_be_bytes") and "u64" in x[1]) or x[1].endswith("::parse")
                                                        or x[1].endswith("as_secs") or x[1].endswith("as_millis")))
        return not wide

    def _divisor(self, t):
        """divisor operand of a div/rem-by-zero assert: its condition is Eq(divisor, 0)"""
        c = t["c"]
        if c["k"] in ("cp", "mv") and "p" not in c["p"]:
            ds = self.b.defs().get(c["p"]["l"], [])
            if len(ds) == 1 and ds[0][0] == "s":
                rv = self.b.blocks[ds[0][1]]["s"][ds[0][2]]["rv"]
                if rv["r"] == "bin" and rv["op"] == "Eq":
                    return rv["a"]
        return None

    def edge_facts(self, st, bi, tgt, label):
        """refine the state along a switch edge"""
        b = self.b
        t = b.blocks[bi]["t"]
        d = t["d"]
        if d["k"] not in ("cp", "mv") or "p" in d["p"]:
            return st
        dl = d["p"]["l"]
        # meaning of this edge for a bool discriminant
        if label is None:
            return st
        if b.locals[dl]["ty"] != "bool":
            # integer switch: value equality
            if dl in self.int_locals and label[0] == "sw":
                st = st.copy()
                st.eq(("L", dl), Z, label[1])
            return st
        truth = None
        if label[0] == "sw":
            truth = bool(label[1])
        elif label[0] == "else" and len(label[1]) == 1:
            truth = not bool(label[1][0])
        if truth is None:
            return st
        # find the definition of the bool
        ds = b.defs().get(dl, [])
        if len(ds) != 1:
            return st
        dd = ds[0]
        st = st.copy()
        if dd[0] == "s":
            rv = b.blocks[dd[1]]["s"][dd[2]]["rv"]
            self._cmp_facts(st, rv, truth)
        else:
            ct = b.blocks[dd[1]]["t"]
            r = self.ranges.get(dl)
            if r and r[0] == "is_empty":
                if truth:
                    st.add(Z, r[1], 0)
                else:
                    st.add(r[1], Z, 1)
        return st

    def _cmp_facts(self, st, rv, truth):
        if rv["r"] == "un" and rv["op"] == "Not":
            o = rv["o"]
            if o["k"] in ("cp", "mv") and "p" not in o["p"]:
                ds = self.b.defs().get(o["p"]["l"], [])
                if len(ds) == 1 and ds[0][0] == "s":
                    self._cmp_facts(st, self.b.blocks[ds[0][1]]["s"][ds[0][2]]["rv"], not truth)
                elif len(ds) == 1:
                    r = self.ranges.get(o["p"]["l"])
                    if r and r[0] == "is_empty":
                        if not truth:
                            st.add(Z, r[1], 0)
                        else:
                            st.add(r[1], Z, 1)
            return
        if rv["r"] != "bin":
            return
        op = rv["op"]
        la, lb = self.lf(rv["a"]), self.lf(rv["b"])
        if la is None or lb is None:
            return
        # only sound for unsigned comparisons of the raw values: check operand types
        def ge(x, y, c):   # x >= y + c on linear forms
            st.add(x[0], y[0], y[1] + c - x[1])
        if op == "Lt":
            ge(lb, la, 1) if truth else ge(la, lb, 0)
        elif op == "Le":
            ge(lb, la, 0) if truth else ge(la, lb, 1)
        elif op == "Gt":
            ge(la, lb, 1) if truth else ge(lb, la, 0)
        elif op == "Ge":
            ge(la, lb, 0) if truth else ge(lb, la, 1)
        elif op == "Eq":
            if truth:
                ge(la, lb, 0)
                ge(lb, la, 0)
            elif lb[0] == Z and lb[1] == 0:
                ge(la, (Z, 0), 1)
            elif la[0] == Z and la[1] == 0:
                ge(lb, (Z, 0), 1)
        elif op == "Ne":
            if not truth:
                ge(la, lb, 0)
                ge(lb, la, 0)
            elif lb[0] == Z and lb[1] == 0:
                ge(la, (Z, 0), 1)
            elif la[0] == Z and la[1] == 0:
                ge(lb, (Z, 0), 1)

    # ------------------------------------------------------------------ driver
    def run(self, record=True):
        b = self.b
        nb = len(b.blocks)
        instate = {0: State()}
        for key, n in self.assume.items():
            instate[0].add(("N", key), Z, n)
        for l in range(1, b.argc + 1):
            self.seed_array(instate[0], l)
        visits = {}
        work = [0]
        order = []
        while work:
            bi = work.pop()
            visits[bi] = visits.get(bi, 0) + 1
            if visits[bi] > 12:
                continue
            st = instate[bi].copy()
            self.sites_tmp = []
            outs = self.transfer_block(st, bi, record=False)
            for tgt, ost in outs:
                old = instate.get(tgt)
                if old is None:
                    instate[tgt] = ost
                    work.append(tgt)
                else:
                    j = old.join(ost)
                    if visits.get(tgt, 0) >= 4:
                        # widening: drop facts that keep weakening
                        j = State({k: c for k, c in j.f.items() if old.f.get(k) == c})
                    if j != old:
                        instate[tgt] = j
                        work.append(tgt)
        # final pass: record sites with the fixpoint states
        self.sites = []
        for bi in sorted(instate):
            self.transfer_block(instate[bi].copy(), bi, record=True)
        return self.sites

    def _note_progress(self, st, bi, rv):
        """`v + e` / `v - e` with v a user variable and e provably >= 1: the step of a loop variant"""
        b = self.b
        for v_op, e_op in ((rv["a"], rv["b"]), (rv["b"], rv["a"])):
            if rv["op"].startswith("Sub") and v_op is rv["b"]:
                continue
            if v_op.get("k") not in ("cp", "mv") or "p" in v_op["p"]:
                continue
            name = b.locals[v_op["p"]["l"]].get("n")
            if not name:
                continue
            le = self.lf(e_op)
            if le is None:
                continue
            lbv = self._diff_lb(st, le, (Z, 0))
            if lbv is not None and lbv >= 1:
                self.progress[bi] = "%s %s (>= %d)" % (name, "+=" if rv["op"].startswith("Add") else "-=", lbv)
                return

    def transfer_block(self, st, bi, record):
        b = self.b
        blk = b.blocks[bi]
        saved = self.sites
        if not record:
            self.sites = []
        for s in blk["s"]:
            if s["k"] == "as":
                p = s["p"]
                if record and s["rv"]["r"] == "bin" and s["rv"]["op"] in ("Add", "AddWithOverflow", "AddUnchecked", "Sub", "SubWithOverflow", "SubUnchecked"):
                    self._note_progress(st, bi, s["rv"])
                if "p" not in p:
                    self.assign_local(st, p["l"], s["rv"], None)
                else:
                    # write through a projection: the root buffer / place changes
                    root = p["l"]
                    if root in self.int_locals:
                        st.kill(("L", root))
        t = blk["t"]
        k = t["k"]
        outs = []
        if k == "call":
            self._post_array = None
            self.do_call(st, bi, t, None)
            if self._post_array is not None:
                self.seed_array(st, self._post_array)
            if t.get("to") is not None:
                outs.append((t["to"], st))
        elif k == "assert":
            self.do_assert(st, bi, t)
            outs.append((t["to"], st))
        elif k == "switch":
            for tgt, lab in b.succ_edges(bi):
                outs.append((tgt, self.edge_facts(st, bi, tgt, lab)))
        else:
            for tgt, lab in b.succ_edges(bi):
                outs.append((tgt, st))
        if not record:
            self.sites = saved
        return outs
