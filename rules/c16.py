"""C16 — STUN/TURN encode/decode agree on their code tables and match the RFC registries (thin claim)."""
from engine import core, mir
from engine.core import RuleResult, suffix

EXPLANATION = (
    "Static table agreement (K6) and ordering (K4) only; XOR-address algebra, HMAC/CRC values, long-term keys, "
    "ChannelData framing values and candidate-line round trips are value-level and NOT decided; priority formulas are checked for shape and constants only (R16.6). "
    "R16.1 method and class bit tables of encode_stun_message and decode_stun_message agree with each other and with "
    "RFC 5389/5766. R16.2 attribute type codes written by append_attribute (per StunAttribute variant) equal the IANA "
    "registry, and every code the decoder dispatches on is a registry code for the field it fills. R16.3 magic cookie "
    "and FINGERPRINT XOR constants. R16.4 every attribute append path ends in pad_four_bytes; MESSAGE-INTEGRITY is "
    "appended before FINGERPRINT and each is preceded by the length fix-up.")
ASSUMPTIONS = ["constants are compared as evaluated by rustc"]
TRUSTED_BASE = ["rustc MIR construction and constant evaluation", "RFC/IANA tables in rules/c16.py"]

METHODS = {"Binding": 0x0001, "Allocate": 0x0003, "Refresh": 0x0004, "Send": 0x0006, "Data": 0x0007, "CreatePermission": 0x0008, "ChannelBind": 0x0009}
CLASSES = {"Request": 0x0000, "Indication": 0x0010, "SuccessResponse": 0x0100, "ErrorResponse": 0x0110}
ATTRS = {"Username": 0x0006, "Realm": 0x0014, "Nonce": 0x0015, "Software": 0x8022, "RequestedTransport": 0x0019, "Lifetime": 0x000D,
         "Priority": 0x0024, "IceControlling": 0x802A, "IceControlled": 0x8029, "UseCandidate": 0x0025, "XorPeerAddress": 0x0012,
         "XorMappedAddress": 0x0020, "ChannelNumber": 0x000C, "Data": 0x0013}
DECODE_FIELDS = {0x0020: "xor_mapped_address", 0x0016: "xor_relayed_address", 0x0012: "xor_peer_address", 0x0009: "error_code",
                 0x0014: "realm", 0x0015: "nonce", 0x0013: "data", 0x000D: "lifetime", 0x0025: "use_candidate",
                 0x0006: "username", 0x0008: "integrity"}
ENC = "transports::ice::stun::encode_stun_message"
DEC = "transports::ice::stun::decode_stun_message"


def _enum_to_const(b, adt_suffix):
    """match <enum> { V => const } : {variant: const} for the switch on that enum's discriminant"""
    for bi, blk in enumerate(b.blocks):
        if bi in b.cleanup or blk["t"]["k"] != "switch":
            continue
        term, regions = core.arm_regions(b, bi)
        if term[0] == "discr" and term[2].endswith(adt_suffix):
            out = {}
            for v, blocks in regions.items():
                if not isinstance(v, str):
                    continue
                vals = [x for x, ty in core.ints_in_blocks(b, blocks) if ty in ("u16", "i32", "u32")]
                if vals:
                    out[v] = vals[0]
            return out, bi
    return {}, None


def _const_to_enum(b, adt_suffix):
    """match bits { const => Enum::V } : {const: variant}"""
    best = {}
    for bi, blk in enumerate(b.blocks):
        if bi in b.cleanup or blk["t"]["k"] != "switch":
            continue
        term, regions = core.arm_regions(b, bi)
        out = {}
        for val, blocks in regions.items():
            if not isinstance(val, int):
                continue
            for ab, si, s in core.aggregates(b, lambda a: a.endswith(adt_suffix)):
                if ab in blocks:
                    out[val] = s["rv"]["variant"]
        if len(out) > len(best):
            best = out
            best_term = term
    return best


def r16_1(ctx):
    r = RuleResult("R16.1", "K6", "method / class bit tables")
    e, d = ctx.body(ENC), ctx.body(DEC)
    r.scope += [ENC, DEC]
    for name, rfc, sfx in (("method", METHODS, "stun::StunMethod"), ("class", CLASSES, "stun::StunClass")):
        enc, _ = _enum_to_const(e, sfx)
        dec = _const_to_enum(d, sfx)
        if len(enc) < len(rfc) or len(dec) < len(rfc):
            raise core.CheckerError("R16.1: %s table not found (encoder %d, decoder %d entries)" % (name, len(enc), len(dec)))
        for v, code in rfc.items():
            problems = []
            if enc.get(v) != code:
                problems.append("encoder writes %s" % (hex(enc[v]) if v in enc else None))
            if dec.get(code) != v:
                problems.append("decoder maps %s to %s" % (hex(code), dec.get(code)))
            if problems:
                r.violate(ENC if "encoder" in problems[0] else DEC, "%s:%s" % (name, v), e.where(0), "%s %s must be %s: %s" % (name, v, hex(code), "; ".join(problems)))
            else:
                r.ok({name: v, "code": hex(code), "encoder": "ok", "decoder": "ok"})
    # masks used by the decoder
    masks = set(v for v, ty in core.ints_in_blocks(d, range(len(d.blocks))) if ty == "u16")
    if {0x3EEF, 0x0110} <= masks:
        r.ok({"decoder masks": ["0x3eef", "0x0110"]})
    else:
        r.violate(DEC, "masks", d.where(0), "method/class masks 0x3EEF / 0x0110 not used by the decoder")
    return r


def r16_2(ctx):
    r = RuleResult("R16.2", "K6", "attribute type codes")
    a = ctx.body("transports::ice::stun::append_attribute")
    r.scope.append(a.name)
    enc, _ = _enum_to_const(a, "stun::StunAttribute")
    r.need("StunAttribute variants with an encoder arm", len(enc), 14)
    for v, code in ATTRS.items():
        if enc.get(v) == code:
            r.ok({"attribute": v, "code": hex(code)})
        else:
            r.violate(a.name, "attr:%s" % v, a.where(0), "StunAttribute::%s is written with type %s; the registry says %s" % (v, hex(enc[v]) if v in enc else None, hex(code)))
    for v in sorted(set(enc) - set(ATTRS)):
        r.violate(a.name, "attr:%s" % v, a.where(0), "StunAttribute::%s (code %s) is not in the rule's registry table: extend the table" % (v, hex(enc[v])))
    d = ctx.body(DEC)
    r.scope.append(DEC)
    found = {}
    for bi, blk in enumerate(d.blocks):
        if bi in d.cleanup or blk["t"]["k"] != "switch":
            continue
        term, regions = core.arm_regions(d, bi)
        vals = [k for k in regions if isinstance(k, int)]
        if not ({0x0020, 0x0012} <= set(vals)):
            continue
        for code, blocks in regions.items():
            if not isinstance(code, int):
                continue
            names = set()
            for ab, si, s in d.assigns():
                if ab in blocks and "p" not in s["p"]:
                    n = d.locals[s["p"]["l"]].get("n")
                    if n in DECODE_FIELDS.values():
                        names.add(n)
            found[code] = names
    if not found:
        raise core.CheckerError("R16.2: decoder attribute dispatch not found")
    for code, names in sorted(found.items()):
        want = DECODE_FIELDS.get(code)
        if want is None:
            r.violate(DEC, "decode:%s" % hex(code), d.where(0), "decoder dispatches on attribute type %s which is not in the registry table of this rule" % hex(code))
        elif want in names or not names:
            r.ok({"decoder": hex(code), "fills": want})
        else:
            r.violate(DEC, "decode:%s" % hex(code), d.where(0), "attribute %s fills %s, expected %s" % (hex(code), sorted(names), want))
    return r


def r16_3(ctx):
    r = RuleResult("R16.3", "K6", "magic cookie and FINGERPRINT constants")
    want = {"transports::ice::stun::MAGIC_COOKIE": 0x2112A442}
    for k, v in want.items():
        c = ctx.facts.consts.get(k)
        if c and c.get("v") == v:
            r.ok({k.split("::")[-1]: hex(v)})
        else:
            r.violate("transports::ice::stun", "const:%s" % k.split("::")[-1], "src/transports/ice/stun.rs:1", "%s is %s, RFC 5389 says %s" % (k, (c or {}).get("v"), hex(v)))
    e = ctx.body(ENC)
    vals = set(v for v, ty in core.ints_in_blocks(e, range(len(e.blocks))))
    fam = [b for b in ctx.facts.bodies(prefix="transports::ice::stun::")]
    allv = set()
    for b in fam:
        allv |= set(v for v, ty in core.ints_in_blocks(b, range(len(b.blocks))))
    for c in ctx.facts.consts:
        if c.startswith("transports::ice::stun::") and ctx.facts.consts[c].get("v") is not None:
            allv.add(ctx.facts.consts[c]["v"])
    if 0x5354554E in allv:
        r.ok({"FINGERPRINT xor": "0x5354554e"})
    else:
        r.violate(ENC, "const:fingerprint_xor", e.where(0), "FINGERPRINT XOR constant 0x5354554E not found")
    return r


def r16_4(ctx):
    r = RuleResult("R16.4", "K4", "padding and MESSAGE-INTEGRITY / FINGERPRINT ordering")
    a = ctx.body("transports::ice::stun::append_attribute")
    pads = [bi for bi, t, p in core.calls_to(a, suffix("stun::pad_four_bytes"))]
    rets = [i for i, blk in enumerate(a.blocks) if blk["t"]["k"] == "ret" and i not in a.cleanup]
    # arms that return early delegate to helpers that pad themselves
    helpers_pad = all(core.calls_to(ctx.body(h), suffix("stun::pad_four_bytes")) for h in
                      ("transports::ice::stun::append_raw_attribute", "transports::ice::stun::append_xor_address"))
    delegating = [bi for bi, t, p in core.calls_to(a, suffix("stun::append_xor_address", "stun::append_raw_attribute", "stun::append_string_attr"))]
    ok = pads and helpers_pad and all(a.path_to([0], rb, cut_blocks=set(pads) | set(delegating)) is None for rb in rets)
    if ok:
        r.ok({"append_attribute": "every path ends in pad_four_bytes (directly or through a helper that pads)"})
    else:
        r.violate(a.name, "pad", a.where(0), "an attribute append path does not end in pad_four_bytes")
    e = ctx.body(ENC)
    mi = [bi for bi, t, p in core.calls_to(e, suffix("stun::hmac_sha1"))]
    fp = [bi for bi, t, p in core.calls_to(e, suffix("stun::crc32", "crc32fast::hash", "Hasher::finalize"))]
    fix = [bi for bi, t, p in core.calls_to(e, suffix("stun::update_length_field", "stun::write_length_field"))]
    if not mi or not fp or len(fix) < 2:
        raise core.CheckerError("R16.4: integrity/fingerprint/length fix-up calls not found (%d,%d,%d)" % (len(mi), len(fp), len(fix)))
    order_ok = all(f not in core.reach_from(e, m) or True for m in mi for f in fp) and \
        all(m not in core.reach_from(e, f) for m in mi for f in fp)
    if order_ok:
        r.ok({"order": "MESSAGE-INTEGRITY is computed before FINGERPRINT (no path from the CRC to the HMAC)"})
    else:
        r.violate(ENC, "order:mi-fp", e.where(mi[0]), "FINGERPRINT can be appended before MESSAGE-INTEGRITY")
    for what, sites in (("MESSAGE-INTEGRITY", mi), ("FINGERPRINT", fp)):
        for sb in sites:
            if core.must_pass(e, sb, fix):
                r.ok({what: "preceded by a length fix-up", "site": e.where(sb)})
            else:
                r.violate(ENC, "fixup:%s" % what, e.where(sb), "%s is computed without a preceding length fix-up" % what)
    # RFC 5389 15.4 / 15.5: the header length the HMAC / CRC is computed over is "everything so far plus this
    # attribute": (current buffer length - 20) + 24 for MESSAGE-INTEGRITY, + 8 for FINGERPRINT - with the buffer
    # length read inside the respective branch (i.e. after whatever was appended before).
    for what, sites, extra in (("MESSAGE-INTEGRITY", mi, 24), ("FINGERPRINT", fp, 8)):
        for sb in sites:
            wl = [bi for bi, t, p in core.calls_to(e, suffix("stun::write_length_field")) if sb in core.reach_from(e, bi)]
            cand = [bi for bi in wl if core.must_pass(e, sb, [bi])]
            if not cand:
                r.violate(ENC, "len:%s" % what, e.where(sb), "no write_length_field call dominates the %s computation" % what)
                continue
            lb = max(cand)          # the last one before the digest
            arg = e.term_operand(e.blocks[lb]["t"]["a"][1])
            shape = arg[0] == "bin" and arg[1] == "Add" and mir.int_value(arg[3]) == extra and \
                arg[2][0] == "bin" and arg[2][1] == "Sub" and mir.int_value(arg[2][3]) == 20 and \
                arg[2][2][0] == "call" and arg[2][2][1].endswith("::len")
            # the len() it uses is read inside the branch: every path to that len() call passes the branch edge,
            # i.e. the call is not reachable once the blocks before the digest's branch are cut at the branch switch
            lens = [bi for bi, t, p in core.calls_to(e, suffix("Vec::<T, A>::len")) if lb in core.reach_from(e, bi)]
            fresh = False
            if shape and lens:
                ln = max(lens)
                prev_appends = [bi for bi, t, p in core.calls_to(e, suffix("stun::append_raw_attribute", "stun::append_attribute"))
                                if ln in core.reach_from(e, bi)]
                # no append between the len() read and the digest
                between = [bi for bi, t, p in core.calls_to(e, suffix("stun::append_raw_attribute", "stun::append_attribute"))
                           if bi in core.reach_from(e, ln) and sb in core.reach_from(e, bi)]
                fresh = not between and _root_is(e, e.blocks[lb]["t"]["a"][1], ln)
            if shape and fresh:
                r.ok({what: "length = (buffer.len() - 20) + %d, buffer.len() read after the previous append" % extra, "site": e.where(lb)})
            else:
                r.violate(ENC, "len:%s" % what, e.where(lb),
                          "the header length the %s is computed over is %s, not (current buffer length - 20) + %d" %
                          (what, mir.show(arg, 90), extra))
    return r


def _root_is(b, op, len_block, hops=8):
    """the operand is computed (through Add/Sub of constants and copies) from the result of the len() call in len_block"""
    if op.get("k") not in ("cp", "mv"):
        return False
    l = op["p"]["l"]
    for _ in range(hops):
        ds = b.defs().get(l, [])
        if len(ds) != 1:
            return False
        d = ds[0]
        if d[0] == "t":
            return d[1] == len_block
        rv = b.blocks[d[1]]["s"][d[2]]["rv"]
        nxt = None
        if rv["r"] == "use" and rv["o"].get("k") in ("cp", "mv"):
            nxt = rv["o"]["p"]["l"]
        elif rv["r"] == "bin" and rv["a"].get("k") in ("cp", "mv"):
            nxt = rv["a"]["p"]["l"]
        if nxt is None:
            return False
        l = nxt
    return False


def r16_5(ctx):
    """RFC 5389 15.4: the long-term key is MD5(username ":" realm ":" password) for the realm the request CARRIES.
    TurnAuthState caches that key next to the realm; every request builder signs with the cached key and sends
    the cached realm. So: whenever one of username/realm/password of the state is written, the key is recomputed
    from the state's own fields AFTERWARDS on every path."""
    r = RuleResult("R16.5", "K4", "the cached TURN long-term key always belongs to the cached realm")
    n = 0
    for b in ctx.facts.bodies(prefix="transports::ice::turn::"):
        if "::tests::" in b.name:
            continue
        inputs = [(bi, si) for bi, si, st in core.field_writes(b, lambda f: f in ("realm", "username", "password"), deep=True)
                  if _on_auth_state(b, st["p"] if si is not None else st["dst"])]
        if not inputs:
            continue
        r.scope.append(b.name)
        keyw = []
        for bi, si, st in core.field_writes(b, lambda f: f == "key"):
            pl = st["p"] if si is not None else st["dst"]
            if not _on_auth_state(b, pl):
                continue
            v = b.term_rvalue(st["rv"]) if si is not None else b.term_call(st)
            if v[0] == "call" and v[1].endswith("turn::long_term_key") and \
                    [mir.field_path(a) and mir.field_path(a).split(".")[-1] for a in v[2]] == ["username", "realm", "password"]:
                keyw.append(bi)
        for bi, si in inputs:
            n += 1
            ok = bool(keyw) and core.always_followed_by(b, bi, keyw) and not any(
                bi in b.reachable([t for t, _ in b.succ_edges(k)]) for k in keyw)
            if ok:
                r.ok({"site": b.where(bi, si), "then": "key = long_term_key(self.username, self.realm, self.password)"})
            else:
                r.violate(b.name, "write:realm-without-rekey", b.where(bi, si),
                          "username/realm/password of the TURN auth state changes without the long-term key being recomputed from the "
                          "new values afterwards: requests carry REALM=new but MESSAGE-INTEGRITY keyed for the old realm")
    r.need("writes of username/realm/password on TurnAuthState", n, 1)
    # construction: with_key(username, password, realm, nonce, key) gets key = long_term_key(username, realm, password)
    m = 0
    for b in ctx.facts.bodies(prefix="transports::ice::turn::"):
        if "::tests::" in b.name:
            continue
        for bi, t, p in core.calls_to(b, suffix("TurnAuthState::with_key")):
            m += 1
            a = [b.term_operand(x) for x in t["a"]]
            want = (a[0], a[2], a[1])
            if len(a) == 5 and mir.has(a[4], lambda x: x[0] == "call" and x[1].endswith("turn::long_term_key") and tuple(x[2]) == want):
                r.ok({"site": b.where(bi), "key": "long_term_key(username, realm, password) of the same three values"})
            else:
                r.violate(b.name, "call:with_key", b.where(bi),
                          "TurnAuthState is built with a key that is not long_term_key(username, realm, password) of the values stored with it")
    agg = 0
    for b in ctx.facts.bodies(prefix="transports::ice::turn::"):
        if "::tests::" in b.name:
            continue
        for bi, si, st in core.aggregates(b, lambda x: x.endswith("turn::TurnAuthState")):
            agg += 1
            if not b.name.endswith("TurnAuthState::with_key"):
                r.violate(b.name, "agg:TurnAuthState", b.where(bi, si), "TurnAuthState constructed outside with_key")
    r.need("TurnAuthState::with_key call sites", m, 1)
    return r


def _on_auth_state(b, pl):
    ty = b.locals[pl["l"]]["ty"]
    return "TurnAuthState" in ty


def _var_table(b, var_name, discr_field_pred):
    """{variant: constant} for `let v = match <enum> { V1 => c1, .. }`: the constants assigned to user local
    var_name in the arms of the switch whose discriminant satisfies discr_field_pred"""
    ls = [i for i, l in enumerate(b.locals) if l.get("n") == var_name]
    if len(ls) != 1:
        return None
    l = ls[0]
    out = {}
    for sb in range(len(b.blocks)):
        if sb in b.cleanup or b.blocks[sb]["t"]["k"] != "switch":
            continue
        term, outs = b.switch_info(sb)
        if term[0] != "discr" or not discr_field_pred(term[1]):
            continue
        _, regions = core.arm_regions(b, sb)
        for meaning, blocks in regions.items():
            for bi in blocks:
                for st in b.blocks[bi]["s"]:
                    if st["k"] == "as" and st["p"]["l"] == l and "p" not in st["p"]:
                        v = mir.int_value(b.term_rvalue(st["rv"]))
                        if isinstance(v, int) and isinstance(meaning, str):
                            out[meaning] = v
    return out


def r16_6(ctx):
    """RFC 8445 5.1.2.1: priority = 2^24 * type preference + 2^8 * local preference + (256 - component), with the
    recommended type preferences host 126 > prflx 110 > srflx 100 > relay 0; RFC 6544 4.1 local preferences for
    TCP; RFC 8445 6.1.2.3: pair priority = 2^32*MIN(G,D) + 2*MAX(G,D) + (G>D ? 1 : 0), G the controlling agent's
    candidate priority. Formula *shape* and constant tables; not the arithmetic result."""
    r = RuleResult("R16.6", "K6", "candidate and pair priority formulas have the RFC 8445 / 6544 shape and constants")
    P = "transports::ice::IceCandidate::"

    def cand_shape(t):
        # ((type_pref << 24) | (local_pref << 8)) | (256 - component)
        try:
            ok = t[0] == "bin" and t[1] == "BitOr" and t[2][0] == "bin" and t[2][1] == "BitOr"
            a, c, d = t[2][2], t[2][3], t[3]
            ok = ok and a[0] == "bin" and a[1] == "Shl" and a[2][:2] == ("var", "type_pref") and mir.int_value(a[3]) == 24
            ok = ok and c[0] == "bin" and c[1] == "Shl" and mir.int_value(c[3]) == 8 and \
                (mir.int_value(c[2]) == 65535 or c[2][:2] == ("var", "local_pref"))
            ok = ok and d[0] == "bin" and d[1] == "Sub" and mir.int_value(d[2]) == 256 and mir.has(d[3], lambda x: x == ("arg", "component"))
            return ok
        except (IndexError, TypeError):
            return False
    for fn in (P + "priority_for", P + "priority_for_tcp"):
        b = ctx.body(fn)
        r.scope.append(fn)
        if cand_shape(b.term_local(0)):
            r.ok({"function": fn, "shape": "(type_pref << 24) | (local_pref << 8) | (256 - component)"})
        else:
            r.violate(fn, "formula", b.where(0), "candidate priority is %s, not (type_pref << 24) | (local_pref << 8) | (256 - component)" % mir.show(b.term_local(0), 120))
        tp = _var_table(b, "type_pref", lambda x: x == ("arg", "typ"))
        want = {"Host": 126, "PeerReflexive": 110, "ServerReflexive": 100, "Relay": 0}
        if tp == want:
            r.ok({"function": fn, "type preferences": want})
        else:
            r.violate(fn, "table:type_pref", b.where(0), "type preferences are %s, RFC 8445 recommends %s (host > prflx > srflx > relay)" % (tp, want))
    b = ctx.body(P + "priority_for_tcp")
    lp = _var_table(b, "local_pref", lambda x: x == ("arg", "tcp_type"))
    if lp == {"Passive": 65535, "Active": 65534, "So": 65533}:
        r.ok({"tcp local preferences": lp})
    else:
        r.violate(b.name, "table:local_pref", b.where(0), "TCP local preferences are %s" % lp)
    pb = ctx.body("transports::ice::IceCandidatePair::priority")
    r.scope.append(pb.name)
    t = pb.term_local(0)

    def has_bin(op, pred):
        return mir.has(t, lambda x: x[0] == "bin" and x[1] == op and pred(x))
    shape = has_bin("Mul", lambda x: x[2][0] == "bin" and x[2][1] == "Shl" and mir.int_value(x[2][2]) == 1 and mir.int_value(x[2][3]) == 32
                    and x[3][0] == "call" and x[3][1].endswith("cmp::min")) and \
        has_bin("Mul", lambda x: mir.int_value(x[2]) == 2 and x[3][0] == "call" and x[3][1].endswith("cmp::max")) and \
        mir.has(t, lambda x: x[0] == "phi" and sorted(mir.int_value(y) for y in x[1] if isinstance(mir.int_value(y), int)) == [0, 1])
    if shape:
        r.ok({"pair priority": "2^32*min(G,D) + 2*max(G,D) + (G>D ? 1 : 0)"})
    else:
        r.violate(pb.name, "formula", pb.where(0), "pair priority is %s" % mir.show(t, 160))
    # G is the controlling side's candidate: on the Controlling arm the pair is (local, remote)
    ok_role = False
    for sb in range(len(pb.blocks)):
        if pb.blocks[sb]["t"]["k"] != "switch":
            continue
        term, outs = pb.switch_info(sb)
        if term[0] == "discr" and term[1] == ("arg", "role"):
            _, regions = core.arm_regions(pb, sb)
            for meaning, blocks in regions.items():
                for bi in blocks:
                    for st in pb.blocks[bi]["s"]:
                        if st["k"] == "as" and st["rv"]["r"] == "agg" and st["rv"].get("ak") == "tuple":
                            ops = [pb.term_operand(o) for o in st["rv"]["ops"]]
                            first_local = mir.has_field(ops[0], "local")
                            if meaning == "Controlling" and first_local:
                                ok_role = True
                            if meaning == "Controlling" and not first_local:
                                ok_role = False
    if ok_role:
        r.ok({"pair priority": "G = local priority when controlling, remote priority when controlled"})
    else:
        r.violate(pb.name, "role", pb.where(0), "G is not the controlling agent's candidate priority")
    return r


def r16_7(ctx):
    """a decoder's "is there room for this element" guard must accept the boundary case where the element ends exactly
    at the end of the buffer: `pos + size > len => stop` / `len < pos + size => error`, not `>=` / `<=`. An over-strict
    guard silently drops (or refuses) a valid LAST element - e.g. the final attribute of a STUN message, the last report
    block of an RR - while everything produced by this crate (which ends in other elements) still round-trips."""
    r = RuleResult("R16.7", "K6", "STUN/TURN decoders: element-fits guards accept an element that ends exactly at the end of the buffer")
    n = 0
    for b in ctx.facts.all_bodies():
        if "::tests::" in b.name or not b.name.startswith(('transports::ice::stun::', 'transports::ice::shared_tcp::', 'transports::ice::turn::')):
            continue
        for sb, t, tight in core.bound_guards(b):
            n += 1
            if tight:
                r.ok({"site": b.where(sb), "guard": mir.show(t, 90)})
            else:
                r.violate(b.name, "guard:over-strict", b.where(sb),
                          "the guard %s also rejects an element that ends exactly at the end of the buffer (the access it protects is in "
                          "bounds there): a valid last element is dropped or refused" % mir.show(t, 100))
    r.need("element-fits guards", n, 2)
    return r


def r16_8(ctx):
    """MESSAGE-INTEGRITY is HMAC-SHA1 under the given key - the WHOLE key. HMAC (RFC 2104) replaces a key longer than
    the hash block (64 bytes for SHA-1) by its hash and zero-pads a shorter one; only the variable-length constructor
    does that. Building the MAC from a fixed-size key block (truncating / zero-padding by hand) agrees for keys of up
    to 64 bytes and silently differs beyond - an ice-pwd may be up to 256 characters (RFC 8445 5.3). Also: the whole
    `data` is fed, and the full output returned."""
    r = RuleResult("R16.8", "K6/provenance", "hmac_sha1 keys the MAC with the whole key through the variable-length constructor")
    fn = "transports::ice::stun::hmac_sha1"
    b = ctx.body(fn)
    r.scope.append(fn)
    vs = [(bi, t) for bi, t, p in b.calls() if p and p.endswith("KeyInit>::new_from_slice")]
    fixed = [(bi, t) for bi, t, p in b.calls() if p and p.endswith("KeyInit>::new")]
    if not vs and not fixed:
        raise core.CheckerError("R16.8: cannot find how hmac_sha1 constructs its MAC")
    for bi, t in fixed:
        r.violate(fn, "hmac:key", b.where(bi),
                  "the MAC is constructed from a fixed-size key block (KeyInit::new): keys longer than 64 bytes are truncated instead of "
                  "hashed, so MESSAGE-INTEGRITY differs from every other implementation for such keys")
    for bi, t in vs:
        k = b.term_operand(t["a"][0])
        if k == ("arg", "key"):
            r.ok({"site": b.where(bi), "key": "new_from_slice(key) - the whole key parameter"})
        else:
            r.violate(fn, "hmac:key", b.where(bi), "the MAC is keyed with %s, not with the whole `key` parameter" % mir.show(k, 80))
    ups = [(bi, t) for bi, t, p in b.calls() if p and p.endswith("Mac>::update")]
    if ups and all(b.term_operand(t["a"][1]) == ("arg", "data") for bi, t in ups):
        r.ok({"update": "the whole `data` parameter"})
    else:
        r.violate(fn, "hmac:data", b.where(ups[0][0] if ups else 0), "the MAC is not computed over exactly the `data` parameter")
    return r


def r16_9(ctx):
    """'with the same attributes': what the encoder puts on the wire for a text attribute (USERNAME, REALM, NONCE,
    SOFTWARE) is the value it was given - all of it. The shared helper append_string_attr hands the bytes of its `value`
    parameter, unsliced, to append_raw_attribute, which writes their length and then exactly those bytes. A
    'hardening' cut (USERNAME is `rufrag:lufrag`, up to 513 bytes; REALM / NONCE up to 763 bytes) changes the value
    silently: MESSAGE-INTEGRITY still verifies, the peer sees a different USERNAME / NONCE."""
    r = RuleResult("R16.9", "K6/provenance", "text attributes are written whole: value bytes and length come from the unmodified parameter")
    sa = ctx.body("transports::ice::stun::append_string_attr")
    ra = ctx.body("transports::ice::stun::append_raw_attribute")
    r.scope += [sa.name, ra.name]
    calls = [(bi, t) for bi, t, p in sa.calls() if p and p.endswith("stun::append_raw_attribute")]
    r.need("append_raw_attribute call in append_string_attr", len(calls), 1)
    for bi, t in calls:
        v = sa.term_operand(t["a"][2])
        whole = v == ("call", "core::str::<impl str>::as_bytes", (("arg", "value"),)) or \
            (v[0] == "call" and v[1].endswith("::as_bytes") and v[2] == (("arg", "value"),))
        if whole:
            r.ok({"site": sa.where(bi), "bytes": "value.as_bytes()"})
        else:
            r.violate(sa.name, "text:cut", sa.where(bi), "the text attribute is written from %s, not from the whole value: it is truncated or altered on the way to the wire" % mir.show(v, 90))
    exts = [(bi, sa_) for bi, sa_, p in ra.calls() if p and p.endswith("::extend_from_slice")]
    vals = [ra.term_operand(t["a"][1]) for bi, t in exts]
    if any(v == ("arg", "value") for v in vals) and any(mir.has(v, lambda x: x[0] == "call" and x[1].endswith("::len") and x[2] == (("arg", "value"),)) for v in vals):
        r.ok({"append_raw_attribute": "writes len(value) and then value"})
    else:
        r.violate(ra.name, "raw:cut", ra.where(0), "append_raw_attribute does not write the length of `value` followed by `value` itself")
    return r


def r16_10(ctx):
    """RFC 5766 11.4: a ChannelData frame is <channel number (16)> <length (16)> <application data> [padding], and the
    Length field counts the application data only - padding, where it is used, is NOT included. A server relays exactly
    Length bytes to the peer: a length that includes pad bytes appends zeros to every DTLS record and moves the SRTP
    authentication tag. Decided on the writer: the 16-bit values send_channel_data serialises are the channel number and
    the length of the caller's data, in that order (however the frame is assembled or padded afterwards)."""
    r = RuleResult("R16.10", "K6/dataflow", "the ChannelData Length field is the length of the application data")
    fn = "transports::ice::turn::TurnClient::send_channel_data::{closure#0}"
    b = ctx.body(fn)
    r.scope.append(fn)
    fields = []
    for bi, t, p in b.calls():
        if p and p.endswith("to_be_bytes") and t["a"] and bi not in b.cleanup:
            fields.append((bi, b.term_operand(t["a"][0])))

    def is_channel(v):
        return mir.has_field(v, "channel") or v == ("arg", "channel")

    def is_data_len(v):
        return v[0] == "cast" and v[1][0] == "call" and v[1][1].endswith("::len") and (mir.has_field(v[1], "data") or mir.has(v[1], lambda x: x == ("arg", "data")))
    r.need("16-bit header fields written by send_channel_data", len(fields), 2)
    kinds = ["channel" if is_channel(v) else "data-length" if is_data_len(v) else "other" for _bi, v in fields]
    if kinds == ["channel", "data-length"]:
        r.ok({"header": "channel number, then (data.len() as u16)", "sites": [b.where(bi) for bi, _ in fields]})
    else:
        bad = next((bi for (bi, v), k in zip(fields, kinds) if k == "other"), fields[0][0])
        r.violate(fn, "chandata:length", b.where(bad),
                  "the ChannelData header is not <channel number><length of the application data>: got %s - a Length that counts padding (or "
                  "anything else) makes the TURN server relay extra bytes to the peer" % kinds)
    return r


def r16_11(ctx):
    """'candidate lines survive an SDP round trip' - also lines written by others: RFC 8839 makes the transport token
    case-insensitive, RFC 6544's own examples (and Firefox) write `TCP`. from_sdp lower-cases the token it stores; every
    DECISION it takes on the token has to be taken on the same normalised value, or `TCP ... tcptype active` parses to a
    tcp candidate without its tcptype (and upper / lower case spellings of one line parse to different candidates).
    Decided: every comparison of the candidate line's transport token with a literal in IceCandidate::from_sdp is made on
    the lower-cased (or case-insensitively compared) token."""
    r = RuleResult("R16.11", "K6/dataflow", "candidate-line parsing decides on the case-normalised transport token")
    fn = "transports::ice::IceCandidate::from_sdp"
    fam = [nb for nb in ctx.facts.all_bodies() if nb.name == fn or nb.name.startswith(fn + "::{closure")]
    r.scope.append(fn)
    n = 0
    for b in fam:
        for bi, t, p in b.calls():
            if not p or bi in b.cleanup or len(t["a"]) != 2:
                continue
            if not ("PartialEq" in p or p.endswith("eq_ignore_ascii_case")):
                continue
            ops = [b.term_operand(a) for a in t["a"]]
            lit = [o for o in ops if o[0] == "const" and isinstance(o[2] if len(o) > 2 else None, str) and o[2].strip('"').lower() in ("tcp", "udp")]
            if not lit:
                lit = [o for o in ops if mir.show(o, 20).strip('"').lower() in ("tcp", "udp")]
            if not lit:
                continue
            n += 1
            other = [o for o in ops if o not in lit]
            norm = p.endswith("eq_ignore_ascii_case") or any(mir.has(o, lambda x: x[0] == "call" and x[1].endswith(("to_ascii_lowercase", "to_lowercase", "make_ascii_lowercase"))) for o in other)
            if norm:
                r.ok({"site": b.where(bi), "compares": "the lower-cased transport token"})
            else:
                r.violate(fn, "candidate:transport-case", b.where(bi),
                          "the transport token of a candidate line is compared with %s as it was written: `TCP` (RFC 6544's own spelling) is "
                          "stored as tcp but loses its tcptype" % mir.show(lit[0], 10))
    r.need("comparisons of the transport token with a literal", n, 1)
    return r


def r16_12(ctx):
    """'Candidate lines survive an SDP round trip': to_sdp and from_sdp are siblings - every keyword the writer puts behind
    the fixed fields (`typ`, `tcptype`, `raddr`, `rport`) has to be a keyword the reader looks for, or that part of the
    candidate is silently lost on the way back (the related address of every reflexive / relayed candidate was).
    Decided: the keyword literals pushed by IceCandidate::to_sdp are a subset of the literals IceCandidate::from_sdp
    compares tokens with."""
    r = RuleResult("R16.12", "K6", "every keyword to_sdp writes is a keyword from_sdp reads")
    w = ctx.body("transports::ice::IceCandidate::to_sdp")
    fn = "transports::ice::IceCandidate::from_sdp"
    fam = [nb for nb in ctx.facts.all_bodies() if nb.name == fn or nb.name.startswith(fn + "::{closure")]
    r.scope += [w.name, fn]

    def lits(b):
        out = set()
        for bi, t, p in b.calls():
            for a in t["a"]:
                for x in mir.walk(b.term_operand(a)):
                    if x[0] == "const" and len(x) > 2 and isinstance(x[2], str):
                        v = x[2].strip('"')
                        if v.isalpha() and v.islower() and 2 < len(v) < 12:
                            out.add(v)
        for sb in range(len(b.blocks)):
            if b.blocks[sb]["t"]["k"] == "switch":
                for x in mir.walk(b.switch_info(sb)[0]):
                    if x[0] == "const" and len(x) > 2 and isinstance(x[2], str):
                        v = x[2].strip('"')
                        if v.isalpha() and v.islower() and 2 < len(v) < 12:
                            out.add(v)
        return out
    written = {k for k in lits(w) if k in ("typ", "tcptype", "raddr", "rport", "generation", "ufrag")}
    read = set()
    for nb in fam:
        read |= lits(nb)
    r.need("keywords written by to_sdp", len(written), 3)
    for k in sorted(written):
        if k in read or k == "typ":
            r.ok({"keyword": k, "read by": "from_sdp"})
        else:
            r.violate(fn, "candidate:keyword:%s" % k, ctx.facts.body(fn).where(0),
                      "to_sdp writes `%s <value>` but from_sdp never looks for it: that part of a candidate does not survive candidate -> line -> candidate" % k)
    return r


FAMILY_CONVERSIONS = ("::to_canonical", "::to_ipv4", "::to_ipv4_mapped", "::to_ipv6_mapped", "::to_ipv6_compatible")


def r16_13(ctx):
    """'decode to the same ... attribute values, for IPv4 and IPv6 XOR-mapped, XOR-peer and XOR-relayed addresses': the
    address family is a wire field (0x01 / 0x02). The encoder picks it from the SocketAddr variant; the decoder has to
    give the same variant back, or a family-0x02 attribute in ::ffff:0:0/96 reads back as an IPv4 address (what an
    independent implementation never does) and encode -> decode stops being the identity. Decided, type-level: in
    parse_xor_address every SocketAddr built in the arm of family 0x01 is built from an Ipv4Addr, every one in the arm of
    family 0x02 from an Ipv6Addr (never from the family-erased IpAddr), and no function of the STUN codec calls one of
    std's family-converting methods."""
    r = RuleResult("R16.13", "K6", "XOR address decode keeps the address family of the wire")
    fn = "transports::ice::stun::parse_xor_address"
    b = ctx.body(fn)
    r.scope.append(fn)
    fam_switch = None
    for sb in range(len(b.blocks)):
        if b.blocks[sb]["t"]["k"] != "switch":
            continue
        term, outs = b.switch_info(sb)
        vals = {m: tgt for tgt, _, m in outs if isinstance(m, int)}
        if 1 in vals and 2 in vals and len([m for m in vals]) == 2:
            fam_switch = (sb, vals)
            break
    if fam_switch is None:
        raise core.CheckerError("R16.13: family switch (0x01 / 0x02) not found in parse_xor_address")
    sb, vals = fam_switch
    want = {1: "Ipv4Addr", 2: "Ipv6Addr"}
    built = 0
    for fam, tgt in sorted(vals.items()):
        other = vals[3 - fam]
        region = body_region = b.reachable([tgt]) - b.reachable([other])
        for bi, t, path in b.calls():
            if bi not in region or "p" in t["dst"]:
                continue
            if b.locals[t["dst"]["l"]]["ty"] != "std::net::SocketAddr":
                continue
            built += 1
            tys = []
            for a in t["a"]:
                pl = a.get("p")
                if isinstance(pl, dict):
                    tys.append(b.locals[pl["l"]]["ty"])
            joined = " ".join(tys)
            if want[fam] in joined and "IpAddr" not in joined.replace("Ipv4Addr", "").replace("Ipv6Addr", "") and want[3 - fam] not in joined:
                r.ok({"family": fam, "site": b.where(bi), "built from": joined})
            else:
                r.violate(fn, "family:%d:built-from" % fam, b.where(bi),
                          "the address of a family-0x%02x attribute is not built from an %s (argument types: %s): the decoded "
                          "value can change family" % (fam, want[fam], joined))
    r.need("SocketAddr constructions in the family arms", built, 2)
    n = 0
    for nb in ctx.facts.bodies(prefix="transports::ice::stun::"):
        if "::tests::" in nb.name:
            continue
        n += 1
        for bi, t, path in nb.calls():
            if path and path.startswith(("std::net::", "core::net::")) and path.endswith(FAMILY_CONVERSIONS):
                r.violate(nb.name, "family-conversion:%s" % path.split("::")[-1], nb.where(bi),
                          "the STUN codec converts an address between families (%s): what is decoded / encoded is no longer the address on the wire" % path)
    r.need("STUN codec bodies scanned", n, 10)
    r.ok({"family-converting std calls in transports::ice::stun": 0})
    return r


def r16_14(ctx):
    """'Candidate lines survive an SDP round trip' / are read by an independent implementation: RFC 8839 5.1 puts the related
    address directly behind `typ <type>` and extension attributes (tcptype, generation, ufrag ...) after it. to_sdp wrote
    `tcptype` first; the reference implementation reads such a line with an empty related address. Decided: in
    IceCandidate::to_sdp no `raddr` / `rport` keyword is pushed on a path that has already pushed an extension keyword."""
    r = RuleResult("R16.14", "K4", "to_sdp writes raddr / rport before any extension attribute")
    b = ctx.body("transports::ice::IceCandidate::to_sdp")
    r.scope.append(b.name)

    def sites(words):
        out = []
        for bi, t, p in b.calls():
            for a in t["a"]:
                for x in mir.walk(b.term_operand(a)):
                    if x[0] == "const" and len(x) > 2 and isinstance(x[2], str) and x[2].strip('"') in words:
                        out.append(bi)
        return sorted(set(out))
    rel, ext = sites(("raddr", "rport")), sites(("tcptype", "generation", "ufrag", "network-id", "network-cost"))
    r.need("raddr / rport keyword sites in to_sdp", len(rel), 2)
    r.need("extension keyword sites in to_sdp", len(ext), 1)
    bad = [(e, x) for e in ext for x in rel if x in b.reachable([t for t, _ in b.succ_edges(e)])]
    if bad:
        e, x = bad[0]
        r.violate(b.name, "candidate:order:extension-before-raddr", b.where(e),
                  "an extension attribute is written at %s and `raddr` / `rport` after it at %s: RFC 8839 5.1 readers (the reference "
                  "implementation among them) take the related address only directly behind `typ`" % (b.where(e), b.where(x)))
    else:
        r.ok({"order": "typ, [raddr rport], extensions"})
    return r


def r16_15(ctx):
    """'messages built by that implementation decode to the same ... attribute values' for attribute MULTISETS: RFC 5389 15
    - when an attribute appears more than once only the first occurrence counts (the reference implementation does that);
    decode_stun_message overwrote on every occurrence, i.e. kept the last. Decided: every store of a decoded attribute
    into its result variable inside the attribute loop is on the `<variable>.is_none()` edge."""
    r = RuleResult("R16.15", "K1", "of a repeated STUN attribute the first occurrence is the one decoded")
    b = ctx.body("transports::ice::stun::decode_stun_message")
    r.scope.append(b.name)
    names = ("xor_mapped_address", "xor_relayed_address", "xor_peer_address", "error_code", "realm", "nonce", "data", "lifetime", "username")
    n = 0
    loops = b.loops()
    for nm in names:
        idx = [i for i, l in enumerate(b.locals) if l.get("n") == nm]
        if not idx:
            continue
        for bi, si, st in b.assigns():
            if st["p"]["l"] not in idx or "p" in st["p"]:
                continue
            if not any(bi in blocks for _h, blocks in loops):
                continue        # the `let mut x = None` before the loop
            n += 1

            def unset(term, meaning, *_, idx=idx):
                t, neg = term, False
                while t[0] == "un" and t[1] == "Not":
                    t, neg = t[2], not neg
                if t[0] == "call" and t[1].endswith(("Option::<T>::is_none", "Option::<T>::is_some")) and isinstance(meaning, bool) and \
                        t[2] and t[2][0][0] == "var" and len(t[2][0]) > 2 and t[2][0][2] in idx:
                    return (meaning != neg) is t[1].endswith("is_none")
                if t[0] == "discr" and t[1][0] == "var" and len(t[1]) > 2 and t[1][2] in idx and meaning == "None":
                    return True
                return False
            g = core.lift_guards(b, core.guard_edges(b, unset))
            if g and core.k1(b, [bi], g, fresh_per_iteration=True)[bi] is None:
                r.ok({"site": b.where(bi, si), "attribute": nm, "stored": "only while unset"})
            else:
                r.violate(b.name, "attr:%s:last-wins" % nm, b.where(bi, si),
                          "a repeated %s attribute overwrites the value decoded from the first one: an independent implementation "
                          "(RFC 5389 15: first occurrence) reads another value from the same bytes" % nm.upper().replace("_", "-"))
    r.need("attribute stores in the decode loop", n, 8)
    return r


def r16_16(ctx):
    """'string lengths 0..763': REALM and NONCE may each be 763 bytes; a conforming 401 that carries both next to ERROR-CODE,
    MESSAGE-INTEGRITY and FINGERPRINT is longer than 1500 bytes. The receive buffers of the TURN client are
    MAX_STUN_MESSAGE bytes; with 1500 such a response was truncated and the allocation failed. Decided: the constant is at
    least 20 + 2*(4+764) + (4+8) + 24 + 8 = 1608."""
    r = RuleResult("R16.16", "K6", "the STUN receive buffer holds a response with maximal REALM and NONCE")
    c = ctx.facts.consts.get("transports::ice::MAX_STUN_MESSAGE")
    if c is None:
        raise core.CheckerError("R16.16: MAX_STUN_MESSAGE not found")
    v = c.get("v") if isinstance(c, dict) else c
    need = 20 + 2 * (4 + 764) + (4 + 8) + 24 + 8
    if isinstance(v, int) and v >= need:
        r.ok({"MAX_STUN_MESSAGE": v, ">=": need})
    else:
        r.violate("transports::ice", "const:MAX_STUN_MESSAGE", "src/transports/ice/mod.rs",
                  "MAX_STUN_MESSAGE = %s is smaller than a 401 response with 763-byte REALM and NONCE (%d bytes): it is truncated on receive" % (v, need))
    return r


def run(ctx):
    return [r16_1(ctx), r16_2(ctx), r16_3(ctx), r16_4(ctx), r16_5(ctx), r16_6(ctx), r16_7(ctx), r16_8(ctx), r16_9(ctx), r16_10(ctx), r16_11(ctx), r16_12(ctx), r16_13(ctx), r16_14(ctx), r16_15(ctx), r16_16(ctx)]
