"""Read-only model of the MIR facts: bodies, CFG, value graph ("terms"),
edge predicates, call graph.  Pure python3 stdlib.

Terms are nested tuples:
  ('arg', name)                 function parameter (or captured upvar `self` ...)
  ('var', name)                 user variable / temp with several definitions
  ('const', value, text)
  ('item', path, value)         named const item
  ('fn', path)
  ('field', base, name)
  ('variant', base, name)       downcast
  ('index', base, idx)
  ('call', path, (args...))     path = resolved callee def path
  ('await', inner)              value produced by `.await` on inner
  ('bin', op, a, b) ('un', op, a) ('cast', a, ty)
  ('discr', place)
  ('agg', adt, variant, (ops...)) ('tuple', (ops...)) ('array', (ops...))
  ('closure', def, (ops...))
  ('phi', (terms...))
  ('unknown', text)
Refs and derefs are erased (a reference to a place is the place)."""
import json

TRANSPARENT_CALLS = (
    "std::ops::Deref::deref",
    "std::ops::DerefMut::deref_mut",
    "std::clone::Clone::clone",
    "std::convert::AsRef::as_ref",
    "std::convert::AsMut::as_mut",
    "std::borrow::Borrow::borrow",
    "std::borrow::BorrowMut::borrow_mut",
    "std::convert::Into::into",
    "std::convert::From::from",
    "std::future::IntoFuture::into_future",
    "std::pin::Pin::<Ptr>::new_unchecked",
    "std::pin::Pin::<Ptr>::new",
    "std::pin::Pin::<Ptr>::as_mut",
    "std::pin::Pin::<&'a mut T>::get_mut",
    "std::option::Option::<T>::as_ref",
    "std::option::Option::<T>::as_mut",
    "std::option::Option::<T>::as_deref",
    "std::result::Result::<T, E>::as_ref",
    "std::iter::IntoIterator::into_iter",
    "std::ops::Try::branch",
    "std::sync::Arc::<T, A>::as_ptr",
)


class Body:
    def __init__(self, rec):
        self.rec = rec
        self.name = rec["def"]
        self.blocks = rec["blocks"]
        self.locals = rec["locals"]
        self.argc = rec["argc"]
        self.parent = rec.get("parent")
        self.file = rec["sp"]["f"]
        self.line = rec["sp"]["l"]
        self.is_closure = rec.get("dk") == "Closure"
        self.coroutine = rec.get("coroutine")
        self.promoted = rec.get("promoted", [])
        self._defs = None
        self._succ = None
        self._pred = None
        self._term_cache = {}
        self.cleanup = set(i for i, b in enumerate(self.blocks) if b.get("cl"))

    # ---------------------------------------------------------------- CFG
    def succ_edges(self, bi):
        """non-unwind successor edges of block bi: list of (target, label)
        label: ('sw', value) | ('else', (values...)) | None"""
        if self._succ is None:
            self._build_cfg()
        return self._succ[bi]

    def preds(self, bi):
        if self._pred is None:
            self._build_cfg()
        return self._pred[bi]

    def _build_cfg(self):
        succ = []
        pred = [[] for _ in self.blocks]
        for i, b in enumerate(self.blocks):
            t = b["t"]
            k = t["k"]
            out = []
            if i in self.cleanup:
                succ.append(out)
                continue
            if k == "goto":
                out.append((t["to"], None))
            elif k == "switch":
                vals = tuple(v for v, _ in t["ts"])
                for v, tgt in t["ts"]:
                    out.append((tgt, ("sw", v)))
                out.append((t["else"], ("else", vals)))
            elif k in ("call", "drop", "assert"):
                if t.get("to") is not None:
                    out.append((t["to"], None))
            elif k == "yield":
                out.append((t["to"], None))
            # ret, unreachable, resume, abort, codrop, tailcall: no successors
            succ.append(out)
            for tgt, _ in out:
                pred[tgt].append(i)
        self._succ = succ
        self._pred = pred

    def n_blocks(self):
        return len(self.blocks)

    def reachable(self, starts=(0,), cut_edges=(), cut_blocks=(), removed_edges=()):
        """blocks reachable from starts without taking an edge in cut_edges
        ((from,to) pairs) and without entering cut_blocks."""
        cut_edges = set(cut_edges) | set(removed_edges)
        cut_blocks = set(cut_blocks)
        seen = set()
        stack = [s for s in starts if s not in cut_blocks]
        parent = {}
        while stack:
            b = stack.pop()
            if b in seen:
                continue
            seen.add(b)
            for tgt, _lab in self.succ_edges(b):
                if (b, tgt) in cut_edges or tgt in cut_blocks or tgt in seen:
                    continue
                parent.setdefault(tgt, b)
                stack.append(tgt)
        self._last_parent = parent
        return seen

    def path_to(self, starts, target, cut_edges=(), cut_blocks=()):
        """one path (list of blocks) from any start to target avoiding cuts, or None"""
        cut_edges = set(cut_edges)
        cut_blocks = set(cut_blocks)
        from collections import deque
        q = deque(s for s in starts if s not in cut_blocks)
        parent = {s: None for s in q}
        while q:
            b = q.popleft()
            if b == target:
                path = []
                while b is not None:
                    path.append(b)
                    b = parent[b]
                return list(reversed(path))
            for tgt, _ in self.succ_edges(b):
                if (b, tgt) in cut_edges or tgt in cut_blocks or tgt in parent:
                    continue
                parent[tgt] = b
                q.append(tgt)
        return None

    def back_edges(self):
        """DFS back edges from entry (natural-loop approximation)."""
        if hasattr(self, "_back"):
            return self._back
        color = {}
        back = set()
        stack = [(0, iter(self.succ_edges(0)))]
        color[0] = 1
        while stack:
            b, it = stack[-1]
            adv = False
            for tgt, _ in it:
                c = color.get(tgt, 0)
                if c == 0:
                    color[tgt] = 1
                    stack.append((tgt, iter(self.succ_edges(tgt))))
                    adv = True
                    break
                elif c == 1:
                    back.add((b, tgt))
            if not adv:
                color[b] = 2
                stack.pop()
        self._back = back
        return back

    def loops(self):
        """list of (header, set(blocks)) natural loops"""
        if hasattr(self, "_loops"):
            return self._loops
        loops = {}
        for (src, hdr) in self.back_edges():
            body = loops.setdefault(hdr, {hdr})
            stack = [src]
            while stack:
                n = stack.pop()
                if n in body:
                    continue
                body.add(n)
                stack.extend(self.preds(n))
        self._loops = sorted(loops.items())
        return self._loops

    def block_line(self, bi):
        return self.blocks[bi]["t"]["sp"]["l"]

    def where(self, bi, si=None):
        b = self.blocks[bi]
        if si is not None and si < len(b["s"]) and "l" in b["s"][si]:
            return "%s:%d" % (self.file, b["s"][si]["l"])
        sp = b["t"]["sp"]
        return "%s:%d" % (sp["f"], sp["l"])

    # ---------------------------------------------------------------- defs
    def defs(self):
        """local -> list of ('s', bi, si) / ('t', bi) definition sites that write
        the whole local (no projection)."""
        if self._defs is not None:
            return self._defs
        d = {}
        partial = {}
        deref_w = {}
        for bi, b in enumerate(self.blocks):
            if bi in self.cleanup:
                continue
            for si, s in enumerate(b["s"]):
                if s["k"] == "as":
                    p = s["p"]
                    if "p" not in p:
                        d.setdefault(p["l"], []).append(("s", bi, si))
                    elif p["p"][0] == "*":
                        deref_w.setdefault(p["l"], []).append(("s", bi, si))
                    else:
                        partial.setdefault(p["l"], []).append(("s", bi, si))
            t = b["t"]
            if t["k"] == "call":
                p = t["dst"]
                if "p" not in p:
                    d.setdefault(p["l"], []).append(("t", bi))
                elif p["p"][0] == "*":
                    deref_w.setdefault(p["l"], []).append(("t", bi))
                else:
                    partial.setdefault(p["l"], []).append(("t", bi))
            elif t["k"] == "yield":
                pass
        self._defs = d
        self._partial = partial
        self._deref_written = deref_w
        # user variables that are mutably borrowed: their content changes after the definition
        mb = set()
        for bi, b in enumerate(self.blocks):
            if bi in self.cleanup:
                continue
            for s in b["s"]:
                if s["k"] == "as" and s["rv"]["r"] == "ref" and s["rv"].get("mut"):
                    p = s["rv"]["p"]
                    if "*" not in p.get("p", ()):
                        mb.add(p["l"])
        self._mut_borrowed = mb
        return d

    def var_def_terms(self, l):
        """terms of every whole-local definition of local l"""
        return [self._term_def(d, 0, (l,)) for d in self.defs().get(l, [])]

    @staticmethod
    def _is_buffer_ty(ty):
        return ty.startswith("std::vec::Vec<") or ty.startswith("bytes::BytesMut") or ty.startswith("bytes::Bytes") or ty.startswith("[") \
            or ty.startswith("std::string::String") or ty.startswith("std::collections::")

    def local_name(self, l):
        loc = self.locals[l]
        return loc.get("n") or "_%d" % l

    def local_ty(self, l):
        return self.locals[l]["ty"]

    # ---------------------------------------------------------------- terms
    def term_local(self, l, depth=0, seen=()):
        if l in self._term_cache:
            return self._term_cache[l]
        if l in seen:
            return ("var", self.local_name(l), l)
        t = self._term_local(l, depth, seen + (l,))
        self._term_cache[l] = t
        return t

    def _term_local(self, l, depth, seen):
        defs = self.defs().get(l, [])
        name = self.locals[l].get("n")
        if 1 <= l <= self.argc and not defs:
            if l == 1 and self.is_closure and not name:
                return ("env",)
            return ("arg", name or "_%d" % l)
        if l in self._partial:
            # written through projections too: a mutable aggregate
            if len(defs) != 1 or self.locals[l].get("u"):
                return ("var", self.local_name(l), l)
        if len(defs) == 1:
            if self.locals[l].get("u") and l in self._mut_borrowed and self._is_buffer_ty(self.locals[l]["ty"]):
                return ("var", self.local_name(l), l)
            return self._term_def(defs[0], depth, seen)
        if len(defs) == 0:
            return ("var", self.local_name(l), l)
        if self.locals[l].get("u") or len(defs) > 6:
            return ("var", self.local_name(l), l)
        return ("phi", tuple(self._term_def(d, depth, seen) for d in defs))

    def _term_def(self, d, depth, seen):
        if d[0] == "s":
            s = self.blocks[d[1]]["s"][d[2]]
            return self.term_rvalue(s["rv"], depth + 1, seen)
        t = self.blocks[d[1]]["t"]
        return self.term_call(t, depth + 1, seen)

    def term_call(self, t, depth=0, seen=()):
        f = t["f"]
        path = callee_path(f)
        args = tuple(self.term_operand(a, depth + 1, seen) for a in t["a"])
        if path is None:
            return ("call", "<indirect>", (self.term_operand(f, depth + 1, seen),) + args)
        base = f.get("fn")
        if path.endswith("box_assume_init_into_vec_unsafe") and t["a"] and t["a"][0]["k"] in ("mv", "cp") and "p" not in t["a"][0]["p"]:
            # `vec![a, b]`: a Box<[T; N]> written through its pointer, then turned into a Vec
            src = self._box_source(t["a"][0]["p"]["l"])
            if src is not None:
                return src
        if (base in TRANSPARENT_CALLS or path in TRANSPARENT_CALLS) and args:
            return args[0]
        if base is not None and base.endswith("Future::poll"):
            path = base  # keep the await idiom recognisable (resolution points at the coroutine body)
        return ("call", path, args)

    def _box_source(self, l, hops=4):
        """contents written through `*box` for the box local l (following plain moves)"""
        self.defs()
        cur = l
        for _ in range(hops):
            w = self._deref_written.get(cur)
            if w:
                vals = []
                for d in w:
                    if d[0] == "s":
                        vals.append(self.term_rvalue(self.blocks[d[1]]["s"][d[2]]["rv"]))
                return ("vec", tuple(vals))
            ds = self._defs.get(cur, [])
            if len(ds) == 1 and ds[0][0] == "s":
                rv = self.blocks[ds[0][1]]["s"][ds[0][2]]["rv"]
                if rv["r"] == "use" and rv["o"]["k"] in ("mv", "cp") and "p" not in rv["o"]["p"]:
                    cur = rv["o"]["p"]["l"]
                    continue
                if rv["r"] == "cast" and rv["o"]["k"] in ("mv", "cp") and "p" not in rv["o"]["p"]:
                    cur = rv["o"]["p"]["l"]
                    continue
            break
        return None

    def term_operand(self, o, depth=0, seen=()):
        k = o["k"]
        if k in ("cp", "mv"):
            return self.term_place(o["p"], depth, seen)
        if k == "c":
            if "fn" in o:
                return ("fn", o.get("res") or o["fn"])
            if "prom" in o:
                pt = self.term_promoted(o["prom"])
                if pt is not None:
                    return pt
            if "item" in o:
                return ("item", o["item"], o.get("v"))
            return ("const", o.get("v"), o.get("t"))
        return ("unknown", o.get("t", "?"))

    def term_promoted(self, n):
        try:
            pb = self.promoted[n]
        except IndexError:
            return None
        # promoted body: evaluate `_0` of a tiny straight-line body
        sub = Body({"def": self.name + "::promoted[%d]" % n, "blocks": pb["blocks"], "locals": pb["locals"],
                    "argc": 0, "sp": self.rec["sp"], "promoted": []})
        try:
            return sub.term_local(0)
        except Exception:
            return None

    def term_place(self, p, depth=0, seen=()):
        base = self.term_local(p["l"], depth, seen)
        for e in p.get("p", ()):
            if e == "*":
                continue
            if isinstance(e, dict):
                if "f" in e:
                    base = self._field(base, e["f"])
                elif "v" in e:
                    base = ("variant", base, e["v"])
                elif "ix" in e:
                    base = ("index", base, self.term_local(e["ix"], depth + 1, seen))
                elif "cix" in e:
                    base = ("index", base, ("const", e["cix"], str(e["cix"])))
                elif "sub" in e:
                    base = ("subslice", base, tuple(e["sub"]))
        return base

    def _field(self, base, name):
        # projection of a freshly built tuple/aggregate: pick the operand
        if base[0] == "tuple" and name.isdigit() and int(name) < len(base[1]):
            return base[1][int(name)]
        # checked arithmetic: (a op b).0 is the value, .1 the overflow flag
        if base[0] == "bin" and base[1].endswith("WithOverflow"):
            if name == "0":
                return ("bin", base[1][:-12], base[2], base[3])
            return ("overflow", base)
        # await: ((poll(fut) as Ready).0)
        if base[0] == "variant" and base[2] == "Ready" and name == "0":
            inner = base[1]
            if inner[0] == "call" and inner[1].endswith("Future::poll") and inner[2]:
                return ("await", inner[2][0])
        # `?`: ((branch(x) as Continue).0) -> ok(x); Break.0 -> residual(x)
        if base[0] == "variant" and base[2] in ("Continue", "Break") and name == "0":
            return ("try_" + base[2].lower(), base[1])
        return ("field", base, name)

    def term_rvalue(self, rv, depth=0, seen=()):
        r = rv["r"]
        if r == "use":
            return self.term_operand(rv["o"], depth, seen)
        if r in ("ref", "rawptr"):
            return self.term_place(rv["p"], depth, seen)
        if r == "bin":
            return ("bin", rv["op"], self.term_operand(rv["a"], depth + 1, seen),
                    self.term_operand(rv["b"], depth + 1, seen))
        if r == "un":
            return ("un", rv["op"], self.term_operand(rv["o"], depth + 1, seen))
        if r == "cast":
            inner = self.term_operand(rv["o"], depth + 1, seen)
            ck = rv.get("ck", "")
            if ck.startswith("PointerCoercion") or ck.startswith("Transmute") or ck.startswith("PtrToPtr"):
                return inner
            o = rv["o"]
            src = o.get("ty", "") if o.get("k") == "c" else (self.locals[o["p"]["l"]]["ty"] if "p" in o and "p" not in o["p"] else "")
            return ("cast", inner, rv["ty"], src)
        if r == "discr":
            return ("discr", self.term_place(rv["p"], depth + 1, seen), rv.get("adt", ""),
                    tuple(sorted((int(k), v) for k, v in rv.get("vars", {}).items())))
        if r == "agg":
            ops = tuple(self.term_operand(o, depth + 1, seen) for o in rv["ops"])
            ak = rv["ak"]
            if ak == "adt":
                return ("agg", rv["adt"], rv["variant"], ops)
            if ak == "tuple":
                return ("tuple", ops)
            if ak == "array":
                return ("array", ops)
            if ak in ("closure", "coroutine", "coroutine_closure"):
                return ("closure", rv["def"], ops)
            return ("agg", ak, "", ops)
        if r == "repeat":
            return ("repeat", self.term_operand(rv["o"], depth + 1, seen), rv["n"])
        return ("unknown", rv.get("t", r))

    # ------------------------------------------------------- edge predicates
    def switch_info(self, bi):
        """for a switch block: (term of discriminant, list of (target, label, meaning))
        meaning: for bool: True/False; for enum discr: variant name or ('not', names);
        else the integer value / ('not', values)"""
        t = self.blocks[bi]["t"]
        if t["k"] != "switch":
            return None
        term = self.term_operand(t["d"])
        out = []
        dty = None
        d = t["d"]
        if d["k"] in ("cp", "mv") and "p" not in d["p"]:
            dty = self.local_ty(d["p"]["l"])
        elif d["k"] == "c":
            dty = d.get("ty")
        vals = [v for v, _ in t["ts"]]
        names = None
        if term[0] == "discr":
            names = dict(term[3])
        for v, tgt in t["ts"]:
            if names is not None:
                out.append((tgt, ("sw", v), names.get(v, v)))
            elif dty == "bool":
                out.append((tgt, ("sw", v), bool(v)))
            else:
                out.append((tgt, ("sw", v), v))
        if names is not None:
            rest = [n for k, n in sorted(names.items()) if k not in vals]
            if len(rest) == 1:
                m = rest[0]
            else:
                m = ("not", tuple(names.get(v, v) for v in vals))
        elif dty == "bool" and len(vals) == 1:
            m = not bool(vals[0])
        else:
            m = ("not", tuple(vals))
        out.append((t["else"], ("else", tuple(vals)), m))
        return term, out

    # ---------------------------------------------------------------- sites
    def calls(self):
        """yield (bi, terminator, callee_path) for every call terminator in non-cleanup blocks"""
        for bi, b in enumerate(self.blocks):
            if bi in self.cleanup:
                continue
            t = b["t"]
            if t["k"] == "call":
                yield bi, t, callee_path(t["f"])

    def assigns(self):
        for bi, b in enumerate(self.blocks):
            if bi in self.cleanup:
                continue
            for si, s in enumerate(b["s"]):
                if s["k"] == "as":
                    yield bi, si, s


def callee_path(f):
    if f.get("k") == "c" and "fn" in f:
        return f.get("res") or f["fn"]
    return None


def callee_generic(f):
    if f.get("k") == "c" and "fn" in f:
        return f["fn"]
    return None


# ------------------------------------------------------------------ term utils
def walk(term):
    """pre-order iteration over distinct sub-terms (terms are DAGs: shared
    sub-terms are visited once)"""
    stack = [term]
    seen = set()
    while stack:
        t = stack.pop()
        if not isinstance(t, tuple) or id(t) in seen:
            continue
        seen.add(id(t))
        if t and isinstance(t[0], str):
            yield t
            for x in t[1:]:
                if isinstance(x, tuple):
                    stack.append(x)
        else:
            for y in t:
                if isinstance(y, tuple):
                    stack.append(y)


def int_value(term):
    """evaluate small constant integer terms: const, named const item, casts and +/- of those"""
    if not isinstance(term, tuple):
        return None
    k = term[0]
    if k == "const":
        return term[1] if isinstance(term[1], int) else None
    if k == "item":
        return term[2] if isinstance(term[2], int) else None
    if k == "cast":
        return int_value(term[1])
    if k == "bin" and term[1] in ("Add", "Sub", "BitOr", "BitAnd", "Mul", "Shl"):
        a, b = int_value(term[2]), int_value(term[3])
        if a is None or b is None:
            return None
        return {"Add": a + b, "Sub": a - b, "BitOr": a | b, "BitAnd": a & b, "Mul": a * b, "Shl": a << b if b < 64 else None}[term[1]]
    return None


def has(term, pred):
    return any(pred(t) for t in walk(term))


def has_call(term, suffix):
    return has(term, lambda t: t[0] == "call" and t[1].endswith(suffix))


def has_field(term, name):
    return has(term, lambda t: t[0] == "field" and t[2] == name)


def field_path(term):
    """('field',('field',('arg','self'),'a'),'b') -> 'self.a.b' ; None if not a pure path"""
    parts = []
    t = term
    while True:
        if t[0] == "field":
            parts.append(t[2])
            t = t[1]
        elif t[0] == "variant":
            t = t[1]
        elif t[0] in ("arg", "var"):
            parts.append(t[1])
            break
        elif t[0] == "env":
            break
        elif t[0] == "await":
            t = t[1]
        else:
            return None
    return ".".join(reversed(parts))


def show(term, maxlen=400):
    out = []
    budget = [maxlen]
    _emit(term, out, budget)
    s = "".join(out)
    return s if len(s) <= maxlen else s[:maxlen] + "…"


def _emit(t, out, budget):
    if budget[0] <= 0:
        return
    if not isinstance(t, tuple):
        s = str(t)
        out.append(s)
        budget[0] -= len(s)
        return

    def lit(s):
        out.append(s)
        budget[0] -= len(s)

    def seq(items, sep=", "):
        for i, a in enumerate(items):
            if budget[0] <= 0:
                return
            if i:
                lit(sep)
            _emit(a, out, budget)

    k = t[0]
    if k in ("arg", "var"):
        lit(t[1])
    elif k == "env":
        lit("$env")
    elif k == "const":
        lit(str(t[1]) if t[1] is not None else str(t[2]))
    elif k == "item":
        lit("%s=%s" % (t[1], t[2]))
    elif k == "fn":
        lit("fn:" + t[1])
    elif k == "field":
        _emit(t[1], out, budget); lit("." + t[2])
    elif k == "variant":
        lit("("); _emit(t[1], out, budget); lit(" as %s)" % t[2])
    elif k == "index":
        _emit(t[1], out, budget); lit("["); _emit(t[2], out, budget); lit("]")
    elif k == "call":
        lit(t[1] + "("); seq(t[2]); lit(")")
    elif k in ("await", "try_continue", "try_break", "overflow"):
        lit(k + "("); _emit(t[1], out, budget); lit(")")
    elif k == "bin":
        lit("("); _emit(t[2], out, budget); lit(" %s " % t[1]); _emit(t[3], out, budget); lit(")")
    elif k == "un":
        lit(t[1] + "("); _emit(t[2], out, budget); lit(")")
    elif k == "cast":
        lit("("); _emit(t[1], out, budget); lit(" as %s)" % t[2])
    elif k == "discr":
        lit("discr("); _emit(t[1], out, budget); lit(")")
    elif k == "agg":
        lit("%s::%s{" % (t[1], t[2])); seq(t[3]); lit("}")
    elif k in ("tuple", "array", "vec"):
        lit(k + "("); seq(t[1]); lit(")")
    elif k == "closure":
        lit("closure<%s>(" % t[1]); seq(t[2]); lit(")")
    elif k == "phi":
        lit("phi("); seq(t[1], " | "); lit(")")
    elif k == "repeat":
        lit("repeat("); _emit(t[1], out, budget); lit(", %s)" % (t[2],))
    else:
        lit(k + "("); seq([x for x in t[1:]]); lit(")")


# ------------------------------------------------------------------ Facts
class Facts:
    def __init__(self, path):
        self.path = path
        self._offsets = {}
        self.adts = {}
        self.consts = {}
        self.impls = []
        self.meta = None
        self._bodies = {}
        self.order = []
        with open(path, "rb") as fh:
            off = 0
            for line in fh:
                n = len(line)
                if line.startswith(b'{"def":'):
                    end = line.index(b'","rec":"')
                    name = json.loads(line[7:end + 1].decode())
                    kind_start = end + 9
                    kind = line[kind_start:line.index(b'"', kind_start)].decode()
                    if kind == "body":
                        self._offsets[name] = (off, n)
                        self.order.append(name)
                    else:
                        rec = json.loads(line)
                        if kind == "adt":
                            self.adts[name] = rec
                        elif kind == "const":
                            self.consts[name] = rec
                        elif kind == "impl":
                            self.impls.append(rec)
                else:
                    rec = json.loads(line)
                    if rec.get("rec") == "meta":
                        self.meta = rec
                off += n
        if self.meta is None:
            raise RuntimeError("facts file incomplete (no meta record): " + path)

    def has_body(self, name):
        return name in self._offsets

    def body(self, name):
        b = self._bodies.get(name)
        if b is None:
            off, n = self._offsets[name]
            with open(self.path, "rb") as fh:
                fh.seek(off)
                rec = json.loads(fh.read(n))
            b = Body(rec)
            self._bodies[name] = b
        return b

    def bodies(self, prefix=None, pred=None):
        for name in self.order:
            if prefix is not None and not (name.startswith(prefix) or name.startswith("<" + prefix)):
                continue          # ("<prefix..": trait impls such as `<transports::sctp::X as Drop>::drop`)
            if pred is not None and not pred(name):
                continue
            yield self.body(name)

    def all_bodies(self):
        return self.bodies()

    def family(self, name):
        """the body `name` plus all closure/coroutine bodies nested in it"""
        out = []
        for n in self.order:
            if n == name or n.startswith(name + "::{"):
                out.append(self.body(n))
        return out

    def stats(self):
        nb = 0
        nblocks = 0
        ncalls = 0
        for b in self.all_bodies():
            nb += 1
            nblocks += len(b.blocks)
            ncalls += sum(1 for _ in b.calls())
        return {"bodies": nb, "blocks": nblocks, "calls": ncalls}
