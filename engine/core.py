"""Rule infrastructure: context, results, generic rule kinds (K1..K6 helpers),
known-findings matching, evidence writing."""
import json
import os
import re
import sys
import time

from . import factsrun, mir
from .factsrun import CheckerError

VERIF = factsrun.VERIF


class Violation:
    def __init__(self, rule, fn, site, where, msg, ordinal=0, path=None):
        self.rule = rule
        self.fn = fn
        self.site = site
        self.ordinal = ordinal
        self.where = where
        self.msg = msg
        self.path = path

    @property
    def key(self):
        return "%s|%s|%s|%d" % (self.rule, self.fn, self.site, self.ordinal)

    def to_json(self):
        return {"key": self.key, "rule": self.rule, "function": self.fn, "site": self.site,
                "where": self.where, "message": self.msg, "path": self.path}


class RuleResult:
    def __init__(self, rule_id, kind, text):
        self.rule_id = rule_id
        self.kind = kind
        self.text = text
        self.scope = []
        self.obligations = 0
        self.discharged = 0
        self.violations = []
        self.samples = []
        self.notes = []
        self.sites = 0
        self.floor = None
        self._ord = {}

    def ok(self, sample=None):
        self.obligations += 1
        self.discharged += 1
        if sample is not None and len(self.samples) < 6:
            self.samples.append(sample)

    def violate(self, fn, site, where, msg, path=None):
        self.obligations += 1
        k = (fn, site)
        o = self._ord.get(k, 0)
        self._ord[k] = o + 1
        self.violations.append(Violation(self.rule_id, fn, site, where, msg, o, path))

    def need(self, what, found, floor):
        """fail closed when fewer sites than counted by hand are found"""
        self.sites += found
        self.floor = (self.floor or 0) + floor
        if found < floor and not self.violations:
            # (when the rule already has violations to report, they explain the missing sites better than a fail-closed error)
            raise CheckerError("rule %s: anchor/floor missing: %s: found %d, expected at least %d"
                               % (self.rule_id, what, found, floor))

    def to_json(self):
        return {"rule": self.rule_id, "kind": self.kind, "text": self.text, "scope": self.scope,
                "sites_found": self.sites, "floor": self.floor,
                "obligations": self.obligations, "discharged": self.discharged,
                "violations": [v.to_json() for v in self.violations],
                "samples": self.samples, "notes": self.notes}


class Ctx:
    def __init__(self, prop, tier, config="default", force=False):
        self.prop = prop
        self.tier = tier
        self.t0 = time.time()
        path, key, info = factsrun.ensure_facts(config, force=force)
        self.facts_info = info
        self.facts = mir.Facts(path)
        self.config = config

    def body(self, name):
        if not self.facts.has_body(name):
            raise CheckerError("anchor missing: function %s not found in the analysed build" % name)
        return self.facts.body(name)

    def family(self, name):
        if not self.facts.has_body(name):
            raise CheckerError("anchor missing: function %s not found in the analysed build" % name)
        return self.facts.family(name)

    def main_body(self, name):
        """for an async fn: the coroutine body holding the code; else the fn body"""
        b = self.body(name)
        co = name + "::{closure#0}"
        if b.rec.get("async") and self.facts.has_body(co):
            return self.facts.body(co)
        return b


# ============================================================ site finders
def calls_to(body, pred):
    """list of (bi, terminator, path) for calls whose resolved or generic path satisfies pred"""
    out = []
    for bi, t, path in body.calls():
        gp = mir.callee_generic(t["f"])
        if (path and pred(path)) or (gp and gp != path and pred(gp)):
            out.append((bi, t, path or gp))
    return out


def suffix(*sfx):
    return lambda p: any(p == s or p.endswith(s) for s in sfx)


def field_writes(body, name_pred, deep=False):
    """assignments (bi, si, stmt) whose destination place ends in a field satisfying name_pred;
    also call terminators writing their result into such a place: (bi, None, term).
    deep=True additionally reports (a) writes to a sub-place of such a field (`x.f.g = ..`, `x.f[i] = ..`) and
    (b) mutable borrows `&mut x.f..` (any later write through the borrow - Option::insert/replace/
    get_or_insert, mem::swap ... - happens no earlier than the borrow) as synthetic statements whose
    destination is the borrowed place and whose rvalue is {"r": "mutborrow"}."""
    out = []

    def hit(p):
        if not deep:
            last = _last_field(p)
            return last is not None and name_pred(last)
        return any(isinstance(e, dict) and "f" in e and name_pred(e["f"]) for e in p.get("p", ()))
    for bi, si, s in body.assigns():
        if hit(s["p"]):
            out.append((bi, si, s))
        elif deep:
            rv = s["rv"]
            if rv["r"] in ("ref", "addr", "rawptr") and rv.get("mut") and hit(rv["p"]):
                out.append((bi, si, {"k": "as", "p": rv["p"], "rv": {"r": "mutborrow"}, "l": s.get("l")}))
    for bi, t, _ in body.calls():
        if hit(t["dst"]):
            out.append((bi, None, t))
    return out


def named_field(p, name_pred):
    """the first field in place p's projection that satisfies name_pred (for deep field_writes results)"""
    for e in p.get("p", ()):
        if isinstance(e, dict) and "f" in e and name_pred(e["f"]):
            return e["f"]
    return None


def _last_field(p):
    for e in reversed(p.get("p", ())):
        if isinstance(e, dict) and "f" in e:
            return e["f"]
        if e == "*":
            continue
        if isinstance(e, dict) and "v" in e:
            continue
        return None
    return None


def aggregates(body, adt_pred, variant=None, in_clone=False):
    """assignments constructing adt (optionally a given variant): (bi, si, stmt).
    A derived/implemented Clone::clone of the type itself re-creates a value that already exists: not a construction."""
    out = []
    if body.name.endswith("std::clone::Clone>::clone") and not in_clone:
        return out
    for bi, si, s in body.assigns():
        rv = s["rv"]
        if rv["r"] == "agg" and rv.get("ak") == "adt" and adt_pred(rv["adt"]):
            if variant is None or rv["variant"] == variant:
                out.append((bi, si, s))
    return out


def method_on_field(body, method_pred, field_name):
    """calls of method whose first argument's term is a path ending in .field_name"""
    out = []
    for bi, t, path in calls_to(body, method_pred):
        if not t["a"]:
            continue
        a0 = body.term_operand(t["a"][0])
        fp = mir.field_path(a0)
        if fp is not None and fp.split(".")[-1] == field_name:
            out.append((bi, t, path))
    return out


# ============================================================ K1 cut-set guard
def guard_edges(body, pred):
    """all switch out-edges (from,to) for which pred(term, meaning, body, bi, to) holds"""
    out = []
    for bi, b in enumerate(body.blocks):
        if bi in body.cleanup or b["t"]["k"] != "switch":
            continue
        term, outs = body.switch_info(bi)
        # an edge is identified by (from, to): when several switch values lead to the same block (`A | B =>`), the pair
        # is a guard edge only if EVERY value that takes it satisfies the predicate
        by_tgt = {}
        for tgt, _lab, meaning in outs:
            by_tgt.setdefault(tgt, []).append(bool(pred(term, meaning, body, bi, tgt)))
        for tgt, oks in by_tgt.items():
            if all(oks):
                out.append((bi, tgt))
    return out


def lift_guards(body, guards):
    """guard edges implied through a boolean temporary. `matches!(..)`, `a && b` and `let ok = if .. {true} else {false}`
    are lowered to constant stores into a temporary inside the branches and a later switch on that temporary. If every
    store of the value that selects the edge S->T lies behind the given guard edges (unreachable from the entry without
    crossing one), then S->T can only be taken after a guard edge was crossed: it is added. Sound refinement (only
    infeasible paths are removed); iterated to a fixpoint."""
    guards = set(guards)
    defs = body.defs()

    def const_defs(l, hops=2):
        """[(def block, int value)] if every whole definition of l is an integer constant (looking through one copy / Not)"""
        out = []
        for d in defs.get(l, []):
            if d[0] != "s":
                return None
            st = body.blocks[d[1]]["s"][d[2]]
            v = mir.int_value(body.term_rvalue(st["rv"]))
            if v is None:
                rv = st["rv"]
                src = None
                if hops and rv.get("r") == "use" and rv["o"]["k"] in ("cp", "mv") and "p" not in rv["o"]["p"]:
                    src, neg = rv["o"]["p"]["l"], False
                elif hops and rv.get("r") == "un" and rv.get("op") == "Not" and rv["o"]["k"] in ("cp", "mv") and "p" not in rv["o"]["p"]:
                    src, neg = rv["o"]["p"]["l"], True
                if src is None:
                    return None
                sub = const_defs(src, hops - 1)
                if sub is None:
                    return None
                out += [(bi, (1 - x) if neg else x) for bi, x in sub]
            else:
                out.append((d[1], int(v)))
        return out or None
    changed = True
    while changed:
        changed = False
        for sb, blk in enumerate(body.blocks):
            if sb in body.cleanup or blk["t"]["k"] != "switch":
                continue
            d = blk["t"]["d"]
            if d["k"] not in ("cp", "mv") or "p" in d["p"]:
                continue
            cd = const_defs(d["p"]["l"])
            if not cd:
                continue
            _term, outs = body.switch_info(sb)
            for tgt, _lab, meaning in outs:
                if (sb, tgt) in guards:
                    continue
                if isinstance(meaning, bool):
                    sel = [bi for bi, v in cd if bool(v) is meaning]
                elif isinstance(meaning, int):
                    sel = [bi for bi, v in cd if v == meaning]
                elif isinstance(meaning, tuple) and meaning and meaning[0] == "not":
                    sel = [bi for bi, v in cd if v not in meaning[1]]
                else:
                    continue
                if sel and all(body.path_to([0], bi, cut_edges=guards) is None for bi in sel):
                    guards.add((sb, tgt))
                    changed = True
    return list(guards)


def enclosing_loop_headers(body, bi):
    return [h for h, blocks in body.loops() if bi in blocks]


def k1(body, site_blocks, guards, fresh_per_iteration=False, extra_starts=()):
    """returns {site_block: path or None}.  path != None  <=>  the site is reachable from
    function entry (and, if fresh_per_iteration, from the header of every loop enclosing the
    site) without crossing any guard edge."""
    res = {}
    guards = set(guards)
    for sb in site_blocks:
        starts = [0] + list(extra_starts)
        if fresh_per_iteration:
            starts += enclosing_loop_headers(body, sb)
        path = None
        for st in starts:
            path = body.path_to([st], sb, cut_edges=guards)
            if path is not None:
                break
        res[sb] = path
    return res


def describe_path(body, path, maxn=12):
    if path is None:
        return None
    lines = []
    last = None
    for bi in path:
        l = body.block_line(bi)
        if l != last and l > 1:
            lines.append(l)
            last = l
    if len(lines) > maxn:
        lines = lines[:maxn // 2] + ["…"] + lines[-maxn // 2:]
    return "%s lines %s" % (body.file, "→".join(str(x) for x in lines))


# product reachability with correlated predicates -------------------------------
def k1_correlated(body, site_blocks, guards, pred_keys, kill_fields=()):
    """Like k1 but tracks the truth of up to a few named predicates: pred_keys is a
    function (term) -> key or None identifying a tracked predicate in a switch
    discriminant term.  A second test of the same key must agree with the first.
    A write to a place whose last field is in kill_fields forgets everything."""
    guards = set(guards)
    from collections import deque
    start = (0, ())
    q = deque([start])
    parent = {start: None}
    hits = {}
    sites = set(site_blocks)
    kills = set()
    if kill_fields:
        for bi, si, s in field_writes(body, lambda n: n in kill_fields):
            kills.add(bi)
    while q:
        st = q.popleft()
        bi, env = st
        if bi in sites and bi not in hits:
            path = []
            x = st
            while x is not None:
                path.append(x[0])
                x = parent[x]
            hits[bi] = list(reversed(path))
        if bi in kills:
            env = ()
        envd = dict(env)
        blk = body.blocks[bi]
        if blk["t"]["k"] == "switch":
            term, outs = body.switch_info(bi)
            key = pred_keys(term)
            for tgt, _lab, meaning in outs:
                if (bi, tgt) in guards:
                    continue
                nenv = env
                if key is not None:
                    m = _norm_meaning(meaning)
                    if key in envd:
                        if not _compatible(envd[key], m):
                            continue
                    else:
                        nd = dict(envd)
                        nd[key] = m
                        nenv = tuple(sorted(nd.items(), key=lambda kv: str(kv[0])))
                ns = (tgt, nenv)
                if ns not in parent:
                    parent[ns] = st
                    q.append(ns)
        else:
            for tgt, _ in body.succ_edges(bi):
                if (bi, tgt) in guards:
                    continue
                ns = (tgt, env)
                if ns not in parent:
                    parent[ns] = st
                    q.append(ns)
    return {sb: hits.get(sb) for sb in site_blocks}


def _norm_meaning(m):
    return m


def _compatible(a, b):
    """two meanings of the same predicate along one path"""
    if a == b:
        return True
    # ('not', (x,...)) vs concrete
    if isinstance(a, tuple) and a and a[0] == "not":
        if isinstance(b, tuple) and b and b[0] == "not":
            return True
        return b not in a[1]
    if isinstance(b, tuple) and b and b[0] == "not":
        return a not in b[1]
    return False


# ============================================================ K2 effect before Err
def err_return_blocks(body):
    """blocks that assign an Err into the return place (_0)"""
    out = []
    for bi, si, s in body.assigns():
        if s["p"]["l"] == 0 and "p" not in s["p"]:
            rv = s["rv"]
            if rv["r"] == "agg" and rv.get("ak") == "adt" and rv["adt"].endswith("result::Result") and rv["variant"] == "Err":
                out.append(bi)
    for bi, t, path in body.calls():
        if t["dst"]["l"] == 0 and "p" not in t["dst"] and path and "FromResidual" in path:
            out.append(bi)
    return sorted(set(out))


def reach_from(body, bi, cut_edges=()):
    """blocks reachable from the successors of bi (strictly after bi)"""
    starts = [t for t, _ in body.succ_edges(bi) if (bi, t) not in set(cut_edges)]
    return body.reachable(starts, cut_edges=cut_edges)


# ============================================================ known findings
def load_known():
    known = {}
    fixed = []
    p = os.path.join(VERIF, "KNOWN_FINDINGS.txt")
    if os.path.exists(p):
        for line in open(p):
            line = line.strip()
            if line.startswith("known:"):
                m = re.match(r"known:\s+property=(\S+)\s+key=(.*?)\s+::\s+(.*)$", line)
                if m:
                    known.setdefault(m.group(1), {})[m.group(2)] = m.group(3)
            elif line.startswith("fixed:"):
                fixed.append(line)
    return known, fixed


# ============================================================ finish
def finish(ctx, results, explanation, assumptions, trusted_base):
    prop = ctx.prop
    known, _fixed = load_known()
    known = known.get(prop, {})
    viol = []
    known_hits = []
    obligations = 0
    discharged = 0
    for r in results:
        obligations += r.obligations
        discharged += r.discharged
        for v in r.violations:
            if v.key in known:
                known_hits.append((v, known[v.key]))
            else:
                viol.append(v)
    for v, what in known_hits:
        print("KNOWN-FINDING: property=%s %s %s" % (prop, v.key, what))
    ev_dir = os.environ.get("VERIF_EVIDENCE_DIR") or os.path.join(VERIF, "evidence")
    os.makedirs(ev_dir, exist_ok=True)
    replay = os.path.join(ev_dir, "%s.violations.json" % prop)
    if viol:
        with open(replay, "w") as fh:
            json.dump({"property": prop, "facts": ctx.facts_info,
                       "violations": [v.to_json() for v in viol]}, fh, indent=1)
        for v in viol:
            print("  %s: [%s] %s :: %s" % (v.where, v.key, v.msg, v.path or ""))
        print("VIOLATION property=%s replay=%s" % (prop, replay))
    elif os.path.exists(replay):
        os.remove(replay)
    samples = []
    for r in results:
        for s in r.samples[:3]:
            samples.append({"rule": r.rule_id, "obligation": s})
    st = ctx.facts.stats() if ctx.tier == "thorough" else {"bodies": len(ctx.facts.order)}
    evidence = {
        "property_id": prop,
        "tier": ctx.tier,
        "seed": int(os.environ.get("VERIF_SEED", "0") or 0),
        "level": "other",
        "coverage": {
            "explanation": explanation,
            "obligations": obligations,
            "discharged": discharged,
            "known_findings": len(known_hits),
            "checker_cmd": "./check %s --tier %s" % (prop, ctx.tier),
            "trusted_base": trusted_base,
            "facts": dict(ctx.facts_info, **st),
            "rules": [r.to_json() for r in results],
            "samples": samples or [{"note": "no discharged obligation sample"}],
            "exhaustive": True,
        },
        "assumptions": assumptions,
        "wall_s": round(time.time() - ctx.t0, 2),
        "violations": len(viol),
    }
    with open(os.path.join(ev_dir, "%s.json" % prop), "w") as fh:
        json.dump(evidence, fh, indent=1)
    print("%s %s: %d rules, %d obligations, %d discharged, %d known findings, %d violations (facts %s, %s)"
          % (prop, ctx.tier, len(results), obligations, discharged, len(known_hits), len(viol),
             ctx.facts_info["hash"], "reused" if ctx.facts_info["reused"] else "fresh %.1fs" % ctx.facts_info["driver_s"]))
    return 1 if viol else 0


def ok_return_blocks(body):
    """blocks that assign an Ok(..) into the return place"""
    out = []
    for bi, si, s in body.assigns():
        if s["p"]["l"] == 0 and "p" not in s["p"]:
            rv = s["rv"]
            if rv["r"] == "agg" and rv.get("ak") == "adt" and rv["adt"].endswith("result::Result") and rv["variant"] == "Ok":
                out.append(bi)
    return sorted(set(out))


def match_table(body, discr_pred=None):
    """for `match x { V1 => c1, ... }`-shaped functions: {variant meaning: constant assigned to _0}.
    Follows the unique-successor chain from each switch target until an assignment to _0."""
    table = {}
    for bi, b in enumerate(body.blocks):
        if bi in body.cleanup or b["t"]["k"] != "switch":
            continue
        term, outs = body.switch_info(bi)
        if discr_pred is not None and not discr_pred(term):
            continue
        for tgt, _lab, meaning in outs:
            cur = tgt
            val = None
            for _ in range(12):
                blk = body.blocks[cur]
                found = False
                for s in blk["s"]:
                    if s["k"] == "as" and s["p"]["l"] == 0 and "p" not in s["p"]:
                        val = body.term_rvalue(s["rv"])
                        found = True
                if found:
                    break
                succ = body.succ_edges(cur)
                if len(succ) != 1:
                    break
                cur = succ[0][0]
            if val is not None:
                table[meaning] = val
        break
    return table


def lock_write_sites(body, field, methods=("::write", "::lock", "::borrow_mut")):
    """assignment statements that store through a guard obtained from <field>.write()/lock():
    returns [(bi, si, stmt, value_term)]"""
    out = []
    for bi, si, s in body.assigns():
        p = s["p"]
        if "p" not in p:
            continue
        base = body.term_local(p["l"])
        hit = False
        for t in mir.walk(base):
            if t[0] == "call" and any(t[1].endswith(m) for m in methods) and t[2]:
                fp = mir.field_path(t[2][0])
                if fp is not None and fp.split(".")[-1] == field:
                    hit = True
                    break
        if hit:
            out.append((bi, si, s, body.term_rvalue(s["rv"])))
    return out


def atomic_sites(body, field, op):
    """calls Atomic*::<op>(<path ending in .field>, ...) -> [(bi, term, args terms)]"""
    out = []
    for bi, t, path in body.calls():
        if not path or not path.startswith("std::sync::atomic::") or not path.endswith("::" + op):
            continue
        if not t["a"]:
            continue
        a0 = body.term_operand(t["a"][0])
        if a0[0] == "field" and a0[2] == field:
            out.append((bi, t, [body.term_operand(a) for a in t["a"]]))
    return out


def must_pass(body, site_block, via_blocks, starts=(0,)):
    """True iff every path from starts to site_block goes through one of via_blocks"""
    if site_block in via_blocks:
        return True
    return body.path_to(list(starts), site_block, cut_blocks=set(via_blocks)) is None


def failure_edges_of(body, call_bi):
    """switch edges that mean 'the call in block call_bi failed' (Err/Break/None of its result)"""
    ct = body.term_call(body.blocks[call_bi]["t"])

    def pred(term, meaning, *_):
        if term[0] == "discr" and meaning in ("Break", "Err", "None"):
            return mir.has(term[1], lambda x: x is ct or x == ct)
        if term[0] == "call" and term[1].endswith("::is_err") and meaning is True:
            return mir.has(term, lambda x: x == ct)
        if term[0] == "call" and term[1].endswith("::is_ok") and meaning is False:
            return mir.has(term, lambda x: x == ct)
        return False
    return guard_edges(body, pred)


def always_followed_by(body, from_block, via_blocks, cut_edges=()):
    """True iff no path from from_block reaches a `return` terminator without passing via_blocks"""
    via = set(via_blocks)
    if from_block in via:
        return True
    reach = body.reachable([t for t, _ in body.succ_edges(from_block)], cut_blocks=via, cut_edges=cut_edges)
    for bi in reach:
        if body.blocks[bi]["t"]["k"] == "ret":
            return False
    return True


def is_atomic_load(term, field):
    return (term[0] == "call" and term[1].startswith("std::sync::atomic::") and term[1].endswith("::load")
            and term[2] and term[2][0][0] == "field" and term[2][0][2] == field)


# ============================================================ K5 lock-held
LOCK_METHODS = ("::lock", "::try_lock", "::write", "::read", "::try_write", "::try_read", "::lock_owned", "::blocking_lock")


def lock_calls(body, field=None):
    """[(bi, term, field_name, method)] for lock acquisitions on a field path"""
    out = []
    for bi, t, path in body.calls():
        if not path or not t["a"]:
            continue
        m = None
        for lm in LOCK_METHODS:
            if path.endswith(lm):
                m = lm[2:]
        if m is None or not ("Mutex" in path or "RwLock" in path):
            continue
        a0 = body.term_operand(t["a"][0])
        if a0[0] != "field":
            continue
        f = a0[2]
        if field is None or f == field:
            out.append((bi, t, f, m))
    return out


def guard_live_at(body, lock_bi, site_bi):
    """True iff on every path from the lock call to the site the guard returned by the lock call is
    still held by some local (not dropped, not passed away).  Tracks moves between locals."""
    t = body.blocks[lock_bi]["t"]
    if t.get("to") is None or "p" in t["dst"]:
        return False
    path = mir.callee_path(t["f"]) or ""
    if path.startswith("tokio::sync::"):
        # async lock: the call returns a future; the guard is the value of the `.await`
        fut = body.term_call(t)
        for bi, si, s in body.assigns():
            rv = s["rv"]
            if rv["r"] == "use" and rv["o"]["k"] in ("mv", "cp") and "p" in rv["o"]["p"] and "p" not in s["p"]:
                tt = body.term_operand(rv["o"])
                if tt[0] == "await" and mir.has(tt[1], lambda x: x == fut):
                    return _guard_live(body, bi, si + 1, frozenset([s["p"]["l"]]), lock_bi, site_bi)
        return False
    return _guard_live(body, t["to"], 0, frozenset([t["dst"]["l"]]), lock_bi, site_bi)


def _guard_live(body, start_bi, start_si, holders0, lock_bi, site_bi):
    start = (start_bi, start_si, holders0)
    seen = {(start_bi, holders0)}
    stack = [start]
    reached = False
    while stack:
        bi, si0, holders = stack.pop()
        if bi == lock_bi and si0 == 0:
            continue  # re-acquired on a later iteration: analysed from there
        blk = body.blocks[bi]
        h = set(holders)
        for s in blk["s"][si0:]:
            if s["k"] == "as":
                rv = s["rv"]
                src = None
                if rv["r"] == "use" and rv["o"]["k"] == "mv":
                    src = rv["o"]["p"]["l"]
                elif rv["r"] == "agg":
                    for o in rv["ops"]:
                        if o["k"] == "mv" and o["p"]["l"] in h:
                            src = o["p"]["l"]
                if src is not None and src in h:
                    h.discard(src)
                    h.add(s["p"]["l"])
                elif "p" not in s["p"] and s["p"]["l"] in h:
                    h.discard(s["p"]["l"])
        term = blk["t"]
        if bi == site_bi:
            reached = True
            if not h:
                return False
            continue
        k = term["k"]
        if k == "drop":
            if term["p"]["l"] in h and "p" not in term["p"]:
                h.discard(term["p"]["l"])
        elif k == "call":
            path = callee_path_of(term)
            for a in term["a"]:
                if a["k"] == "mv" and a["p"]["l"] in h:
                    h.discard(a["p"]["l"])
                    if path and (path.endswith("Option::<T>::unwrap") or path.endswith("Option::<T>::expect")
                                 or path.endswith("Result::<T, E>::unwrap")) and "p" not in term["dst"]:
                        h.add(term["dst"]["l"])
        for tgt, _ in body.succ_edges(bi):
            st = (tgt, frozenset(h))
            if st not in seen:
                seen.add(st)
                stack.append((tgt, 0, frozenset(h)))
    return reached


def callee_path_of(term):
    return mir.callee_path(term["f"])


def _discr_key(body, sb):
    """identity of what a switch block discriminates: (root local, projection) of the place whose discriminant is read,
    resolved through one `&place` borrow, provided every local involved is defined once (so the value cannot differ
    between two tests). None if the switch is not a plain discriminant test."""
    t = body.blocks[sb]["t"]
    if t["k"] != "switch":
        return None
    op = t.get("o") or t.get("d") or {}
    if not (isinstance(op, dict) and "p" in op and "p" not in op["p"]):
        return None
    l = op["p"]["l"]
    src = None
    for s_ in body.blocks[sb]["s"]:
        if s_["k"] == "as" and s_["p"]["l"] == l and "p" not in s_["p"] and s_["rv"]["r"] == "discr":
            src = s_["rv"]["p"]
    if src is None:
        return None
    root, proj = src["l"], list(src.get("p", ()))
    defs = body.defs()
    for _ in range(3):
        if proj and proj[0] == "*" and len(defs.get(root, ())) == 1:
            d = defs[root][0]
            if d[0] == "s":
                st = body.blocks[d[1]]["s"][d[2]]
                if st["rv"]["r"] == "ref" and not st["rv"].get("mut"):
                    q = st["rv"]["p"]
                    root, proj = q["l"], list(q.get("p", ())) + proj[1:]
                    continue
        break
    if len(defs.get(root, ())) > 1:
        return None
    return (root, json.dumps(proj, sort_keys=True))


def contradicting_edges(body, bi):
    """switch edges elsewhere in the body that contradict a condition under which block bi is reached: for every
    discriminant test that dominates bi and reaches it through exactly one of its edges (place P, variant M), all edges
    of OTHER tests of the same place P whose variant differs from M."""
    known = []
    keys = {}
    for sb in range(len(body.blocks)):
        if sb in body.cleanup or body.blocks[sb]["t"]["k"] != "switch":
            continue
        k = _discr_key(body, sb)
        if k is not None:
            keys[sb] = k
    for sb, k in keys.items():
        if sb == bi or not must_pass(body, bi, [sb]):
            continue
        term, outs = body.switch_info(sb)
        via = [(tgt, m) for tgt, _, m in outs if bi in body.reachable([tgt], cut_edges=body.back_edges())]
        if len(via) == 1:
            known.append((sb, k, via[0][1]))
    cut = set()
    for sb, k in keys.items():
        term, outs = body.switch_info(sb)
        for ksb, kk, km in known:
            if sb != ksb and k == kk:
                for tgt, _, m in outs:
                    if m != km:
                        cut.add((sb, tgt))
    return cut


def held_locks_at(body, site_bi):
    """names of lock fields whose guard is provably held at the site on every path:
    the acquisition dominates the site (for try_*: via its Some/Ok edge) and the guard is live."""
    held = []
    for bi, t, f, m in lock_calls(body):
        if not must_pass(body, site_bi, [bi]):
            # the acquisition may sit under `if let Some(x) = &opt` and the site under a second test of the same
            # `opt` (`match &opt { Some(x) if .. => site }`): plain domination fails on the infeasible path
            # None-then-Some. Cut the edges that contradict what is known where the lock is taken.
            term_key = {}
            for sb in range(len(body.blocks)):
                if sb not in body.cleanup and body.blocks[sb]["t"]["k"] == "switch":
                    k = _discr_key(body, sb)
                    if k is not None:
                        term_key[body.switch_info(sb)[0]] = k
            through = {(bi, tgt) for tgt, _ in body.succ_edges(bi)}
            if not term_key or k1_correlated(body, [site_bi], through, lambda term: term_key.get(term))[site_bi] is not None:
                continue
        if m.startswith("try_"):
            def some_edge(term, meaning, b, sbi, tgt, bi=bi):
                return sbi != -1 and term[0] == "discr" and meaning in ("Some", "Ok") and \
                    term[1] == body.term_call(body.blocks[bi]["t"])
            g = guard_edges(body, some_edge)
            if not g or k1(body, [site_bi], g)[site_bi] is not None:
                continue
        if guard_live_at(body, bi, site_bi):
            held.append((f, bi))
    return held


def flows_into(body, local):
    """terms written into the (array/vec/struct) variable `local` through mutating calls
    (copy_from_slice, put_*, extend_from_slice, push, write, clone_from_slice, field stores)"""
    out = []
    MUT = ("copy_from_slice", "clone_from_slice", "extend_from_slice", "::push", "::put_", "::write", "::put_slice", "::extend")
    for bi, t, path in body.calls():
        if not path or not t["a"] or len(t["a"]) < 2:
            continue
        if not any(m in path for m in MUT):
            continue
        a0 = body.term_operand(t["a"][0])
        if mir.has(a0, lambda x: x[0] == "var" and len(x) > 2 and x[2] == local):
            for a in t["a"][1:]:
                out.append(body.term_operand(a))
    for bi, si, s in body.assigns():
        if s["p"]["l"] == local and "p" in s["p"]:
            out.append(body.term_rvalue(s["rv"]))
    # any call that receives `&mut local` may write its other arguments into it (e.g. record.encode(&mut buf))
    for bi, t, path in body.calls():
        if not t["a"] or len(t["a"]) < 2:
            continue
        args = [body.term_operand(a) for a in t["a"]]
        if any(a[0] == "var" and len(a) > 2 and a[2] == local for a in args):
            for a in args:
                if not (a[0] == "var" and len(a) > 2 and a[2] == local):
                    out.append(a)
    return out


def expand_vars(body, term, depth=2):
    """term plus everything that flows into the mutable variables it mentions (depth-limited)"""
    out = [term]
    frontier = [term]
    seen = set()
    for _ in range(depth):
        nxt = []
        for t in frontier:
            for x in mir.walk(t):
                if x[0] == "var" and len(x) > 2 and x[2] not in seen:
                    seen.add(x[2])
                    fl = flows_into(body, x[2]) + body.var_def_terms(x[2])
                    nxt += fl
        out += nxt
        frontier = nxt
    return out


def k2_correlated(body, effect_block, err_blocks, key_fn, set_fn=None, fail_cut=()):
    """Which err_blocks are reachable *after* effect_block on a feasible path, where feasibility tracks a few
    named predicates: key_fn(term, meaning) -> (key, value) | None for a switch edge; value is a variant name /
    bool or ('not', (..)).  set_fn(bi) -> {key: value} for blocks that assign a tracked fact (e.g. a state send).
    Returns {err_block: path}."""
    from collections import deque
    errs = set(err_blocks)
    fail_cut = set(fail_cut)
    start = (0, (), False)
    q = deque([start])
    parent = {start: None}
    hits = {}
    while q:
        st = q.popleft()
        bi, env, passed = st
        if passed and bi in errs and bi not in hits:
            path = []
            x = st
            while x is not None:
                path.append(x[0])
                x = parent[x]
            hits[bi] = list(reversed(path))
        envd = dict(env)
        if set_fn is not None:
            upd = set_fn(bi)
            if upd:
                envd.update(upd)
        npassed = passed or bi == effect_block
        blk = body.blocks[bi]
        if blk["t"]["k"] == "switch":
            term, outs = body.switch_info(bi)
            for tgt, _lab, meaning in outs:
                if (bi, tgt) in fail_cut:
                    continue
                nd = dict(envd)
                kv = key_fn(term, meaning)
                if kv is not None:
                    k, v = kv
                    if k in nd and not _compatible(nd[k], v):
                        continue
                    if not (isinstance(v, tuple) and v and v[0] == "not") or k not in nd:
                        nd[k] = v
                ns = (tgt, tuple(sorted(nd.items(), key=lambda kv: str(kv[0]))), npassed)
                if ns not in parent:
                    parent[ns] = st
                    q.append(ns)
        else:
            for tgt, _ in body.succ_edges(bi):
                if (bi, tgt) in fail_cut:
                    continue
                ns = (tgt, tuple(sorted(envd.items(), key=lambda kv: str(kv[0]))), npassed)
                if ns not in parent:
                    parent[ns] = st
                    q.append(ns)
    return hits


def can_fail(facts, fn, depth=4, _seen=None):
    """Can the (local) function `fn` return Err?  True unless every return is provably not an error:
    no Err aggregate, and every propagated residual / tail call comes from callees that cannot fail
    (depth-bounded; unknown or external callees can fail)."""
    _seen = _seen or set()
    if fn in _seen:
        return False
    _seen = _seen | {fn}
    name = fn
    if facts.has_body(fn + "::{closure#0}") and facts.body(fn).rec.get("async"):
        name = fn + "::{closure#0}"
    if not facts.has_body(name):
        return True
    if depth <= 0:
        return True
    body = facts.body(name)
    for bi, si, s in body.assigns():
        if s["p"]["l"] == 0 and "p" not in s["p"]:
            rv = s["rv"]
            if rv["r"] == "agg" and rv.get("ak") == "adt" and rv["adt"].endswith("result::Result") and rv["variant"] == "Err":
                return True
    for bi, t, path in body.calls():
        if t["dst"]["l"] == 0 and "p" not in t["dst"]:
            if path and "FromResidual" in path:
                src = residual_source(body, t)
                if src is None or can_fail(facts, src, depth - 1, _seen):
                    return True
            elif path and not path.startswith("std::result::Result::<T, E>::map"):
                # tail call returning its callee's Result
                if body.locals[0]["ty"].startswith("std::result::Result") and can_fail(facts, path, depth - 1, _seen):
                    return True
    return False


def residual_source(body, t):
    """for a from_residual call: the def path of the (first local/non-std) call whose result is propagated"""
    inner = body.term_operand(t["a"][0])
    for x in mir.walk(inner):
        if x[0] == "call" and not x[1].startswith("std::") and not x[1].startswith("core::") and not x[1].split("::")[-1].startswith("{closure"):
            return x[1]
    return None


def value_fates(body, def_bi):
    """Where does the value returned by the call in block def_bi end up?  Tracks moves between locals on all paths.
    Returns a set of fates: ('call', callee_path) | ('return',) | ('store', field_or_place) | ('drop',) | ('await',)
    | ('agg', adt)"""
    t = body.blocks[def_bi]["t"]
    if t.get("to") is None:
        return set()
    fates = set()
    if "p" in t["dst"]:
        fates.add(("store", _last_field(t["dst"]) or "?"))
        return fates
    start = (t["to"], frozenset([t["dst"]["l"]]))
    seen = {start}
    stack = [start]
    while stack:
        bi, holders = stack.pop()
        h = set(holders)
        if not h:
            continue
        blk = body.blocks[bi]
        for s in blk["s"]:
            if s["k"] != "as":
                continue
            rv = s["rv"]
            srcs = []
            if rv["r"] in ("use", "cast") and rv["o"]["k"] == "mv" and rv["o"]["p"]["l"] in h:
                srcs.append(rv["o"]["p"]["l"])
            elif rv["r"] == "agg":
                for o in rv["ops"]:
                    if o["k"] == "mv" and o["p"]["l"] in h:
                        srcs.append(o["p"]["l"])
                if srcs and rv.get("ak") == "adt" and not rv["adt"].startswith("std::option::Option") and not rv["adt"].startswith("std::result::Result"):
                    fates.add(("agg", rv["adt"]))
            for src in srcs:
                h.discard(src)
                if "p" in s["p"]:
                    fates.add(("store", _last_field(s["p"]) or "?"))
                elif s["p"]["l"] == 0:
                    fates.add(("return",))
                else:
                    h.add(s["p"]["l"])
        term = blk["t"]
        k = term["k"]
        if k == "drop" and "p" not in term["p"] and term["p"]["l"] in h:
            h.discard(term["p"]["l"])
            fates.add(("drop",))
        elif k == "call":
            path = callee_path_of(term) or "<indirect>"
            gen = mir.callee_generic(term["f"]) or ""
            for a in term["a"]:
                if a["k"] == "mv" and a["p"]["l"] in h and "p" not in a["p"]:
                    h.discard(a["p"]["l"])
                    if gen.endswith("IntoFuture::into_future") or path.endswith("Option::<T>::unwrap") or path.endswith("::into") or \
                            gen.endswith("convert::Into::into") or gen.endswith("convert::From::from") or path.endswith("Some"):
                        if "p" not in term["dst"]:
                            h.add(term["dst"]["l"])
                            if gen.endswith("IntoFuture::into_future"):
                                fates.add(("await",))
                    else:
                        fates.add(("call", path))
        elif k == "ret":
            if 0 in h:
                fates.add(("return",))
        for tgt, _ in body.succ_edges(bi):
            st = (tgt, frozenset(h))
            if st not in seen:
                seen.add(st)
                stack.append(st)
    return fates


# ============================================================ K6 helpers: switch arm tables
def arm_regions(body, bi):
    """for the switch in block bi: {meaning: set(blocks reachable only through that arm)}"""
    term, outs = body.switch_info(bi)
    reach = {}
    for tgt, lab, meaning in outs:
        reach.setdefault(meaning if not isinstance(meaning, tuple) else ("other",), set()).update(
            body.reachable([tgt], cut_edges=body.back_edges()))
    regions = {}
    for m, r in reach.items():
        others = set()
        for m2, r2 in reach.items():
            if m2 != m:
                others |= r2
        regions[m] = r - others
    return term, regions


def ints_in_blocks(body, blocks, bits=None):
    """integer constants appearing as call arguments / assigned values in the given blocks"""
    out = []
    for bi in sorted(blocks):
        blk = body.blocks[bi]
        for s in blk["s"]:
            if s["k"] == "as":
                for o in (s["rv"].get("o"), s["rv"].get("a"), s["rv"].get("b")):
                    if o and o["k"] == "c" and isinstance(o.get("v"), int):
                        out.append((o["v"], o.get("ty")))
                for o in s["rv"].get("ops", []) if s["rv"]["r"] == "agg" else []:
                    if o["k"] == "c" and isinstance(o.get("v"), int):
                        out.append((o["v"], o.get("ty")))
        t = blk["t"]
        if t["k"] == "call":
            for a in t["a"]:
                if a["k"] == "c" and isinstance(a.get("v"), int):
                    out.append((a["v"], a.get("ty")))
    return out


# ---------------------------------------------------------------- mutable access to receiver state

def mut_borrow_map(body):
    """local -> (root_local, [field names]) for every `_l = &mut <place>` (and raw mut), with reborrow chains
    through such locals resolved (`&mut *_l.f` where _l is itself a recorded borrow)."""
    raw = {}
    for bi, si, s in body.assigns():
        rv = s["rv"]
        if rv["r"] in ("ref", "addr", "rawptr") and rv.get("mut") and "p" not in s["p"]:
            pl = rv["p"]
            fields = [e["f"] for e in pl.get("p", ()) if isinstance(e, dict) and "f" in e]
            raw.setdefault(s["p"]["l"], []).append((bi, pl["l"], fields))
        elif rv["r"] == "use" and "p" not in s["p"] and rv.get("o", {}).get("k") in ("mv", "cp") and "p" not in rv["o"].get("p", {"p": 1}):
            raw.setdefault(s["p"]["l"], []).append((bi, ("alias", rv["o"]["p"]["l"]), []))
    out = {}

    def resolve(l, seen):
        res = []
        for bi, root, fields in raw.get(l, ()):
            if isinstance(root, tuple):
                root = root[1]
                if root in raw and root not in seen:
                    res += [(bi, r2, f2) for _, r2, f2 in resolve(root, seen | {root})]
                continue
            if root in raw and root not in seen:
                for _, r2, f2 in resolve(root, seen | {root}):
                    res.append((bi, r2, f2 + fields))
            else:
                res.append((bi, root, fields))
        return res
    for l in raw:
        r = resolve(l, {l})
        if r:
            out[l] = r
    return out


def may_write_fields(facts, fn, fields, self_local=1, depth=4, _memo=None):
    """summary: may `fn` write (or hand out a mutable borrow of) any of `fields` of the object its
    `self_local` parameter points to? Unknown callees that receive the whole object mutably count as yes."""
    if _memo is None:
        _memo = {}
    key = (fn, self_local)
    if key in _memo:
        return _memo[key]
    _memo[key] = False
    body = facts.body(fn) if facts.has_body(fn) else None
    if body is None:
        _memo[key] = True
        return True
    res = bool(state_mut_sites(facts, body, fields, self_local, depth - 1, _memo))
    _memo[key] = res
    return res


def state_mut_sites(facts, body, fields, self_local=1, depth=4, _memo=None):
    """sites in `body` that may mutate one of `fields` of *self_local: direct assignments, call results stored
    into the field, `&mut self.<field>` borrows, and calls that receive `&mut *self` and whose callee
    may_write_fields. -> [(bi, description)]"""
    if _memo is None:
        _memo = {}
    sites = []
    fset = set(fields)

    def rooted(pl):
        return pl["l"] == self_local or (pl["l"] in mb and any(r == self_local for _, r, _ in mb[pl["l"]]))
    mb = mut_borrow_map(body)
    for bi, si, s in field_writes(body, lambda n: n in fset):
        pl = s["p"] if si is not None else s["dst"]
        if rooted(pl):
            sites.append((bi, "write:%s" % _last_field(pl)))
    whole = set()
    for l, lst in mb.items():
        for bi, root, fl in lst:
            if root != self_local:
                continue
            hit = [f for f in fl if f in fset]
            if hit:
                sites.append((bi, "mutborrow:%s" % hit[0]))
            elif not fl:
                whole.add(l)
    for bi, t, path in body.calls():
        for i, a in enumerate(t["a"]):
            if a.get("k") in ("mv", "cp") and "p" not in a["p"] and a["p"]["l"] in whole:
                callee = path
                if callee and facts.has_body(callee):
                    if depth > 0 and may_write_fields(facts, callee, fields, i + 1, depth, _memo):
                        sites.append((bi, "call:%s" % callee.split("::")[-1]))
                    elif depth <= 0:
                        sites.append((bi, "call:%s(depth)" % callee.split("::")[-1]))
                else:
                    sites.append((bi, "call:%s(extern)" % (path or "?").split("::")[-1]))
    return sorted(set(sites))


# ---------------------------------------------------------------- may-live analysis of one owning local

def _moves_local(o, l):
    return isinstance(o, dict) and o.get("k") == "mv" and "p" not in o.get("p", {"p": 1}) and o["p"]["l"] == l


def live_at_terminator(body, l):
    """blocks at whose terminator the owning local `l` may hold a value (assigned on some path and neither moved out
    nor dropped since). Forward may-analysis on the non-unwind CFG."""
    n = len(body.blocks)
    inn = [False] * n
    out_term = [False] * n        # state just before the terminator executes
    out = [False] * n
    work = [0]
    seen_once = set()
    while work:
        bi = work.pop()
        st = inn[bi]
        for s_ in body.blocks[bi]["s"]:
            if s_["k"] != "as":
                continue
            rv = s_["rv"]
            ops = [rv.get("o"), rv.get("a"), rv.get("b")] + list(rv.get("ops", ()))
            if any(_moves_local(o, l) for o in ops):
                st = False
            if s_["p"]["l"] == l and "p" not in s_["p"]:
                st = True
        before = st
        t = body.blocks[bi]["t"]
        if t["k"] == "drop" and t["p"]["l"] == l and "p" not in t["p"]:
            st = False
        elif t["k"] == "call":
            if any(_moves_local(a, l) for a in t["a"]):
                st = False
            if t["dst"]["l"] == l and "p" not in t["dst"]:
                st = True
        changed = (bi not in seen_once) or before != out_term[bi] or st != out[bi]
        seen_once.add(bi)
        out_term[bi] = out_term[bi] or before
        out[bi] = out[bi] or st
        if changed:
            for tgt, _ in body.succ_edges(bi):
                if out[bi] and not inn[tgt]:
                    inn[tgt] = True
                    work.append(tgt)
                elif tgt not in seen_once:
                    work.append(tgt)
    return {bi for bi in range(n) if out_term[bi]}


# ---------------------------------------------------------------- tightness of "is there room for this element" guards

def bound_guards(body):
    """guards of the form  len(buf) <cmp> (pos + size)  (either operand order) that decide whether the access
    buf[.. pos + size] is made. -> [(switch block, comparison term, tight?)].
    A guard is tight when the access is made in the boundary case  pos + size == len(buf)  - where it is in
    bounds; a guard that rejects that case drops or refuses a valid last element."""
    EQ_TRUE = {"Ge", "Le", "Eq"}
    out = []
    for sb in range(len(body.blocks)):
        if sb in body.cleanup or body.blocks[sb]["t"]["k"] != "switch":
            continue
        term, outs = body.switch_info(sb)
        neg, t = False, term
        if t[0] == "un" and t[1] == "Not":
            t, neg = t[2], True
        if t[0] != "bin" or t[1] not in ("Gt", "Ge", "Lt", "Le"):
            continue
        x, y = t[2], t[3]

        def is_len(z):
            return z[0] == "call" and (z[1].endswith("::len") or z[1].endswith("::remaining")) and z[2]
        if is_len(x) == is_len(y):
            continue
        L, A = (x, y) if is_len(x) else (y, x)
        if A[0] != "bin" or A[1] not in ("Add", "AddUnchecked"):
            continue
        buf = L[2][0]
        for bi, tc, p in body.calls():
            if not p:
                continue
            ct = body.term_call(tc)
            if not mir.has(ct, lambda z: z == buf):
                continue
            ends = [z for z in mir.walk(ct) if z[0] == "agg" and z[1].endswith(("ops::Range", "ops::RangeTo")) and z[3] and z[3][-1] == A]
            if not ends:
                continue
            reach = [(tgt, m) for tgt, _, m in outs if isinstance(m, bool) and bi in body.reachable([tgt], cut_edges=body.back_edges())]
            if len(reach) != 1:
                continue
            tgt, m = reach[0]
            cont_truth = (m != neg)
            out.append((sb, t, cont_truth == (t[1] in EQ_TRUE)))
            break
    return out


def topo_rank(body):
    """block -> rank in a topological order of the acyclic (back edges cut, non-cleanup) CFG"""
    be = set(body.back_edges())
    order, seen = [], set()

    def visit(b0):
        stack = [(b0, iter([t for t, _ in body.succ_edges(b0) if (b0, t) not in be and t not in body.cleanup]))]
        seen.add(b0)
        while stack:
            b, it = stack[-1]
            for t in it:
                if t not in seen:
                    seen.add(t)
                    stack.append((t, iter([u for u, _ in body.succ_edges(t) if (t, u) not in be and u not in body.cleanup])))
                    break
            else:
                order.append(b)
                stack.pop()
    visit(0)
    order.reverse()
    return {b: i for i, b in enumerate(order)}
