#!/usr/bin/env python3
"""Round-2 review of C07 sites that came into scope with the call-closure widening and the documented-panics
catch-all. Each pattern below is (function regex, site regex, reason) and was written after reading the code at
the site; the tool only turns matching *currently reported* sites into exact-key table entries. Unmatched sites
stay violations. Usage: tools/c07_table_add.py [--write]"""
import json, re, sys, os
V = os.path.dirname(os.path.dirname(os.path.abspath(__file__)))
PAT = [
 (r"media::spsc::SpscRing::<T>::(push|pop)$", r"assert:remzero", "capacity > 0 is asserted by the only constructor SpscRing::with_capacity"),
 (r"media::spsc::SpscRing::<T>::(push|pop)$", r"assert:bounds", "idx = x % capacity and buffer.len() == capacity (constructor builds exactly `capacity` slots)"),
 (r"configure_rtp_media_transports_from_remote", r"call:index\|\[\*section_idx\]", "section_idx comes from matched_rtp_media_sections(desc), which enumerates the same desc.media_sections"),
 (r"update_rtcp_mux_from_remote|handle_reinvite", r"call:index\|\[section_idx\]", "section_idx comes from matched_rtp_media_sections(desc) over the same description"),
 (r".*", r"assert:overflow:Add\|\(start \+ i\)", "tokio::select! expansion: start < BRANCHES and i < BRANCHES (branch rotation), BRANCHES <= 64"),
 (r"RtpSender::set_transport", r"packets_sent\.fetch_add", "A-32: counter of packets this endpoint sent itself; 2^32 own packets (years of media) before the +1 can overflow"),
 (r".*", r"call:Instant::add\|.*(from_secs\(|SACK_DELAY|from_millis\(lifetime_ms)", "Instant + a constant or a <= u32 milliseconds duration: Instant overflow needs centuries"),
 (r"IceTransportRunner::run|get_local_ip", r"call:Instant::add", "Instant + a locally configured interval (config/env of this process, not peer input)"),
 (r"rtp::build_report_block", r"call:Ord::clamp", "both bounds are constants with min < max"),
 (r"upnp::UpnpPortMapper::with_lease_duration", r"call:Ord::clamp", "both bounds are constants with min < max"),
 (r"sdp::normalize_fingerprint_value", r"assert:bounds\|chunk\[", "chunks(2) over a string whose length was checked to be even and non-empty: every chunk has 2 bytes"),
 (r"sdp::Attribute::from_line", r"call:index_range", "idx is the byte offset of ':' (ASCII, 1 byte) returned by find: idx and idx+1 are in range and on char boundaries"),
 (r"srtp::SrtpContext::new", r"\[\.\.16\]", "cipher_key is the output of kdf(key_len,..) with key_len = SrtpProfile::key_len() = 16 for every profile"),
 (r"srtp::SrtpContext::derive_keys", r"call:kdf", "master key/salt lengths are validated by SrtpKeyingMaterial construction (16/12 or 14 bytes) before derive_keys; kdf only reads take(14) of the salt and 16 key bytes"),
 (r"srtp::SrtpContext::kdf", r"assert:bounds\|iv\[i\]", "i enumerates take(14) of the salt; iv is [u8; 16]"),
 (r"srtp::SrtpContext::protect_rtcp", r"self\.rtcp_index \+= 1", "A-32: own SRTCP packets; 2^31 of them exhaust the SRTCP index space long before (key lifetime)"),
 (r"srtp::SrtpContext::protect_rtcp", r"call:index_range", "precondition len >= 8 is checked by the only crate caller SrtpSession::protect_rtcp (returns PacketTooShort)"),
 (r"srtp::SrtpContext::(cipher_rtcp|build_iv)", r"\[\.\.14\]", "salt is the output of kdf(salt_len,..) with salt_len = 14 for the AES-CM profiles that use this IV"),
 (r"srtp::SrtpContext::build_gcm(_rtcp)?_nonce", r"\[\.\.12\]", "salt is the output of kdf(salt_len,..) with salt_len = 12 for the GCM profile that uses this nonce"),
 (r"srtp::SrtpContext::auth_tag_rtcp_into", r"copy_from_slice", "out is [u8; SHA1_LEN] = 20 and HMAC-SHA1 output is 20 bytes"),
 (r"srtp::SrtpContext::protect$", r".*", "output was resized to header_len + payload + padding + tag before these slices; header_len is RtpHeader::marshal_size of the same header; tag lengths are profile constants (sender side, own packet)"),
 (r"srtp::SrtpContext::estimate_roc", r"assert:overflow:Sub", "both operands are u16 values widened to i32"),
 (r"srtp::SrtpContext::update", r"call:unwrap", "guarded by the is_none() early return just above"),
 (r"BufMutExt>::put_u24", r"call:put_u8", "generic over BufMut; every caller passes a growable BytesMut"),
 (r"dtls::DtlsInner::handle_server_hello_done", r"ctx\.(message_seq|epoch) \+= 1", "runs at most once per handshake context (returns early once session_keys is set): counters stay < 8"),
 (r"dtls::DtlsInner::handle_server_hello_done", r"\[1\.\.\]", "flight_records has the ClientKeyExchange record pushed above (len >= 1)"),
 (r"dtls::expand_keys", r".*", "key_block = prf_sha256(.., 40) has exactly the 40 requested bytes; destinations are [u8;16]/[u8;4]"),
 (r"dtls::encrypt_record", r"copy_from_slice\(iv\)", "iv is a [u8; 4] write IV at both call sites"),
 (r"dtls::encrypt_record", r"\[8\.\.\]", "result starts with the 8-byte explicit nonce pushed above"),
 (r"run_(udp|turn|tcp)_read_loop|probe_stun|TurnClient::allocate", r"call:index_range\|\[\.\.len\]", "len is the byte count returned by recv/try_recv into the same buffer (<= buf.len())"),
 (r"IceTransport::set_data_receiver", r"VecDeque::drain", "drain(..) full range cannot be inverted or out of bounds"),
 (r"perform_connectivity_checks_async", r"call:index\|\[0\]", "successful_pairs.is_empty() returns early above"),
 (r"perform_connectivity_checks_async", r"in_flight -= 1", "in_flight counts the futures pushed into nom_checks; one decrement per completed future"),
 (r"complete_controlled_inbound_tcp_nomination|handle_stun_request", r"call:unwrap", "parse of the constant \"0.0.0.0:0\""),
 (r"IceCandidatePair::priority", r"assert:overflow:Mul", "g and d are u32 priorities widened to u64: 2^32 * (2^32-1) + 2*(2^32-1) + 1 < 2^64"),
 (r"IceGatherer::bind_socket", r"assert:overflow", "start_index <= (end-start)/2, so start + 2*start_index <= end <= 65535 (port range of the local config)"),
 (r"ice::hex_encode", r"assert:bounds", "index is a nibble (0..=15) into a 16-entry table"),
 (r"TurnClient::allocate", r"attempt \+= 1", "loop leaves when attempt > 3"),
 (r"TurnClient::send_indication", r"call:insert", "insert(0), insert(1), insert(2) in sequence on the same vector: len >= index each time"),
 (r"TurnClient::create_channel_bind_packet", r"\*next \+= 1", "else-branch of `*next >= 0x7FFF` (reset to 0x4000)"),
 (r"turn::md5_digest", r"copy_from_slice", "MD5 output is 16 bytes, out is [u8; 16]"),
 (r"upnp::PortMapping::is_expired_or_stale", r"elapsed \+ 60", "elapsed seconds since creation, as u32: overflow needs 136 years"),
 (r"transports::interface_priority", r"assert:overflow", "i32 score changed by a handful of small constants"),
 (r"rtp::RewriteBridge::rewrite_packet", r"RefCell::borrow_mut", "single borrow in this function; RewriteBridge is only reached through the rewrite_bridge mutex (C19 assumption), so no other borrow is live"),
 (r"rtp::ListenerRegistry::route_for_sender_mut", r"call:index", "index is the Some(index) of routes.iter().position(..) on the same vector"),
 (r"rtp::ListenerRegistry::route_for_sender_mut", r"call:unwrap", "last_mut() right after a push"),
 (r"sctp::crc32c_append_x86", r"call:unwrap", "chunks_exact(8) yields 8-byte slices: try_into::<[u8;8]> cannot fail"),
 (r"sctp::RtoCalculator::update|sctp::SctpInner::handle_sack", r"call:f64::clamp", "ASSUMPTION (configuration): the application configures sctp_rto_min <= sctp_rto_max (defaults 0.2 s / 60 s); both are Duration::as_secs_f64, never NaN. With min > max the first RTT sample would panic - a configuration error, not peer input"),
 (r"sctp::apply_sack_to_sent_queue", r"missing_count \+= 1", "counts records of the sent queue in one sweep"),
 (r"sctp::apply_sack_to_sent_queue", r"transmit_count \+= 1", "A-32: one increment per fast retransmission of one chunk, each needing DUP_THRESH peer SACKs"),
 (r"sctp::SctpInner::generate_cookie", r"call:expect", "HMAC accepts keys of any length"),
 (r"sctp::SctpInner::send_packet_with_tag", r"assert:bounds\|buf\[", "buf starts with the 12-byte common header written by the put_u16/put_u32 calls above"),
 (r"sctp::SctpInner::send_data_raw", r"call:slice", "chunk_payload_size = min(remaining, max_payload_size) with remaining = total_len - offset"),
 (r"sctp::SctpInner::transmit", r"max_burst_packets \* MAX_SCTP_PACKET_SIZE", "local configuration value times 1200 (A-64)"),
 (r"sctp::SctpInner::create_sack_chunk", r"Vec::drain", "drain(..take) with take = len.min(32)"),
]
vio = json.load(open(os.path.join(V, "evidence", "C07.violations.json")))["violations"]
tp = os.path.join(V, "tables", "c07_sites.json")
table = json.load(open(tp))
added, left = 0, []
for x in vio:
    key = x["key"].split("|", 1)[1]
    for fr, sr, reason in PAT:
        if re.search(fr, x["function"]) and re.search(sr, x["site"]):
            if key not in table:
                table[key] = {"reason": reason, "round": 2}
                added += 1
            break
    else:
        left.append(x)
print("added", added, "unmatched", len(left))
for x in left:
    print("  ", x["where"], x["function"], "|", x["site"][:90])
if "--write" in sys.argv:
    json.dump(table, open(tp, "w"), indent=1)
