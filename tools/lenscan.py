#!/usr/bin/env python3
"""debug: run the length analysis over a module scope, print summary and unproven sites"""
import sys, os, time
sys.path.insert(0, os.path.join(os.path.dirname(os.path.abspath(__file__)), ".."))
from engine import core, mir, lenana
from collections import Counter
c = core.Ctx("C07", "quick")
scope = sys.argv[1:] or ['rtp::','transports::ice::stun::','transports::dtls::record::','transports::dtls::handshake::','transports::datachannel::','rtx::','transports::udptl::','media::depacketizer::']
t0=time.time()
tot=Counter(); unp=[]
for b in c.facts.all_bodies():
    n=b.name.lstrip('<')
    if '::tests::' in n or 'tests::' in n: continue
    if not any(n.startswith(s) for s in scope): continue
    try:
        sites=lenana.Analyzer(b).run()
    except Exception as e:
        print("ERR", b.name, repr(e)); raise
    for s in sites:
        tot['all']+=1
        if s.proven: tot['proven']+=1
        else:
            unp.append(s); tot[s.kind.split(':')[0]+':'+s.kind.split(':')[1]]+=1
print(dict(tot), "%.1fs"%(time.time()-t0))
for s in unp:
    if '-q' in sys.argv: break
    print("%-26s %-38s %s [%s] %s" % (s.kind, s.fn.split('::')[-1][:38], s.where, (s.src or '')[:50], [t[:70] for t,ok in s.obligations if not ok][:2]))
