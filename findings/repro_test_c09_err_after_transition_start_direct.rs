// THROW-AWAY side-remark tests against the ORIGINAL code (not part of the seed).
#![allow(clippy::field_reassign_with_default)]
use rustrtc::sdp::{
    Attribute, Direction, MediaSection, SdpType, SessionDescription, SessionSection,
};
use rustrtc::*;

fn srtp_offer() -> SessionDescription {
    let mut desc = SessionDescription::new(SdpType::Offer);
    desc.session = SessionSection::default();
    desc.session.connection = Some("IN IP4 127.0.0.1".to_string());
    let mut section = MediaSection::new(MediaKind::Audio, "0");
    section.direction = Direction::SendRecv;
    section.port = 40000;
    section.protocol = "RTP/SAVP".to_string();
    section.formats.push("96".to_string());
    section
        .attributes
        .push(Attribute::new("rtpmap", Some("96 opus/48000/2".to_string())));
    section.attributes.push(Attribute::new(
        "extmap",
        Some("3 urn:ietf:params:rtp-hdrext:ssrc-audio-level".to_string()),
    ));
    desc.media_sections.push(section);
    desc
}

/// SRTP (SDES) mode, relay-only ICE policy and no TURN server: no local candidate is
/// ever gathered, so `start_direct` fails inside set_remote_description -- AFTER the
/// signaling state was advanced and the DTLS role / mid counter were written.
#[tokio::test]
async fn side_remark_error_after_state_transition_srtp_no_candidates() {
    let mut config = RtcConfiguration::default();
    config.transport_mode = TransportMode::Srtp;
    config.ice_transport_policy = IceTransportPolicy::Relay;
    let pc = PeerConnection::new(config);
    pc.add_transceiver(
        MediaKind::Audio,
        peer_connection::TransceiverDirection::SendRecv,
    );
    assert_eq!(pc.signaling_state(), SignalingState::Stable);

    let res = pc.set_remote_description(srtp_offer()).await;
    println!("result = {res:?}");
    println!("state  = {:?}", pc.signaling_state());
    println!("remote = {:?}", pc.remote_description().map(|d| d.sdp_type));
    assert!(res.is_err(), "expected the call to fail");
    assert_eq!(
        pc.signaling_state(),
        SignalingState::Stable,
        "a failed set_remote_description(offer) advanced the signaling state"
    );
}
