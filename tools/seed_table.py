#!/usr/bin/env python3
"""print the markdown table of /verif/seeded for DESIGN.md §12"""
import json, glob, os, re
rows = []
for d in sorted(glob.glob("/verif/seeded/*/")):
    m = json.load(open(d + "meta.json"))
    name = os.path.basename(d.rstrip("/"))
    what = (m.get("breaks") or "").replace("\n", " ")
    what = re.split(r"(?<=[.;])\s", what)[0][:170]
    cr = m["check_result"]
    rows.append("| %s | %s | %s | %s |" % (name, what.replace("|", "/"), cr["caught_by"].replace("|", "/")[:150],
                                          "no" if cr["missed_by_the_check_as_it_stood_when_the_change_arrived"] else "yes"))
print("| seed | what the change does | caught by | at first? |\n|---|---|---|---|")
print("\n".join(rows))
n = len(rows); first = sum(1 for r in rows if r.endswith("| yes |"))
print("\n%d seeded changes kept; %d caught by the checks as they stood when the change arrived, %d missed at first." % (n, first, n - first))
