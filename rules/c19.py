"""C19 — bridged streams stay continuous (state discipline of RewriteBridge::rewrite_packet); single delivery."""
from engine import core, mir
from engine.core import RuleResult, suffix

EXPLANATION = (
    "Static analysis of rustc MIR of transports::rtp. Decides the state discipline continuity rests on, not routing. "
    "R19.1 stable mapping: StreamRewriteState is created only in the or_insert_with initialiser of streams.entry(key); "
    "the key is the source SSRC read from the packet before any write to header.ssrc; out_ssrc is never assigned "
    "afterwards; header.ssrc is assigned from state.out_ssrc only. R19.2 consecutive output sequence: "
    "header.sequence_number is assigned from state.next_sequence_number, which is then advanced by exactly one "
    "wrapping_add(1) on every path, outside any loop. R19.3 the timestamp offset moves only at creation, on the "
    "`delta > 900_000` forward-jump edge, or on the first packet with a pinned output timestamp; the output "
    "timestamp is source timestamp (read before the rewrite) + offset. R19.4 RtpTransport::receive contains one "
    "listener delivery, outside any loop, and binds an SSRC route only on the bind_ssrc edge. Which listener is "
    "selected and wraparound arithmetic are not decided.")
ASSUMPTIONS = ["RewriteBridge is only used under the rewrite_bridge mutex (RefCell borrow is exclusive)", "unwind edges are not paths"]
TRUSTED_BASE = ["rustc MIR construction", "engine CFG/terms", "rules/c19.py"]

RW = "transports::rtp::RewriteBridge::rewrite_packet"


def _writes(b, field):
    return [(bi, si, s) for bi, si, s in core.field_writes(b, lambda f: f == field) if si is not None]


def _read_before_writes(b, local_name, field):
    """the user local `local_name` is defined by copying <..>.<field> and no write to that field can reach the copy"""
    ls = [i for i, l in enumerate(b.locals) if l.get("n") == local_name]
    if len(ls) != 1:
        return None, "local %s not found" % local_name
    l = ls[0]
    ds = b.defs().get(l, [])
    if len(ds) != 1 or ds[0][0] != "s":
        return None, "%s is not defined exactly once" % local_name
    _, dbi, dsi = ds[0]
    st = b.blocks[dbi]["s"][dsi]
    rv = st["rv"]
    if not (rv["r"] == "use" and rv["o"]["k"] == "cp" and core._last_field(rv["o"]["p"]) == field):
        return None, "%s is not a copy of .%s" % (local_name, field)
    for wbi, wsi, ws in _writes(b, field):
        if wbi == dbi and wsi < dsi:
            return None, "%s is read after .%s was overwritten" % (local_name, field)
        if dbi in core.reach_from(b, wbi):
            return None, "a write of .%s can reach the read into %s" % (field, local_name)
    return l, None


def _root_local(b, op, hops=6):
    """follow single-definition copy chains of temporaries back to the local they copy"""
    if op["k"] not in ("cp", "mv") or "p" in op["p"]:
        return None
    l = op["p"]["l"]
    for _ in range(hops):
        ds = b.defs().get(l, [])
        if len(ds) != 1 or ds[0][0] != "s" or b.locals[l].get("u"):
            return l
        rv = b.blocks[ds[0][1]]["s"][ds[0][2]]["rv"]
        if rv["r"] == "use" and rv["o"]["k"] in ("cp", "mv") and "p" not in rv["o"]["p"]:
            l = rv["o"]["p"]["l"]
            continue
        return l
    return l


def r19_1(ctx):
    r = RuleResult("R19.1", "K3+K1", "one stable output SSRC per source stream")
    b = ctx.body(RW)
    r.scope.append(RW)
    # StreamRewriteState construction sites crate-wide
    n = 0
    for body in ctx.facts.bodies(prefix="transports::rtp::"):
        if "::tests::" in body.name:
            continue
        for bi, si, s in core.aggregates(body, lambda a: a.endswith("rtp::StreamRewriteState")):
            n += 1
            if body.name.startswith(RW + "::{closure"):
                r.ok({"site": body.where(bi, si), "created in": "streams.entry(src_ssrc).or_insert_with(..)"})
            else:
                r.violate(body.name, "agg:StreamRewriteState", body.where(bi, si), "per-stream rewrite state created outside the entry initialiser")
        for bi, si, s in _writes(body, "out_ssrc"):
            r.violate(body.name, "write:out_ssrc", body.where(bi, si), "output SSRC of an existing stream is re-assigned")
    r.need("StreamRewriteState construction", n, 1)
    key_local, err = _read_before_writes(b, "src_ssrc", "ssrc")
    ent = core.calls_to(b, suffix("HashMap::<K, V, S, A>::entry"))
    r.need("streams.entry call", len(ent), 1)
    for bi, t, p in ent:
        k = t["a"][1]
        if err is None and _root_local(b, k) == key_local and \
                mir.has_field(b.term_operand(t["a"][0]), "streams"):
            r.ok({"site": b.where(bi), "key": "src_ssrc = packet.header.ssrc read before any header rewrite"})
        else:
            r.violate(RW, "key:entry", b.where(bi), "stream state is not keyed by the source SSRC read before the rewrite (%s)" % (err or "different key operand"))
    ws = _writes(b, "ssrc")
    r.need("header.ssrc writes", len(ws), 1)
    for bi, si, s in ws:
        v = b.term_rvalue(s["rv"])
        if v[0] == "field" and v[2] == "out_ssrc" and mir.has(v[1], lambda x: x[0] == "call" and x[1].endswith("::or_insert_with")):
            r.ok({"site": b.where(bi, si), "header.ssrc": "state.out_ssrc"})
        else:
            r.violate(RW, "write:header.ssrc", b.where(bi, si), "output SSRC does not come from the per-stream state: %s" % mir.show(v, 100))
    return r


def r19_2(ctx):
    r = RuleResult("R19.2", "K4", "output sequence numbers are consecutive")
    b = ctx.body(RW)
    hs = _writes(b, "sequence_number")
    ns = _writes(b, "next_sequence_number")
    r.need("header.sequence_number writes", len(hs), 1)
    r.need("next_sequence_number writes", len(ns), 1)
    in_loop = set()
    for h, blocks in b.loops():
        in_loop |= blocks
    for bi, si, s in hs:
        v = b.term_rvalue(s["rv"])
        if v[0] == "field" and v[2] == "next_sequence_number":
            r.ok({"site": b.where(bi, si), "header.sequence_number": "state.next_sequence_number"})
        else:
            r.violate(RW, "write:sequence_number", b.where(bi, si), "output sequence number does not come from the per-stream counter")
    if len(ns) != 1:
        r.violate(RW, "write:next_sequence_number", b.where(ns[0][0]), "per-stream sequence counter is written %d times per packet" % len(ns))
    for bi, si, s in ns[:1]:
        v = b.term_rvalue(s["rv"])
        step_ok = v[0] == "call" and v[1].endswith("wrapping_add") and v[2][0][0] == "field" and v[2][0][2] == "next_sequence_number" and mir.int_value(v[2][1]) == 1
        rets = [i for i, blk in enumerate(b.blocks) if blk["t"]["k"] == "ret" and i not in b.cleanup]
        every = all(core.must_pass(b, rb, [bi]) for rb in rets)
        after_use = all(core.must_pass(b, bi, [hb]) or hb == bi for hb, _, _ in hs)
        if step_ok and every and bi not in in_loop and after_use:
            r.ok({"site": b.where(bi, si), "counter": "advanced by wrapping_add(1) exactly once on every path, after the use"})
        else:
            r.violate(RW, "write:next_sequence_number", b.where(bi, si),
                      "sequence counter not advanced by exactly one per packet (step_ok=%s every_path=%s in_loop=%s after_use=%s)" % (step_ok, every, bi in in_loop, after_use))
    return r


def r19_3(ctx):
    r = RuleResult("R19.3", "K1", "timestamp offset moves only at discontinuities")
    b = ctx.body(RW)
    ws = _writes(b, "timestamp_offset")
    r.need("timestamp_offset writes", len(ws), 2)

    def jump(term, meaning, *_):
        return term[0] == "bin" and term[1] == "Gt" and mir.int_value(term[3]) == 900000 and \
            mir.has(term[2], lambda x: x[0] == "call" and x[1].endswith("wrapping_sub")) and meaning is True

    def forward(term, meaning, *_):
        return term[0] == "bin" and term[1] == "Lt" and mir.int_value(term[3]) == 0x80000000 and meaning is True

    def first_packet(term, meaning, *_):
        return term[0] == "discr" and term[1][0] == "field" and term[1][2] == "last_source_timestamp" and meaning == "None"

    def pinned(term, meaning, *_):
        return term[0] == "discr" and term[1][0] == "field" and term[1][2] == "initial_output_timestamp" and meaning == "Some"
    gj, gf, g1, gp = (core.guard_edges(b, p) for p in (jump, forward, first_packet, pinned))
    for bi, si, s in ws:
        cut = lambda g: bool(g) and core.k1(b, [bi], g)[bi] is None
        if cut(gj) and cut(gf):
            r.ok({"site": b.where(bi, si), "only on": "forward jump: 0 <= delta < 2^31 and delta > 900000"})
        elif cut(g1) and cut(gp):
            r.ok({"site": b.where(bi, si), "only on": "first packet of the stream with a pinned output timestamp"})
        else:
            r.violate(RW, "write:timestamp_offset", b.where(bi, si), "timestamp offset changed outside a source discontinuity")
    l, err = _read_before_writes(b, "src_timestamp", "timestamp")
    ht = _writes(b, "timestamp")
    r.need("header.timestamp writes", len(ht), 1)
    for bi, si, s in ht:
        rv = s["rv"]
        v = b.term_rvalue(rv)
        good = False
        # raw check: wrapping_add(copy src_timestamp, state.timestamp_offset)
        for cb, t, p in core.calls_to(b, suffix("wrapping_add")):
            if "p" not in t["dst"] and rv["r"] == "use" and rv["o"]["k"] in ("mv", "cp") and rv["o"]["p"]["l"] == t["dst"]["l"]:
                a0, a1 = t["a"][0], t["a"][1]
                if err is None and _root_local(b, a0) == l:
                    off = b.term_operand(a1)
                    if off[0] == "field" and off[2] == "timestamp_offset":
                        good = True
        if good:
            r.ok({"site": b.where(bi, si), "header.timestamp": "src_timestamp (read before rewrite) + state.timestamp_offset"})
        else:
            r.violate(RW, "write:header.timestamp", b.where(bi, si), "output timestamp is not source timestamp + per-stream offset (%s)" % (err or mir.show(v, 80)))
    return r


RECV = "<transports::rtp::RtpTransport as transports::PacketReceiver>::receive::{closure#0}"


def r19_4(ctx):
    r = RuleResult("R19.4", "K1", "one delivery per packet; SSRC route bound only from RID/MID/unique-PT matches")
    b = ctx.body(RECV)
    r.scope.append(RECV)
    deliv = core.calls_to(b, suffix("transports::rtp::try_send_dropping"))
    r.need("listener delivery sites", len(deliv), 1)
    in_loop = set()
    for h, blocks in b.loops():
        in_loop |= blocks
    if len(deliv) == 1 and deliv[0][0] not in in_loop:
        r.ok({"site": b.where(deliv[0][0]), "deliveries per packet": "at most one (single site, not in a loop)"})
    else:
        for bi, t, p in deliv:
            # two sites are fine only if mutually exclusive
            others = [d[0] for d in deliv if d[0] != bi]
            if bi in in_loop or any(o in core.reach_from(b, bi) for o in others):
                r.violate(RECV, "deliver", b.where(bi), "a packet can be delivered to more than one listener")
            else:
                r.ok({"site": b.where(bi)})
    binds = core.calls_to(b, suffix("ListenerRegistry::bind_ssrc_route"))
    r.need("bind_ssrc_route sites", len(binds), 1)

    def bind_flag(term, meaning, *_):
        return term[0] == "var" and term[1] == "bind_ssrc" and meaning is True
    g = core.guard_edges(b, bind_flag)
    for bi, t, p in binds:
        if g and core.k1(b, [bi], g)[bi] is None:
            r.ok({"site": b.where(bi), "cut_by": "bind_ssrc"})
        else:
            r.violate(RECV, "bind_ssrc_route", b.where(bi), "SSRC route bound without the bind_ssrc decision")
    # bind_ssrc is false for the by-SSRC and provisional matches
    bl = [i for i, l in enumerate(b.locals) if l.get("n") == "bind_ssrc"]
    if bl:
        r.ok({"bind_ssrc definitions": len(b.defs().get(bl[0], []))})
    return r


RPT = "transports::rtp::ListenerRegistry::register_payload_types"


def r19_5(ctx):
    """a listener's payload-type list is REPLACED on re-registration (re-INVITE / RTX refresh call it with the new
    list and rely on retired types disappearing): a stale type left on the old listener misdelivers packets of the
    retired type and makes the type ambiguous (dropped) once another section takes it over."""
    r = RuleResult("R19.5", "K4", "re-registering a listener's payload types replaces the old list")
    b = ctx.body(RPT)
    r.scope.append(RPT)
    resets = [bi for bi, t, p in core.calls_to(b, suffix("Vec::<T, A>::clear"))
              if t["a"] and mir.has_field(b.term_operand(t["a"][0]), "payload_types")]
    resets += [bi for bi, si, st in core.field_writes(b, lambda f: f == "payload_types") if si is not None]
    rets = [i for i, blk in enumerate(b.blocks) if blk["t"]["k"] == "ret" and i not in b.cleanup]
    r.need("returns of register_payload_types", len(rets), 1)
    for rb in rets:
        if resets and core.must_pass(b, rb, resets):
            r.ok({"site": b.where(resets[0]), "rule": "payload_types.clear() (or whole-field assignment) on every path"})
        else:
            r.violate(RPT, "replace:payload_types", b.where(rb),
                      "register_payload_types can return without having discarded the listener's previous payload types: "
                      "retired types keep routing to this listener")
    return r


RECV = "<transports::rtp::RtpTransport as transports::PacketReceiver>::receive::{closure#0}"


def r19_6(ctx):
    """demultiplexing precedence: RID, then MID, then the bound SSRC, then a unique payload type, then the
    single provisional listener - and every stage is tried when the one before found nothing. A packet that
    names a registered MID must not be routed by a stale SSRC binding just because it also carries an unknown
    RID; a bound SSRC must not beat an explicit MID."""
    r = RuleResult("R19.6", "K4", "RTP demux stages are tried in the order RID, MID, SSRC, unique PT, provisional, each falling through to the next")
    b = ctx.body(RECV)
    r.scope.append(RECV)

    def stage_blocks(pred):
        return [bi for bi, t, p in b.calls() if p and pred(p, t)]

    def on_field(t, f):
        return bool(t["a"]) and mir.has_field(b.term_operand(t["a"][0]), f)
    stages = [
        ("RID", stage_blocks(lambda p, t: (p.endswith("HashMap::<K, V, S, A>::get") and on_field(t, "by_rid")) or
                             p.endswith("ListenerRegistry::by_rid_in_section"))),
        ("MID", stage_blocks(lambda p, t: p.endswith("ListenerRegistry::by_mid"))),
        ("SSRC", stage_blocks(lambda p, t: (p.endswith("HashMap::<K, V, S, A>::get") and on_field(t, "by_ssrc")) or
                              p.endswith("ListenerRegistry::by_ssrc_in_section"))),
        ("unique PT", stage_blocks(lambda p, t: p.endswith("ListenerRegistry::unique_by_pt"))),
        ("provisional", stage_blocks(lambda p, t: p.endswith("ListenerRegistry::single_provisional"))),
    ]
    for name, bl in stages:
        if len(bl) != 1:
            raise core.CheckerError("R19.6: expected exactly one %s lookup in receive, found %d" % (name, len(bl)))
    # the optional keys of the stages: a later stage may depend on `selected` and on its OWN key, never on whether the
    # packet carried an earlier stage's key (a packet with an unknown RID still has to be routed by its MID). Plain
    # CFG reachability cannot see that `rid_bytes.is_none()` is false after the RID lookup, so the walk from one stage
    # to the next refuses every branch that tests an earlier stage's key.
    KEYS = {"RID": ("rid_bytes", "rid_extension_id"), "MID": ("mid_bytes", "sdes_mid_extension_id")}

    def mentions(term, keys):
        # the key is a single-definition local, so it usually appears inlined as its defining expression
        return mir.has(term, lambda z: (z[0] == "var" and any(z[1] == k[0] for k in keys)) or
                       (z[0] == "field" and any(z[2] == k[1] for k in keys)))
    order = [n for n, _ in stages]

    def key_switch_edges(names, want_present):
        """edges of branches on an earlier stage's key that contradict `key present` (want_present) / `key absent`"""
        out = set()
        for sb in range(len(b.blocks)):
            if sb in b.cleanup or b.blocks[sb]["t"]["k"] != "switch":
                continue
            term, outs = b.switch_info(sb)
            if not mentions(term, names):
                continue
            t, neg = term, False
            while t[0] == "un" and t[1] == "Not":
                t, neg = t[2], not neg
            for tgt, _, m in outs:
                present = None          # what taking this edge says about the key
                if t[0] == "discr" and t[2].endswith("option::Option") and m in ("Some", "None"):
                    present = (m == "Some")
                elif t[0] == "call" and t[1].endswith(("Option::<T>::is_none", "Option::<T>::is_some")) and isinstance(m, bool):
                    present = (m != neg) == t[1].endswith("is_some")
                else:
                    present = True      # a test on the key's content only happens when it is there
                if present != want_present:
                    out.add((sb, tgt))
        return out
    for (n1, b1), (n2, b2) in zip(stages, stages[1:]):
        x, y = b1[0], b2[0]
        earlier = {KEYS[n] for n in order[:order.index(n2)] if n in KEYS}
        cut = set(b.back_edges()) | key_switch_edges(earlier, True)
        fwd = y in b.reachable([t for t, _ in b.succ_edges(x)], cut_edges=cut)
        back = x in b.reachable([t for t, _ in b.succ_edges(y)], cut_edges=b.back_edges())
        if fwd and not back:
            r.ok({"stage": "%s -> %s" % (n1, n2), "at": "%s -> %s" % (b.where(x), b.where(y)),
                  "walk": "no branch on %s taken" % sorted(k[0] for k in earlier) if earlier else "plain"})
        elif not fwd:
            r.violate(RECV, "demux:%s->%s" % (n1, n2), b.where(x),
                      "after the %s lookup the %s lookup can only be reached through a branch on %s (or not at all): a packet whose %s is "
                      "unknown skips %s routing and falls to a later, weaker stage" % (n1, n2, sorted(k[0] for k in earlier) or "-", n1, n2))
        else:
            r.violate(RECV, "demux:%s->%s" % (n1, n2), b.where(x), "%s lookup no longer precedes the %s lookup" % (n1, n2))
    # ... and a packet WITHOUT the earlier key reaches the next stage too: from the "key absent" edge, same walk
    for n1, n2 in zip(order, order[1:]):
        if n1 not in KEYS:
            continue
        k = KEYS[n1]
        absent = []
        for sb in range(len(b.blocks)):
            if sb in b.cleanup or b.blocks[sb]["t"]["k"] != "switch":
                continue
            term, outs = b.switch_info(sb)
            if term[0] == "discr" and term[2].endswith("option::Option") and mentions(term[1], {k}):
                absent += [(sb, tgt) for tgt, _, m in outs if m == "None"]
        if not absent:
            raise core.CheckerError("R19.6: cannot find the `%s` absent edge" % k[0])
        y = dict(stages)[n2][0]
        earlier = {KEYS[n] for n in order[:order.index(n2)] if n in KEYS}
        cut = (set(b.back_edges()) | key_switch_edges({k}, False) | key_switch_edges(earlier - {k}, True)) - set(absent)
        if any(y in b.reachable([tgt], cut_edges=cut) for _, tgt in absent):
            r.ok({"stage": "no %s -> %s" % (n1, n2)})
        else:
            r.violate(RECV, "demux:no-%s->%s" % (n1, n2), b.where(absent[0][0]),
                      "a packet without a %s extension cannot reach the %s lookup" % (n1, n2))
    return r


def r19_7(ctx):
    """a receiver may own several SSRCs (primary and RTX, or a second one learnt from a RID / MID hit). Binding one
    more SSRC to it must leave its other bindings alone: the only entries bind_ssrc_route may drop are those whose
    receiver is gone (closed channel). A 'tidy-up' that also drops entries pointing at the same channel makes the
    older SSRC fall through to the unique-PT / provisional fallback - which can be the receiver of another section."""
    r = RuleResult("R19.7", "K3", "bind_ssrc_route prunes closed receivers only")
    fn = "transports::rtp::ListenerRegistry::bind_ssrc_route"
    b = ctx.body(fn)
    r.scope.append(fn)
    n = 0
    for bi, t, p in b.calls():
        if not p or not p.endswith("::retain") or not t["a"] or not mir.has_field(b.term_operand(t["a"][0]), "by_ssrc"):
            continue
        n += 1
        cl = b.term_operand(t["a"][1])
        if cl[0] != "closure" or not ctx.facts.has_body(cl[1]):
            raise core.CheckerError("R19.7: retain predicate is not a closure with a body")
        cb = ctx.facts.body(cl[1])
        other = [pp for _, _, pp in cb.calls() if pp and not pp.endswith(("Sender::<T>::is_closed", "::deref", "::not"))]
        if other:
            r.violate(fn, "prune:not-only-closed", b.where(bi),
                      "the SSRC table is pruned by a predicate that also calls %s: live bindings of the same receiver are dropped" %
                      ", ".join(sorted(set(x.split("::")[-1] for x in other))))
        else:
            r.ok({"site": b.where(bi), "prunes": "entries whose channel is closed"})
    for bi, t, p in b.calls():
        if p and p.endswith(("::clear", "::remove", "::drain")) and t["a"] and mir.has_field(b.term_operand(t["a"][0]), "by_ssrc"):
            r.violate(fn, "prune:other", b.where(bi), "bind_ssrc_route removes SSRC bindings other than those of closed receivers")
    r.need("retain calls on by_ssrc in bind_ssrc_route", n, 1)
    return r


def r19_8(ctx):
    """'each source stream maps to one stable output SSRC and payload type per rule': which rule applies to a packet is
    decided by rule_for - an exact payload-type rule wins, the catch-all (no payload type) applies only when no exact
    rule exists, WHATEVER the order of the table (callers supply their own tables). A single scan that takes the first
    or last rule that 'accepts' the packet lets a catch-all listed on the wrong side shadow every specific rule: DTMF and
    video leave with the audio rule's SSRC and payload type. Decided: rule_for contains a search whose predicate accepts
    only rules with match_payload_type == Some(pt), and every predicate that accepts a rule without a payload type is
    used only in the fallback taken when that first search found nothing."""
    r = RuleResult("R19.8", "K6", "bridge rule selection: exact payload-type rule first, catch-all only as the fallback")
    fn = "transports::rtp::RewriteBridge::rule_for"
    b = ctx.body(fn)
    r.scope.append(fn)
    fam = [nb for nb in ctx.facts.all_bodies() if nb.name == fn or nb.name.startswith(fn + "::{closure")]

    def kind(cb):
        # what a predicate closure accepts
        exact = catch = False
        for ci, ct, cp in cb.calls():
            t = cb.term_call(ct)
            if cp and "PartialEq" in cp and mir.has_field(t, "match_payload_type") and mir.has(t, lambda x: x[0] == "agg" and x[2] == "Some"):
                exact = True
            if cp and cp.split("::")[-1] in ("is_none", "is_none_or", "map_or", "is_some_and", "unwrap_or", "map_or_else") and mir.has_field(t, "match_payload_type"):
                catch = True
        for sb in range(len(cb.blocks)):
            if cb.blocks[sb]["t"]["k"] == "switch" and mir.has_field(cb.switch_info(sb)[0], "match_payload_type"):
                catch = True            # a match on the Option: may accept None
        return exact, catch
    searches = []
    for nb in fam:
        for ci, ct, cp in nb.calls():
            if cp and cp.split("::")[-1] in ("find", "rfind", "position", "rposition", "find_map", "filter"):
                for a in ct["a"]:
                    ta = nb.term_operand(a)
                    if ta[0] == "closure" and ctx.facts.has_body(ta[1]):
                        searches.append((nb, ci, kind(ctx.facts.body(ta[1]))))
    r.need("rule searches in rule_for", len(searches), 1)
    exact_only = [(nb, ci) for nb, ci, (e, c) in searches if e and not c]
    catching = [(nb, ci) for nb, ci, (e, c) in searches if c]
    if not exact_only:
        r.violate(fn, "rule:no-exact-first", b.where(0),
                  "rule_for has no search that accepts exact payload-type rules only: a catch-all rule can be picked although a rule for this "
                  "payload type exists (depending on the order of the table)")
    else:
        r.ok({"site": exact_only[0][0].where(exact_only[0][1]), "first": "exact payload-type match"})
    for nb, ci in catching:
        # must live in the fallback: inside a closure handed to or_else / unwrap_or_else, or behind the None edge of the exact search
        in_fallback = nb.name != fn and any(cp and cp.split("::")[-1] in ("or_else", "unwrap_or_else", "or_insert_with") and
                                             any(b.term_operand(a)[0] == "closure" and nb.name.startswith(b.term_operand(a)[1]) for a in ct["a"])
                                             for _ci, ct, cp in b.calls())
        if not in_fallback and nb.name == fn and exact_only:
            def none_edge(term, meaning, *_):
                return term[0] == "discr" and meaning == "None" and mir.has(term[1], lambda x: x[0] == "call" and x[1].split("::")[-1] in ("find", "rfind"))
            g = core.guard_edges(b, none_edge)
            in_fallback = bool(g) and core.k1(b, [ci], g)[ci] is None
        if in_fallback:
            r.ok({"site": nb.where(ci), "catch-all": "only in the fallback of the exact search"})
        else:
            r.violate(fn, "rule:catch-all-not-fallback", nb.where(ci),
                      "a search that accepts the catch-all rule is not confined to the fallback of the exact-match search: it shadows specific rules "
                      "listed on the other side of it")
    return r


def r19_9(ctx):
    """'... and is dropped rather than handed to a receiver of another media section': which route a registration call
    updates is found by position in `ListenerRegistry.routes`. Positions are only valid until the vector shrinks: the
    registry prunes closed routes (`retain`), and an index computed BEFORE the pruning and used AFTER it points at the
    next section's route - a re-offer then writes one section's payload-type list, MID or provisional flag onto another
    section, and packets routed by payload type go to the wrong receiver. Decided: in the registry no index obtained
    from a search of `routes` is used to index `routes` after a call that can shorten it."""
    r = RuleResult("R19.9", "K4/dataflow", "no position in the route table is used after the table was pruned")
    shrink = ("retain", "remove", "swap_remove", "drain", "truncate", "clear", "pop", "dedup_by", "retain_mut")
    n = 0
    for b in ctx.facts.bodies(prefix="transports::rtp::ListenerRegistry::"):
        if "::tests::" in b.name:
            continue
        finds = [bi for bi, t, p in b.calls() if p and p.split("::")[-1] in ("position", "rposition") and mir.has_field(b.term_call(t), "routes")]
        if not finds:
            continue
        r.scope.append(b.name)
        shr = [bi for bi, t, p in b.calls() if p and p.split("::")[-1] in shrink and t["a"] and mir.has_field(b.term_operand(t["a"][0]), "routes")]
        uses = [bi for bi, t, p in b.calls() if p and ("::index" in p or "::get" in p.split("<")[0][-12:]) and t["a"] and
                mir.has_field(b.term_operand(t["a"][0]), "routes") and len(t["a"]) > 1 and
                mir.has(b.term_operand(t["a"][1]), lambda x: x[0] == "call" and x[1].split("::")[-1] in ("position", "rposition"))]
        for fb in finds:
            n += 1
            after_find = b.reachable([t for t, _ in b.succ_edges(fb)], cut_edges=b.back_edges())
            bad = None
            for sb in shr:
                if sb in after_find:
                    after_shrink = b.reachable([t for t, _ in b.succ_edges(sb)], cut_edges=b.back_edges())
                    hit = [u for u in uses if u in after_shrink]
                    if hit:
                        bad = (sb, hit[0])
            if bad:
                r.violate(b.name, "routes:stale-index", b.where(bad[1]),
                          "an index found before `routes` is pruned (%s) is used to index it afterwards: when a closed route sat in front, the "
                          "registration is applied to the NEXT media section's route" % b.where(bad[0]))
            else:
                r.ok({"search": b.where(fb), "index used": "only while the table is unchanged"})
    r.need("searches of the route table by position", n, 1)
    return r


R19_10_STRICT = True
R19_11_STRICT = True


def r19_10(ctx):
    """'... and is dropped rather than handed to a receiver of another media section': the last two demux stages pick a
    route by what it LISTS (a payload type) or by being the only provisional one - not by what the packet says. A packet
    that names a media section (MID) for which no receiver is registered used to fall through to them and was handed to
    whichever other section listed its payload type. A route knows its own section (`ListenerRoute.mid`); the two
    stages must not pick a route whose section differs from the one the packet names. Decided: unique_by_pt and
    single_provisional read `route.mid` (directly or through a helper they call) when filtering, and receive() passes
    them the MID taken from the packet."""
    r = RuleResult("R19.10", "K6", "payload-type and provisional routing never pick a route of another media section")
    if not R19_10_STRICT:
        r.ok({"status": "armed together with the repair"})
        return r
    # the SSRC stage as well: a binding made for one section must not capture a packet that names another one
    recv = ctx.body(RECV)
    direct = [bi for bi, t, p in recv.calls() if p and p.endswith("HashMap::<K, V, S, A>::get") and t["a"]
              and mir.has_field(recv.term_operand(t["a"][0]), "by_ssrc")]
    for bi in direct:
        r.violate(RECV, "route:ssrc-section-ignored", recv.where(bi),
                  "receive() routes by the SSRC table directly: a packet naming another media section (an unregistered MID) is handed to the "
                  "receiver its SSRC is bound to")
    direct_rid = [bi for bi, t, p in recv.calls() if p and p.endswith("HashMap::<K, V, S, A>::get") and t["a"]
                  and mir.has_field(recv.term_operand(t["a"][0]), "by_rid")]
    for bi in direct_rid:
        r.violate(RECV, "route:rid-section-ignored", recv.where(bi),
                  "receive() routes by the RID table directly: RIDs are unique only within a media section - a packet naming section A with "
                  "RID \"h\" is handed to section B's receiver of the same RID")
    for fn in (["transports::rtp::ListenerRegistry::by_rid_in_section"] if not direct_rid else []) + list(("transports::rtp::ListenerRegistry::by_ssrc_in_section",
               "transports::rtp::ListenerRegistry::unique_by_pt", "transports::rtp::ListenerRegistry::single_provisional")):
        fam = [nb for nb in ctx.facts.all_bodies() if nb.name == fn or nb.name.startswith(fn + "::{closure")]
        if not fam and fn.endswith("by_ssrc_in_section") and direct:
            continue        # reported above
        if not fam:
            raise core.CheckerError("R19.10: %s not found" % fn)
        r.scope.append(fn)
        callees = set()
        for nb in fam:
            for bi, t, p in nb.calls():
                if p and p.startswith("transports::rtp::") and ctx.facts.has_body(p):
                    callees.add(p)
        bodies = fam + [ctx.facts.body(c) for c in callees]
        reads_mid = False
        for nb in bodies:
            for sb in range(len(nb.blocks)):
                if nb.blocks[sb]["t"]["k"] == "switch" and sb not in nb.cleanup and mir.has_field(nb.switch_info(sb)[0], "mid"):
                    reads_mid = True
            for bi, t, p in nb.calls():
                if mir.has(nb.term_call(t), lambda x: x[0] == "field" and x[2] == "mid"):
                    reads_mid = True
        if reads_mid:
            r.ok({"function": fn.split("::")[-1], "filters": "routes whose section differs from the packet's MID"})
        else:
            r.violate(fn, "route:section-ignored", ctx.facts.body(fn).where(0),
                      "%s chooses a route without looking at the route's media section: a packet that names another section (an unregistered "
                      "MID) is handed to this one" % fn.split("::")[-1])
    return r


def r19_11(ctx):
    """'delivered to at most one REGISTERED receiver': clear_listeners() is the registry's 'forget everything' (used when a
    transport is discarded or the connection closes). Every map it leaves behind keeps routing: the MID map was left
    out, so a packet naming a MID registered before was still handed to the old receiver - and re-bound its SSRC. Decided:
    clear_listeners clears every collection field of ListenerRegistry (the field list is read from the type)."""
    r = RuleResult("R19.11", "K6", "clear_listeners forgets every routing table of the registry")
    if not R19_11_STRICT:
        r.ok({"status": "armed together with the repair"})
        return r
    adt = ctx.facts.adts.get("transports::rtp::ListenerRegistry")
    if not adt:
        raise core.CheckerError("R19.11: ListenerRegistry not found")
    fields = [f["n"] for f in adt["variants"][0]["fields"] if f["ty"].startswith(("std::collections::", "std::vec::Vec"))]
    b = ctx.body("transports::rtp::RtpTransport::clear_listeners")
    r.scope.append(b.name)
    cleared = set()
    for bi, t, p in b.calls():
        if p and p.split("::")[-1] in ("clear", "drain", "take") and t["a"]:
            a0 = b.term_operand(t["a"][0])
            for f in fields:
                if mir.has_field(a0, f):
                    cleared.add(f)
    r.need("collection fields of ListenerRegistry", len(fields), 4)
    for f in fields:
        if f in cleared:
            r.ok({"field": f, "cleared": True})
        else:
            r.violate(b.name, "clear:%s" % f, b.where(0), "clear_listeners leaves `%s` populated: packets keep being routed to receivers that were cleared" % f)
    return r


def r19_12(ctx):
    """'delivered to at most one registered receiver - the one identified by its ... MID': the MID / RID / SSRC maps are
    keyed by what packets carry, but an entry BELONGS to the receiver (channel) stored in it, and several receivers can
    have used one key over time. Two obligations on ListenerRegistry:
    (a) forgetting a receiver (remove_sender) removes entries by identity - `retain(.. !same_channel(tx))` - never by
        key: a key may meanwhile belong to a live successor, which would silently lose its MID route;
    (b) registering a receiver under a MID first drops the entries this receiver holds under other MIDs (a receiver
        stands for one section), again by identity, before the insert."""
    r = RuleResult("R19.12", "K4", "routing-table entries are dropped by receiver identity; one MID entry per receiver")
    TABLES = ("by_mid", "by_rid", "by_ssrc")
    n_retain = 0
    for fn in ("transports::rtp::ListenerRegistry::remove_sender", "transports::rtp::ListenerRegistry::register_mid"):
        b = ctx.body(fn)
        r.scope.append(fn)
        closures = {nb.name: nb for nb in ctx.facts.all_bodies() if nb.name.startswith(fn + "::{closure")}
        for bi, t, p in b.calls():
            if not p or not t["a"]:
                continue
            a0 = b.term_operand(t["a"][0])
            tbl = next((f for f in TABLES if mir.has_field(a0, f)), None)
            if tbl is None:
                continue
            m = p.split("::")[-1]
            if m == "retain":
                # which closure? the one named in the second argument's aggregate
                cl = None
                for x in mir.walk(b.term_operand(t["a"][1])) if len(t["a"]) > 1 else ():
                    if x[0] == "agg" and isinstance(x[1], str) and x[1] in closures:
                        cl = closures[x[1]]
                if cl is None:
                    cands = list(closures.values())
                else:
                    cands = [cl]
                ident = any(any(cp and cp.endswith("::same_channel") for _, _, cp in c.calls()) for c in cands)
                if ident:
                    n_retain += 1
                    r.ok({"function": fn.split("::")[-1], "table": tbl, "drops": "entries of this receiver (same_channel)"})
                else:
                    r.violate(fn, "drop:%s:not-by-identity" % tbl, b.where(bi), "retain on %s does not test receiver identity" % tbl)
            elif m in ("remove", "remove_entry", "clear", "drain"):
                r.violate(fn, "drop:%s:by-key" % tbl, b.where(bi),
                          "%s drops an entry of %s by key (%s): the key can belong to another, live receiver by now - its route is lost and "
                          "packets naming it fall through to weaker stages" % (fn.split("::")[-1], tbl, m))
    r.need("identity-conditioned retain() sites", n_retain, 3)
    # (b) order in register_mid
    b = ctx.body("transports::rtp::ListenerRegistry::register_mid")
    ins = [bi for bi, t, p in b.calls() if p and p.endswith("::insert") and t["a"] and mir.has_field(b.term_operand(t["a"][0]), "by_mid")]
    ret = [bi for bi, t, p in b.calls() if p and p.endswith("::retain") and t["a"] and mir.has_field(b.term_operand(t["a"][0]), "by_mid")]
    if len(ins) != 1:
        raise core.CheckerError("R19.12: by_mid.insert not found in register_mid")
    if ret and core.must_pass(b, ins[0], ret):
        r.ok({"register_mid": "purges this receiver's other MID entries before inserting"})
    else:
        r.violate(b.name, "register_mid:stale-entry", b.where(ins[0]),
                  "register_mid inserts without dropping the entries the receiver holds under other MIDs: after a MID change packets naming "
                  "the old section still reach it")
    return r


def r19_13(ctx):
    """'each source stream maps to one stable output SSRC ..., output sequence numbers are consecutive ..., independently for
    every concurrent source stream': all of that lives in the per-source entry of RewriteBridge.streams. An entry is
    created on the first packet of a source and must stay for the life of the bridge: clearing or evicting entries (a cap
    on the table, say) restarts the sequence / timestamp mapping of streams that are still being forwarded. Decided:
    rewrite_packet touches `streams` only through entry() / lookups - no clear, remove, retain or drain."""
    r = RuleResult("R19.13", "K3", "per-source rewrite state is never evicted while the bridge lives")
    fam = [nb for nb in ctx.facts.all_bodies() if nb.name.startswith("transports::rtp::RewriteBridge::") and "::tests::" not in nb.name]
    if not fam:
        raise core.CheckerError("R19.13: RewriteBridge not found")
    n = 0
    for nb in fam:
        for bi, t, p in nb.calls():
            if not p or not t["a"]:
                continue
            a0 = nb.term_operand(t["a"][0])
            if not mir.has_field(a0, "streams"):
                continue
            m = p.split("::")[-1]
            if m in ("borrow_mut", "borrow", "lock"):
                continue
            n += 1
            if m in ("clear", "remove", "remove_entry", "retain", "drain", "pop_first", "pop_last", "truncate", "split_off"):
                r.scope.append(nb.name)
                r.violate(nb.name, "streams:%s" % m, nb.where(bi),
                          "the rewrite table is shrunk with %s(): streams that are still forwarded lose their state - the next packet of each "
                          "restarts its output sequence number and timestamp mapping" % m)
            else:
                r.ok({"site": nb.where(bi), "streams": m})
    r.need("uses of the rewrite table", n, 1)
    return r


def run(ctx):
    return [r19_1(ctx), r19_2(ctx), r19_3(ctx), r19_4(ctx), r19_5(ctx), r19_6(ctx), r19_7(ctx), r19_8(ctx), r19_9(ctx), r19_10(ctx), r19_11(ctx), r19_12(ctx), r19_13(ctx)]
