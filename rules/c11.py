"""C11 — DTLS handshakes converge: structural necessary conditions of RFC 6347 4.2.4 retransmission."""
from engine import core, mir
from engine.core import RuleResult, suffix

EXPLANATION = (
    "Static analysis of rustc MIR of transports::dtls; necessary conditions only. R11.1 every handshake record put on "
    "the wire belongs to the stored flight: the bytes sent by send_handshake_message / IceConn::send / "
    "send_dtls_record_batch in the handshake handlers flow into ctx.last_flight_records on every success path (or are "
    "the stored flight itself, for retransmission) - otherwise a lost datagram is never repaired. R11.2 the retransmit "
    "tick re-sends last_flight_records only while Handshaking, and the deadline arm ends in Failed. R11.3 a duplicate "
    "of the peer's final-flight message must trigger a re-send of the stored flight (only ClientHello is handled "
    "today). R11.4 fragment reassembly must place data by fragment_offset. Convergence under loss histories, key "
    "agreement between two processes and timing are NOT decided.")
ASSUMPTIONS = ["unwind edges are not paths", "the handshake task is the only writer of the handshake context"]
TRUSTED_BASE = ["rustc MIR construction", "engine CFG/terms", "tables in rules/c11.py"]

D = "transports::dtls::DtlsInner::"
HANDLERS = ["handshake", "handle_client_hello", "handle_hello_verify_request", "handle_server_hello_done", "handle_finished",
            "handle_retransmit", "handle_certificate", "handle_server_hello", "handle_server_key_exchange"]


def _flight_stores(b):
    out = []
    for bi, si, s in core.field_writes(b, lambda f: f == "last_flight_records"):
        if si is not None:
            out.append((bi, b.term_rvalue(s["rv"])))
    return out


def r11_1(ctx):
    r = RuleResult("R11.1", "K4", "every transmitted handshake record belongs to the stored flight")
    n = 0
    for h in HANDLERS:
        name = D + h + "::{closure#0}"
        if not ctx.facts.has_body(name):
            continue
        b = ctx.body(name)
        stores = _flight_stores(b)
        sites = []
        for bi, t, p in core.calls_to(b, suffix("IceConn::send", "IceConn::send_dtls_record_batch")):
            sites.append((bi, b.term_operand(t["a"][1]), p.split("::")[-1], bi))
        for bi, t, p in core.calls_to(b, suffix("DtlsInner::send_handshake_message")):
            # the returned record bytes: value of the await
            fut = b.term_call(t)
            val = None
            vb = bi
            for b2, si, s in b.assigns():
                rv = s["rv"]
                if rv["r"] == "use" and rv["o"]["k"] in ("mv", "cp") and "p" in rv["o"]["p"]:
                    tt = b.term_operand(rv["o"])
                    if tt[0] == "await" and mir.has(tt[1], lambda x: x == fut):
                        val = tt
                        vb = b2
            sites.append((bi, val if val is not None else ("unknown", "await result"), "send_handshake_message", vb))
        # alerts are not handshake flights
        sites = [s_ for s_ in sites if not (mir.has(s_[1], lambda x: x[0] == "agg" and x[2] == "Alert") or
                                           any(mir.has(y, lambda x: x[0] == "agg" and x[2] == "Alert") for y in core.expand_vars(b, s_[1], depth=2)))]
        if not sites:
            continue
        r.scope.append(name)
        for bi, bytes_t, what, from_b in sites:
            n += 1
            site = "send:%s" % what
            # a sub-slice of a buffer (`&flight_records[1..]`) is judged by the buffer
            while bytes_t[0] == "call" and "::index" in bytes_t[1] and len(bytes_t[2]) == 2:
                bytes_t = bytes_t[2][0]
            # retransmission of the stored flight itself
            if mir.has(bytes_t, lambda x: x[0] == "field" and x[2] == "last_flight_records"):
                r.ok({"site": b.where(bi), "bytes": "ctx.last_flight_records (retransmission)"})
                continue
            good = []
            for sb, val0 in stores:
                vals = core.expand_vars(b, val0, depth=3)
                val = ("tuple", tuple(vals))
                if mir.has(val, lambda x: x == bytes_t) or (bytes_t[0] == "try_continue" and mir.has(val, lambda x: x == bytes_t[1])) or \
                        mir.has(val, lambda x: x[0] == "try_continue" and x[1] == bytes_t):
                    good.append(sb)
            fail = core.failure_edges_of(b, bi) + _await_failure_edges(b, bytes_t)
            after = core.reach_from(b, bi, cut_edges=fail)
            later = [s2 for s2 in sites if s2[0] != bi and s2[0] in after]
            if later:
                # more of the flight is sent later: whenever that happens, the store holding these bytes must follow.
                # (paths that return before sending anything further stall the handshake for another reason)
                followed = all(core.always_followed_by(b, s2[0], good, cut_edges=core.failure_edges_of(b, s2[0])) for s2 in later)
            else:
                followed = core.always_followed_by(b, from_b, good, cut_edges=fail)
            if good and followed:
                r.ok({"site": b.where(bi), "bytes flow into": "ctx.last_flight_records on every success path"})
            else:
                r.violate(name, site, b.where(bi),
                          "handshake record sent but not kept in ctx.last_flight_records: if this datagram is lost nothing retransmits it")
    r.need("handshake record send sites", n, 6)
    return r


def _await_failure_edges(b, t):
    """Break/Err edges of `?` applied to the awaited value t"""
    def pred(term, meaning, *_):
        return term[0] == "discr" and meaning in ("Break", "Err") and (term[1] == t or mir.has(term[1], lambda x: x == t))
    return core.guard_edges(b, pred)


def r11_2(ctx):
    r = RuleResult("R11.2", "K1", "retransmit tick gated on Handshaking; deadline ends in Failed")
    b = ctx.body(D + "handle_retransmit::{closure#0}")
    r.scope.append(b.name)
    sends = core.calls_to(b, suffix("IceConn::send_dtls_record_batch"))
    r.need("retransmit send", len(sends), 1)

    def handshaking(term, meaning, *_):
        return term[0] == "call" and "PartialEq" in term[1] and mir.has(term, lambda x: x[0] == "agg" and x[2] == "Handshaking") and \
            meaning is term[1].endswith("::eq")
    g = core.guard_edges(b, handshaking)
    for bi, t, p in sends:
        arg = b.term_operand(t["a"][1])
        if g and core.k1(b, [bi], g)[bi] is None and mir.has_field(arg, "last_flight_records"):
            r.ok({"site": b.where(bi), "cut_by": "state == Handshaking", "bytes": "last_flight_records"})
        else:
            r.violate(b.name, "send:retransmit", b.where(bi), "retransmission not gated on Handshaking or not sending the stored flight")
    # ... and ALWAYS then: RFC 6347 4.2.4 re-sends the flight on every timer expiry until the handshake is over. The
    # only ways past the re-send are "not Handshaking" and "no flight stored"; any other early return (e.g. "the peer
    # already changed cipher, so it must have our flight") stops the client repairing the loss of the server's Finished.
    def not_handshaking(term, meaning, *_):
        return term[0] == "call" and "PartialEq" in term[1] and mir.has(term, lambda x: x[0] == "agg" and x[2] == "Handshaking") and \
            meaning is term[1].endswith("::ne")
    def no_flight(term, meaning, *_):
        return term[0] == "discr" and meaning == "None" and mir.has_field(term[1], "last_flight_records")
    allowed = set(core.guard_edges(b, not_handshaking)) | set(core.guard_edges(b, no_flight))
    send_blocks = {bi for bi, t, p in sends}
    rets = [i for i, blk in enumerate(b.blocks) if blk["t"]["k"] == "ret" and i not in b.cleanup]
    skip = None
    for rt in rets:
        q = b.path_to([0], rt, cut_edges=allowed, cut_blocks=send_blocks)
        if q is not None:
            skip = q
            break
    if skip is None:
        r.ok({"tick": "every path through handle_retransmit re-sends the stored flight unless state != Handshaking or no flight is stored"})
    else:
        r.violate(b.name, "retransmit:skipped", b.where(skip[min(1, len(skip) - 1)]),
                  "the retransmission tick can return without re-sending the stored flight although the handshake is still in progress: "
                  "a lost flight is then never repaired from this side", core.describe_path(b, skip))
    h = ctx.body(D + "handshake::{closure#0}")
    r.scope.append(h.name)
    # the retransmission timer runs undisturbed: nothing in the handshake loop re-arms it (an `interval.reset()` after every
    # inbound packet looks like "the peer is alive" but starves the timer whenever ANY traffic - the peer's application
    # data after it connected, duplicates, undecryptable records - arrives more often than the period: the flight whose
    # answer was lost is then never sent again)
    resets = [bi for bi, t, p in h.calls() if p and "time::Interval::reset" in p and bi not in h.cleanup]
    if resets:
        r.violate(h.name, "timer:reset", h.where(resets[0]),
                  "the handshake loop resets the retransmission interval: inbound traffic that does not advance the handshake postpones "
                  "the retransmission indefinitely")
    else:
        r.ok({"retransmission timer": "never reset inside the handshake loop"})
    calls = core.calls_to(h, suffix("DtlsInner::handle_retransmit"))
    if calls:
        r.ok({"handshake loop": "calls handle_retransmit on the interval tick", "site": h.where(calls[0][0])})
    else:
        r.violate(h.name, "tick", h.where(0), "handshake loop never retransmits the last flight")
    # deadline: an Err return whose message mentions the timeout is preceded by a Failed store
    failed = [bi for bi, si, s, v in core.lock_write_sites(h, "state", methods=("::lock",)) if v[0] == "agg" and v[2] == "Failed"]
    errs = core.err_return_blocks(h)
    timed = []
    for e in errs:
        for s in h.blocks[e]["s"]:
            if s["k"] == "as" and s["p"]["l"] == 0:
                t = h.term_rvalue(s["rv"])
                if mir.has(t, lambda x: x[0] == "const" and isinstance(x[2], str) and "timed out" in x[2]) or \
                   mir.has(t, lambda x: x[0] == "call" and "format" in x[1]):
                    timed.append(e)
    ok = False
    for e in timed:
        if core.must_pass(h, e, failed):
            ok = True
    if ok or any(core.must_pass(h, e, failed) for e in errs if e in timed):
        r.ok({"deadline": "Err return preceded by state = Failed"})
    else:
        # fall back: every Err return of the loop is preceded by a Failed store or propagates a handler error
        cnt = sum(1 for e in errs if core.must_pass(h, e, failed))
        if cnt >= 2:
            r.ok({"deadline": "%d error returns are preceded by state = Failed" % cnt})
        else:
            r.violate(h.name, "deadline", h.where(0), "handshake deadline does not move the transport to Failed")
    return r


def r11_3(ctx):
    r = RuleResult("R11.3", "K1", "a duplicate of the peer's last-flight message re-sends the stored flight")
    b = ctx.body(D + "process_handshake_payload::{closure#0}")
    r.scope.append(b.name)
    # in the duplicate branch (msg.message_seq < ctx.recv_message_seq) which message types trigger a handler / re-send?
    def dup(term, meaning, *_):
        return term[0] == "bin" and term[1] == "Lt" and mir.has_field(term[2], "message_seq") and mir.has_field(term[3], "recv_message_seq") and meaning is True
    g = core.guard_edges(b, dup)
    if not g:
        raise core.CheckerError("R11.3: duplicate-message branch not found")
    reach0 = set()
    for (a, t) in g:
        reach0 |= b.reachable([t], cut_edges=b.back_edges())
    # the duplicate branch proper: not the post-HelloVerifyRequest resynchronisation, which falls through to normal processing
    starts = []
    for bi in sorted(reach0):
        if b.blocks[bi]["t"]["k"] == "switch":
            term, outs = b.switch_info(bi)
            if (mir.field_path(term) or "").endswith("post_hvr"):
                starts += [t for t, _, m in outs if m is False]
                break
    reach = b.reachable(starts, cut_edges=b.back_edges()) if starts else reach0
    handled = set()
    for bi, blk in enumerate(b.blocks):
        if bi in reach and blk["t"]["k"] == "switch":
            term, outs = b.switch_info(bi)
            if term[0] == "call" and "PartialEq" in term[1] and mir.has_field(term, "msg_type"):
                for x in mir.walk(term):
                    if x[0] == "agg" and x[1].endswith("HandshakeType"):
                        handled.add(x[2])
    want = {"ClientHello": "server re-sends its first flight", "Finished": "final flight (CCS+Finished) must be re-sent when the peer's Finished is seen again"}
    for m, why in want.items():
        if m in handled:
            r.ok({"duplicate %s" % m: "handled in the duplicate branch"})
        else:
            r.violate(b.name, "duplicate:%s" % m, b.where(g[0][0]),
                      "a retransmitted %s (duplicate message_seq) is dropped: %s - a lost final flight is never repaired" % (m, why))
    # the repair must be reachable in the role that SENDS the last flight of a full handshake: the server (flight 6,
    # ChangeCipherSpec + Finished). The client's flights are covered by its own retransmission timer.
    from rules import c02
    resend = [bi for bi, t, p in b.calls() if p and p.endswith("send_dtls_record_batch") and bi in reach
              and any(mir.has_field(b.term_operand(a), "last_flight_records") for a in t["a"])]
    hh = [bi for bi, t, p in b.calls() if p and p.endswith("handle_handshake_message") and bi in reach]
    not_server = set(c02._role_edges(b, False))
    for what, sites in (("re-send of the stored final flight", resend), ("re-run of the ClientHello handler", hh)):
        if not sites:
            r.violate(b.name, "duplicate:resend", b.where(g[0][0]), "no %s in the duplicate branch" % what)
            continue
        ok = any(b.path_to(starts or [t for _, t in g], s_, cut_edges=set(b.back_edges()) | not_server) is not None for s_ in sites)
        if ok:
            r.ok({what: "reachable from the duplicate branch with is_client == false"})
        else:
            r.violate(b.name, "duplicate:role", b.where(sites[0]),
                      "the %s is only reachable when is_client is true: the server - the sender of the last flight - never repairs its loss" % what)
    return r


def r11_4(ctx):
    r = RuleResult("R11.4", "K1", "fragment reassembly places data by fragment_offset")
    b = ctx.body(D + "process_handshake_payload::{closure#0}")
    ext = [(bi, t) for bi, t, p in core.calls_to(b, suffix("::extend_from_slice")) if mir.has_field(b.term_operand(t["a"][0]), "incomplete_handshake")]
    r.need("reassembly append sites", len(ext), 1)

    def offset_checked(term, meaning, *_):
        # a comparison of msg.fragment_offset with the current buffer length
        return term[0] in ("bin", "call") and mir.has_field(term, "fragment_offset") and \
            mir.has(term, lambda x: x[0] == "call" and x[1].endswith("::len") and mir.has_field(x, "incomplete_handshake"))
    g = core.guard_edges(b, offset_checked)
    for bi, t in ext:
        if g and core.k1(b, [bi], g)[bi] is None:
            r.ok({"site": b.where(bi), "cut_by": "fragment_offset == bytes already assembled"})
        else:
            r.violate(b.name, "append:incomplete_handshake", b.where(bi),
                      "fragment appended without comparing fragment_offset with the assembled length: reordered or duplicated fragments corrupt the message")
    return r


def r11_5(ctx):
    """with strictly in-order reassembly (R11.4) a partially assembled message [0,A) can only be continued at
    offset A; a peer may legally re-fragment its retransmission (RFC 6347 4.1.1.1), so no later fragment need
    start at A. Convergence then depends on a first fragment (offset 0) always restarting reassembly."""
    r = RuleResult("R11.5", "K4", "a first fragment (offset 0) always restarts reassembly")
    b = ctx.body(D + "process_handshake_payload::{closure#0}")
    r.scope.append(b.name)
    clears = [bi for bi, t, p in core.calls_to(b, suffix("::clear")) if mir.has_field(b.term_operand(t["a"][0]), "incomplete_handshake")]
    r.need("reassembly buffer clear sites", len(clears), 1)
    # the offset/length comparison that admits a fragment
    cmp_blocks = []
    for sb in range(len(b.blocks)):
        if sb in b.cleanup or b.blocks[sb]["t"]["k"] != "switch":
            continue
        term, outs = b.switch_info(sb)
        if term[0] in ("bin", "call", "un") and mir.has_field(term, "fragment_offset") and \
                mir.has(term, lambda x: x[0] == "call" and x[1].endswith("::len") and mir.has_field(x, "incomplete_handshake")):
            cmp_blocks.append(sb)
    if not cmp_blocks:
        # no in-order admission test at all: that is R11.4's violation, and this rule has nothing to anchor on
        r.notes.append("no offset/length comparison found: see R11.4")
        return r
    # entry of the fragmented branch: total_length != fragment_length
    starts = []
    cut = set()
    for sb in range(len(b.blocks)):
        if sb in b.cleanup or b.blocks[sb]["t"]["k"] != "switch":
            continue
        term, outs = b.switch_info(sb)
        neg, tt = False, term
        if tt[0] == "un" and tt[1] == "Not":
            neg, tt = True, tt[2]
        if tt[0] == "bin" and tt[1] in ("Ne", "Eq") and mir.has_field(tt, "total_length") and mir.has_field(tt, "fragment_length"):
            for tgt, _, meaning in outs:
                if isinstance(meaning, bool) and ((meaning != neg) is (tt[1] == "Ne")):
                    starts.append(tgt)
        if tt[0] == "bin" and tt[1] in ("Ne", "Eq") and mir.has_field(tt, "fragment_offset") and \
                any(x == ("const", 0) or (x[0] == "const" and x[1] == 0) for x in tt[2:4]):
            for tgt, _, meaning in outs:
                if isinstance(meaning, bool) and ((meaning != neg) is (tt[1] == "Ne")):
                    cut.add((sb, tgt))          # this edge means fragment_offset != 0
    if not starts:
        raise core.CheckerError("R11.5: cannot find the `total_length != fragment_length` branch")
    for cb in cmp_blocks:
        p = b.path_to(starts, cb, cut_edges=cut, cut_blocks=set(clears))
        if p is None:
            r.ok({"site": b.where(cb), "rule": "every path with fragment_offset == 0 clears the buffer before the offset/length comparison"})
        else:
            r.violate(b.name, "restart:offset0", b.where(cb),
                      "a fragment with offset 0 can reach the offset/length comparison without the reassembly buffer being reset: "
                      "after a lost tail, a re-fragmented retransmission is ignored for ever and the handshake cannot converge",
                      core.describe_path(b, p))
    return r


def r11_6(ctx):
    """once a side is Connected its flight timer stops; the stored last flight is then the only thing that can
    answer a peer that is still retransmitting (R11.3). It must therefore persist until the next flight replaces
    it: it is only ever assigned Some(new flight) - never taken, cleared or set to None after construction."""
    r = RuleResult("R11.6", "K3", "the stored last flight is only ever replaced, never consumed")
    n = 0
    for b in ctx.facts.bodies(prefix="transports::dtls::"):
        if "::tests::" in b.name:
            continue
        for bi, si, st in core.field_writes(b, lambda f: f == "last_flight_records", deep=True):
            n += 1
            if si is None:
                r.violate(b.name, "write:last_flight_records", b.where(bi), "stored flight overwritten by a call result")
                continue
            v = b.term_rvalue(st["rv"])
            if v[0] == "agg" and v[2] == "Some":
                r.ok({"site": b.where(bi, si), "store": "Some(new flight)"})
            elif v[0] == "agg" and v[2] == "None" and b.name.endswith("HandshakeContext::new"):
                r.ok({"site": b.where(bi, si), "store": "None at construction"})
            elif v[0] == "unknown":
                r.violate(b.name, "mutborrow:last_flight_records", b.where(bi, si),
                          "the stored flight is borrowed mutably (take/replace/clear): once consumed, a peer that is still "
                          "retransmitting is never answered again and the handshake cannot converge")
            else:
                r.violate(b.name, "write:last_flight_records", b.where(bi, si), "stored flight set to %s" % mir.show(v, 60))
    r.need("stores of the last flight", n, 4)
    return r


def r11_7(ctx):
    """both ends run this code: they can only agree on a handshake if the encoder and the decoder of every
    message agree on where the fixed header fields live (sibling agreement on byte positions)."""
    from engine import layout
    r = RuleResult("R11.7", "K6", "DTLS record / handshake headers: encode and decode agree on byte positions")
    H = "transports::dtls::handshake::"
    pairs = [("transports::dtls::record::DtlsRecord::decode", "transports::dtls::record::DtlsRecord::encode")] + \
        [(H + t + "::decode", H + t + "::encode") for t in ("HandshakeMessage", "ClientHello", "ServerHello", "HelloVerifyRequest", "ServerKeyExchange")]
    n = layout.compare(r, core, ctx, pairs)
    r.need("DTLS header fields compared", n, 17)
    return r


def _canon(t):
    """role-independent form of a term: the handshake context is `ctx` whether it is a parameter or captured,
    and the ECDH shared secret is one opaque value"""
    if not isinstance(t, tuple) or not t:
        return t
    if t[0] == "call" and isinstance(t[1], str) and t[1].endswith("::diffie_hellman"):
        return ("DH",)
    if t == ("field", ("env",), "ctx") or t == ("arg", "ctx"):
        return ("ctx",)
    return tuple(_canon(x) if isinstance(x, tuple) else x for x in t)


def r11_8(ctx):
    """'both sides agree on keys': client (handle_server_hello_done) and server (handle_client_key_exchange)
    derive the master secret and the key block in two separate copies of the same code. Sibling agreement: both
    copies feed the same PRF calls (label, seed, length), build the seed as client_random || server_random, and
    expand keys with (master, client_random, server_random) in that order."""
    r = RuleResult("R11.8", "K6", "client and server derive master secret and key block by identical formulas")
    fns = [D + "handle_client_key_exchange", D + "handle_server_hello_done::{closure#0}"]
    sig = {}
    for fn in fns:
        b = ctx.body(fn)
        r.scope.append(fn)
        prfs = set()
        seeds = []
        for bi, t, p in b.calls():
            if not p:
                continue
            if p.endswith("dtls::prf_sha256"):
                args = [_canon(core.expand_vars(b, b.term_operand(a), 1)[0]) for a in t["a"]]
                prfs.add(mir.show(("call", "prf", tuple(args)), 2000))
            if p.endswith("::extend_from_slice") and t["a"] and b.term_operand(t["a"][0])[:2] == ("var", "seed"):
                seeds.append((bi, mir.show(_canon(b.term_operand(t["a"][1])), 200)))
        ek = [tuple(mir.show(_canon(b.term_operand(a)), 300) for a in t["a"]) for bi, t, p in b.calls() if p and p.endswith("dtls::expand_keys")]
        sig[fn] = (sorted(prfs), [x for _, x in sorted(seeds)], ek)
    a, c = sig[fns[0]], sig[fns[1]]
    r.need("PRF calls per role", min(len(a[0]), len(c[0])), 2)
    for what, x, y in (("master-secret PRF calls (label, seed, length)", a[0], c[0]),
                       ("seed construction order", a[1], c[1]),
                       ("expand_keys arguments", a[2], c[2])):
        if x == y and x:
            r.ok({"agree on": what, "value": [v[:160] for v in (x if isinstance(x, list) else [x])][:3]})
        else:
            r.violate(fns[1], "derive:%s" % what.split()[0], ctx.body(fns[1]).where(0),
                      "client and server disagree on %s: server %s / client %s" % (what, str(x)[:300], str(y)[:300]))
    want_seed = ["(ctx().client_random as Some).0", "(ctx().server_random as Some).0"]
    if a[1] == want_seed:
        r.ok({"seed": "client_random || server_random"})
    else:
        r.violate(fns[0], "seed:order", ctx.body(fns[0]).where(0), "master secret seed is %s, RFC 5246 8.1 requires ClientHello.random || ServerHello.random" % a[1])
    return r


def r11_9(ctx):
    """the three datagrams of the client's second flight (ClientKeyExchange in epoch 0, ChangeCipherSpec, Finished in
    epoch 1) can be lost or reordered independently. The ChangeCipherSpec handler advances read_epoch as soon as it
    arrives, so an epoch-0 handshake record must stay acceptable afterwards: try_decrypt_record hands every
    epoch-0 record to the dispatcher (which filters by content type, R03.1) and may not reject by epoch alone -
    otherwise a retransmitted ClientKeyExchange is discarded for ever and neither side can finish."""
    r = RuleResult("R11.9", "K4", "epoch-0 (handshake) records are never rejected by the record opener")
    fn = D + "try_decrypt_record"
    b = ctx.body(fn)
    r.scope.append(fn)

    def epoch0(term, meaning, *_):
        t, neg = term, False
        if t[0] == "un" and t[1] == "Not":
            t, neg = t[2], True
        if t[0] == "bin" and t[1] in ("Eq", "Ne") and mir.has_field(t[2], "epoch") and mir.int_value(t[3]) == 0 and isinstance(meaning, bool):
            return ((meaning != neg) is (t[1] == "Eq"))
        return False
    g = core.guard_edges(b, epoch0)
    if not g:
        raise core.CheckerError("R11.9: `record.epoch == 0` test not found in try_decrypt_record")
    errs = core.err_return_blocks(b)
    bad = None
    for (sb, tgt) in g:
        for eb in errs:
            p = b.path_to([tgt], eb, cut_edges=[e for e in b.back_edges()])
            if p is not None:
                bad = (eb, p)
    if bad is None:
        r.ok({"epoch == 0 edge": b.where(g[0][0]), "returns": "Ok(payload) on every path"})
    else:
        r.violate(fn, "epoch0:rejected", b.where(bad[0]),
                  "an epoch-0 record can be rejected by try_decrypt_record: a ClientKeyExchange that arrives after the "
                  "ChangeCipherSpec (loss + retransmission, or reordering) is then never accepted and the handshake cannot converge",
                  core.describe_path(b, bad[1]))
    return r


def r11_10(ctx):
    """duplication of the HelloVerifyRequest datagram. After answering an HVR the client accepts ONE message whose
    message_seq is below the expected one as the server's restarted first flight and re-synchronises its counter
    to it. A HelloVerifyRequest below the expected sequence is not that restart: it is a copy of the request
    already answered. Re-synchronising to it re-runs the HVR handler - a second cookie ClientHello with a new
    message_seq, transcript cleared - while the server continues from the first one: the Finished hashes differ
    and the handshake fails (reproduced against the reference DTLS server). So: the resynchronising store in the
    duplicate branch must be cut by an edge that excludes msg_type == HelloVerifyRequest."""
    r = RuleResult("R11.10", "K1", "a duplicated HelloVerifyRequest is not taken for the server's restarted flight")
    b = ctx.body(D + "process_handshake_payload::{closure#0}")
    r.scope.append(b.name)

    def is_cmp(term, op):
        return term[0] == "bin" and term[1] == op and mir.has_field(term[2], "message_seq") and mir.has_field(term[3], "recv_message_seq")
    lt = core.guard_edges(b, lambda term, meaning, *_: is_cmp(term, "Lt") and meaning is True)
    gt_blocks = {a for a, t in core.guard_edges(b, lambda term, meaning, *_: is_cmp(term, "Gt"))}
    if not lt or not gt_blocks:
        raise core.CheckerError("R11.10: message_seq comparisons not found")
    region = b.reachable([t for _, t in lt], cut_edges=b.back_edges(), cut_blocks=gt_blocks)
    syncs = []
    for bi, si, st in core.field_writes(b, lambda f: f == "recv_message_seq"):
        if si is None or bi not in region:
            continue
        v = b.term_rvalue(st["rv"])
        if v[0] == "field" and v[2] == "message_seq":
            syncs.append(bi)
    if not syncs:
        r.ok({"duplicate branch": "never re-synchronises recv_message_seq (nothing to guard)"})
        return r

    def not_hvr(term, meaning, *_):
        if not (term[0] == "call" and "PartialEq" in term[1] and mir.has_field(term, "msg_type")):
            return False
        if not mir.has(term, lambda x: x[0] == "agg" and x[1].endswith("HandshakeType") and x[2] == "HelloVerifyRequest"):
            return False
        return meaning is (True if term[1].endswith("::ne") else False)
    g = core.guard_edges(b, not_hvr)
    for bi in syncs:
        if g and core.k1(b, [bi], g)[bi] is None:
            r.ok({"site": b.where(bi), "cut_by": "msg.msg_type != HelloVerifyRequest"})
        else:
            r.violate(b.name, "resync:duplicate-hvr", b.where(bi),
                      "a message below the expected message_seq re-synchronises recv_message_seq after an HVR whatever its type: "
                      "a duplicated HelloVerifyRequest is answered a second time and the handshake cannot complete")
    return r


def r11_11(ctx):
    """split + reorder of the flight that follows a HelloVerifyRequest. After the HVR the client re-synchronises its
    receive counter to the first message it sees (servers restart at different numbers). If that message is not the
    ServerHello - the Certificate overtook it - the counter jumps past the ServerHello: every retransmission of it then
    looks like a duplicate, the transcript never contains it and the handshake fails although the server keeps
    retransmitting (reproduced against the reference DTLS server with its flight re-packed into two datagrams that swap).
    So: while the client is in post-HVR mode only a ServerHello may end that mode or re-synchronise the counter; every
    such store is cut by post_hvr == false, is_client == false or msg_type == ServerHello."""
    r = RuleResult("R11.11", "K1", "after a HelloVerifyRequest only the ServerHello re-synchronises the handshake sequence")
    b = ctx.body(D + "process_handshake_payload::{closure#0}")
    r.scope.append(b.name)
    sites = []
    for bi, si, st in core.field_writes(b, lambda f: f in ("recv_message_seq", "post_hvr")):
        if si is None:
            continue
        v = b.term_rvalue(st["rv"])
        f = [e for e in st["p"].get("p", ()) if isinstance(e, (list, tuple))]
        name = mir.field_path(b.term_place(st["p"])) or ""
        if name.endswith("recv_message_seq") and v[0] == "field" and v[2] == "message_seq":
            sites.append((bi, "resync"))
        elif name.endswith("post_hvr") and mir.int_value(v) == 0:
            sites.append((bi, "leave-post-hvr"))
    r.need("post-HVR stores (resync / leave)", len(sites), 2)

    def guard(term, meaning, *_):
        if term[0] == "call" and "PartialEq" in term[1] and mir.has_field(term, "msg_type") and \
                mir.has(term, lambda x: x[0] == "agg" and x[1].endswith("HandshakeType") and x[2] == "ServerHello"):
            return meaning is term[1].endswith("::eq")
        if term[0] == "field" and term[2] == "post_hvr" and meaning is False:
            return True
        if mir.field_path(term) and mir.field_path(term).split(".")[-1] == "is_client" and meaning is False:
            return True
        if term[0] == "arg" and term[1] == "is_client" and meaning is False:
            return True
        return False
    g = core.guard_edges(b, guard)
    for bi, what in sites:
        if g and core.k1(b, [bi], g, fresh_per_iteration=True)[bi] is None:
            r.ok({"site": b.where(bi), "what": what, "cut_by": "not in post-HVR mode, or the message is the ServerHello"})
        else:
            r.violate(b.name, "post-hvr:%s" % what, b.where(bi),
                      "in post-HVR mode a message that is not the ServerHello can %s: a later message of the server's flight that overtakes the "
                      "ServerHello makes the client skip it for good" % ("re-synchronise recv_message_seq" if what == "resync" else "end post-HVR mode"))
    return r


def r11_12(ctx):
    """peers that pack a whole flight into one datagram (the reference implementation, pion, browsers) retransmit
    [ClientKeyExchange (epoch 0)] [ChangeCipherSpec] [Finished (epoch 1)] as ONE datagram. Once keys exist the stale
    plaintext records are ignored - rightly - but ignoring must not be an error: handle_incoming_packet propagates an
    error of one record with `?` and the rest of the datagram, the repeated Finished, is thrown away; the already
    connected server then never re-sends its lost final flight and the client times out. So: from the edge on which a
    record is classified 'plaintext although keys exist' no error return of handle_decrypted_record is reachable."""
    r = RuleResult("R11.12", "K4", "ignoring a stale plaintext record does not discard the rest of its datagram")
    fn = D + "handle_decrypted_record::{closure#0}"
    b = ctx.body(fn)
    r.scope.append(fn)

    def ignore_edge(term, meaning, *_):
        return term[0] == "call" and term[1].endswith("::is_some") and mir.has_field(term, "session_keys") and meaning is True
    edges = core.guard_edges(b, ignore_edge)
    r.need("'plaintext although keys exist' decisions", len(edges), 2)
    errs = set(core.err_return_blocks(b))
    be = b.back_edges()
    for sb, tgt in edges:
        reach = b.reachable([tgt], cut_edges=be)
        bad = sorted(x for x in reach if x in errs)
        if bad:
            r.violate(fn, "ignore:error", b.where(sb),
                      "a plaintext record that is ignored because keys exist makes handle_decrypted_record return an error (%s): the remaining "
                      "records of the datagram - the retransmitted Finished of a peer that packs its flight into one datagram - are discarded" % b.where(bad[0]))
        else:
            r.ok({"site": b.where(sb), "then": "falls through to Ok: later records of the datagram are still processed"})
    return r


def r11_13(ctx):
    """RFC 6347 4.1 / 4.2.4: record sequence numbers are never reused, and a retransmitted flight goes out in NEW records
    (same handshake messages, fresh epoch/sequence pairs). Implementations with an anti-replay window - the reference
    DTLS stack does this during the handshake too - silently discard a record whose (epoch, sequence number) they have
    seen. A flight that is re-sent byte for byte therefore carries no information for such a peer: if the peer's answer
    (its final flight) was lost, the retransmissions are dropped as replays, the answer is never repeated and the
    handshake fails although every retransmission was delivered. Decided: what the retransmission timer puts on the wire is not the stored record bytes themselves."""
    r = RuleResult("R11.13", "K3/dataflow", "a retransmitted flight goes out in records with fresh sequence numbers")
    n = 0
    # only the TIMER-driven retransmission: it fires when our flight may well have arrived and the peer's answer was lost,
    # which is exactly when the peer has already seen these records. (The two re-sends that answer a peer's own
    # retransmission go to a peer that evidently lacks our flight: stored bytes are new to it.)
    for b in [ctx.body(D + "handle_retransmit::{closure#0}")]:
        for bi, t, p in b.calls():
            if not (p and p.endswith("send_dtls_record_batch") and len(t["a"]) > 1 and bi not in b.cleanup):
                continue
            v = b.term_operand(t["a"][1])
            if not mir.has_field(v, "last_flight_records"):
                continue        # a freshly built flight
            n += 1
            rebuilt = mir.has(v, lambda x: x[0] == "call" and not x[1].startswith(("std::", "core::", "alloc::", "<std::", "<core::", "<alloc::")))
            if rebuilt:
                r.ok({"site": b.where(bi), "records": "re-encoded before sending"})
            else:
                r.violate(b.name, "resend:stored-records", b.where(bi),
                          "the stored flight is re-sent byte for byte (same epoch and record sequence numbers): a peer with an anti-replay window "
                          "discards every record of it, so a lost answer to this flight is never repeated")
    r.need("re-send of the stored flight in handle_retransmit", n, 1)
    return r


def r11_14(ctx):
    """'... legal re-fragmentation of handshake datagrams': both ends hash the handshake messages in their UNFRAGMENTED
    form (RFC 6347 4.2.6: as if each message had been sent as a single fragment - fragment_offset 0, fragment_length =
    length). A receiver that reassembles fragments re-encodes the message for its transcript; if the re-encoded header
    keeps anything of the last fragment (its fragment_length), the transcript differs from the sender's, the two ends
    derive different session hashes / master secrets / Finished values and neither connects - only when a peer with a
    smaller MTU (or the network harness) fragments, never between two rustrtc endpoints. Decided: the message built from
    the reassembly buffer has fragment_offset == 0 and fragment_length == total_length (the same value)."""
    r = RuleResult("R11.14", "K6/dataflow", "a reassembled handshake message enters the transcript in its unfragmented form")
    b = ctx.body(D + "process_handshake_payload::{closure#0}")
    r.scope.append(b.name)
    n = 0
    for bi, si, st in core.aggregates(b, lambda a: a.endswith("handshake::HandshakeMessage")):
        rv = st["rv"]
        f = dict(zip(rv["fields"], [b.term_operand(o) for o in rv["ops"]]))
        if not mir.has_field(f.get("body", ("none",)), "incomplete_handshake"):
            continue            # not the reassembled message
        n += 1
        off_ok = mir.int_value(f["fragment_offset"]) == 0
        len_ok = f["fragment_length"] == f["total_length"]
        if off_ok and len_ok:
            r.ok({"site": b.where(bi, si), "header": "fragment_offset = 0, fragment_length = total_length"})
        else:
            r.violate(b.name, "reassembled:header", b.where(bi, si),
                      "the message rebuilt from the reassembly buffer is re-encoded with fragment_offset %s / fragment_length %s instead of 0 / "
                      "total_length: its transcript bytes differ from what the sender hashed, so a handshake with ANY fragmented message cannot "
                      "complete" % (mir.show(f["fragment_offset"], 30), mir.show(f["fragment_length"], 40)))
    r.need("message built from the reassembly buffer", n, 1)
    return r


def r11_15(ctx):
    """'If the network eventually delivers retransmitted flights, both endpoints reach Connected': rustrtc retransmits a
    flight byte for byte (known finding R11.13: the record sequence numbers of the first transmission are reused), and the
    convergence repairs depend on the peer SEEING those copies - the server re-sends its final flight when the client's
    Finished arrives again. A record that authenticated must therefore reach the record handler; an anti-replay window
    (correct on its own, RFC 6347 4.1.2.6) between the AEAD open and the handler drops exactly the copies the repairs
    wait for. Decided: in handle_incoming_packet every path from the Ok edge of try_decrypt_record reaches
    handle_decrypted_record before the loop goes on to the next record."""
    r = RuleResult("R11.15", "K4", "a record that authenticated is always handed to the record handler")
    b = ctx.body("transports::dtls::DtlsInner::handle_incoming_packet::{closure#0}")
    r.scope.append(b.name)
    oks = []
    for sb in range(len(b.blocks)):
        if sb in b.cleanup or b.blocks[sb]["t"]["k"] != "switch":
            continue
        term, outs = b.switch_info(sb)
        if term[0] == "discr" and term[1][0] == "call" and term[1][1].endswith("::try_decrypt_record"):
            oks += [tgt for tgt, _, m in outs if m == "Ok"]
    handlers = {bi for bi, t, p in b.calls() if p and p.endswith("::handle_decrypted_record")}
    r.need("Ok edges of try_decrypt_record", len(oks), 1)
    r.need("handle_decrypted_record calls", len(handlers), 1)
    back = b.back_edges()
    for tgt in oks:
        reach = b.reachable([tgt], cut_blocks=handlers) | {tgt}
        skipped = [(x, y) for x, y in back if x in reach] + [(x, None) for x in reach if b.blocks[x]["t"]["k"] == "ret"]
        if tgt in handlers or not skipped:
            r.ok({"from": b.where(tgt), "reaches": "handle_decrypted_record on every path"})
        else:
            r.violate(b.name, "record:dropped-after-authentication", b.where(skipped[0][0]),
                      "a record that passed try_decrypt_record can be skipped without reaching handle_decrypted_record: byte-identical "
                      "retransmissions (R11.13) are then invisible to the handlers that answer them - a lost final flight is never repaired")
    return r


def run(ctx):
    return [r11_1(ctx), r11_2(ctx), r11_3(ctx), r11_4(ctx), r11_5(ctx), r11_6(ctx), r11_7(ctx), r11_8(ctx), r11_9(ctx), r11_10(ctx), r11_11(ctx), r11_12(ctx), r11_13(ctx), r11_14(ctx), r11_15(ctx)]
