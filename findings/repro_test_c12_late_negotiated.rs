use anyhow::Result;
use rustrtc::transports::ice::IceGathererState;
use rustrtc::transports::sctp::{DataChannelConfig, DataChannelEvent};
use rustrtc::{PeerConnection, RtcConfiguration};
use std::sync::Arc;
use std::time::Duration;
use tokio::time::timeout;

async fn wait_gather_complete(pc: &PeerConnection) {
    loop {
        if pc.ice_transport().gather_state() == IceGathererState::Complete { break; }
        tokio::time::sleep(Duration::from_millis(20)).await;
    }
}
async fn signal_loopback(offerer: &PeerConnection, answerer: &PeerConnection) -> Result<()> {
    let _ = offerer.create_offer().await?;
    wait_gather_complete(offerer).await;
    let offer = offerer.create_offer().await?;
    offerer.set_local_description(offer.clone())?;
    answerer.set_remote_description(offer).await?;
    let _ = answerer.create_answer().await?;
    wait_gather_complete(answerer).await;
    let answer = answerer.create_answer().await?;
    answerer.set_local_description(answer.clone())?;
    offerer.set_remote_description(answer).await?;
    Ok(())
}

/// A pre-negotiated channel that both sides create AFTER the association is up.
#[tokio::test(flavor = "multi_thread", worker_threads = 4)]
async fn repro_c12_negotiated_channel_created_after_connect_announces_open() -> Result<()> {
    let pc1 = Arc::new(PeerConnection::new(RtcConfiguration::default()));
    let pc2 = Arc::new(PeerConnection::new(RtcConfiguration::default()));
    let cfg = |id| Some(DataChannelConfig { negotiated: Some(id), ..Default::default() });
    let _first1 = pc1.create_data_channel("first", cfg(0))?;
    let _first2 = pc2.create_data_channel("first", cfg(0))?;
    signal_loopback(&pc1, &pc2).await?;
    pc1.wait_for_connected().await?;
    pc2.wait_for_connected().await?;
    tokio::time::sleep(Duration::from_millis(400)).await;

    let late2 = pc2.create_data_channel("late", cfg(6))?;
    let late1 = pc1.create_data_channel("late", cfg(6))?;
    tokio::time::sleep(Duration::from_millis(200)).await;
    pc1.send_data(late1.id, b"hello").await?;

    let mut events = Vec::new();
    while let Ok(Some(ev)) = timeout(Duration::from_millis(1500), late2.recv()).await {
        let is_msg = matches!(ev, DataChannelEvent::Message(_));
        events.push(match ev { DataChannelEvent::Open => "Open", DataChannelEvent::Message(_) => "Message", DataChannelEvent::Close => "Close" });
        if is_msg { break; }
    }
    assert_eq!(events, vec!["Open", "Message"], "the channel must announce Open once before its first message");
    pc1.close();
    pc2.close();
    Ok(())
}
