"""C13 — the SCTP sender obeys packet-size, checksum, tag, TSN and window rules (structural part)."""
from engine import core, mir
from engine.core import RuleResult, suffix

EXPLANATION = (
    "Static analysis of rustc MIR of transports::sctp. R13.1 every SCTP packet leaves through one function "
    "(send_packet_with_tag is the only sender on outgoing_packet_tx) and the four checksum bytes written at "
    "buf[8..12] are the little-endian bytes of sctp_crc32c(&buf) computed after the last write of the packet body. "
    "R13.2 evaluated constants: DEFAULT_MAX_PAYLOAD_SIZE + data chunk header (16) + common header (12) <= "
    "MAX_SCTP_PACKET_SIZE == 1200; batching compares against MAX_SCTP_PACKET_SIZE; fragmentation is bounded by "
    "DEFAULT_MAX_PAYLOAD_SIZE. R13.3 new DATA TSNs come only from next_tsn.fetch_add(1) in transmit, under the "
    "sent_queue lock. R13.4 the verification-tag argument of every chunk send flows from remote_verification_tag, "
    "except the three RFC-mandated cases (INIT: 0, INIT-ACK: the INIT's initiate tag, T1 retransmission: the stored "
    "tag). R13.5 new data is dequeued only inside the loop bounded by a budget derived from peer_rwnd, cwnd and "
    "flight_size. Does not decide that the window arithmetic is right, quiescence, or retransmission cessation.")
ASSUMPTIONS = ["sctp_crc32c computes CRC32c (unit-tested against a reference in the repository)", "unwind edges are not paths"]
TRUSTED_BASE = ["rustc MIR construction", "engine CFG/terms", "exception table in rules/c13.py"]

S = "transports::sctp::SctpInner::"


def r13_1(ctx):
    r = RuleResult("R13.1", "K3+K4", "single wire exit; checksum over the finished packet")
    n = 0
    for body in ctx.facts.bodies(prefix="transports::sctp::"):
        if "::tests::" in body.name:
            continue
        for bi, t, p in core.calls_to(body, lambda p: "mpsc" in p and p.endswith("::send")):
            a0 = body.term_operand(t["a"][0])
            if a0[0] == "field" and a0[2] == "outgoing_packet_tx":
                n += 1
                if body.name == S + "send_packet_with_tag::{closure#0}":
                    r.ok({"site": body.where(bi)})
                else:
                    r.violate(body.name, "send:outgoing_packet_tx", body.where(bi), "SCTP packet put on the wire outside send_packet_with_tag (no checksum/size discipline)")
    r.need("outgoing_packet_tx.send sites", n, 1)
    b = ctx.body(S + "send_packet_with_tag::{closure#0}")
    r.scope.append(b.name)
    crc = core.calls_to(b, suffix("sctp::sctp_crc32c"))
    r.need("sctp_crc32c call", len(crc), 1)
    crc_bi = crc[0][0]
    crc_arg = b.term_operand(crc[0][1]["a"][0])
    sent = None
    for bi, t, p in core.calls_to(b, lambda p: "mpsc" in p and p.endswith("::send")):
        x = b.term_operand(t["a"][1])
        while x[0] == "call" and x[1].endswith("::freeze"):
            x = x[2][0]
        sent = x
    if sent is None:
        raise core.CheckerError("R13.1: cannot identify the packet buffer sent")
    buf_arg = sent
    if crc_arg == sent:
        r.ok({"checksum input": "the whole packet buffer that is sent"})
    else:
        r.violate(b.name, "crc:input", b.where(crc_bi), "checksum is not computed over the whole packet buffer that is sent: %s" % mir.show(crc_arg, 100))
    puts = [bi for bi, t, p in b.calls() if p and ("BufMut::put" in p or p.endswith("::put_slice") or p.endswith("::extend_from_slice"))
            and t["a"] and b.term_operand(t["a"][0]) == buf_arg]
    if len(puts) < 4:
        raise core.CheckerError("R13.1: header/body writes of the packet buffer not found (%d)" % len(puts))
    after = core.reach_from(b, crc_bi)
    late = [p for p in puts if p in after]
    if late:
        r.violate(b.name, "order:crc", b.where(late[0]), "packet bytes are written after the checksum was computed")
    else:
        r.ok({"crc computed after": "%d buffer writes" % len(puts)})
    # stores buf[8..12] = to_le_bytes(crc)[0..4]
    idx = {}
    for bi, si, s in b.assigns():
        p = s["p"]
        if "p" in p:
            pt = b.term_place(p)
            if pt[0] == "index" and mir.int_value(pt[2]) in (8, 9, 10, 11):
                v = b.term_rvalue(s["rv"])
                idx[mir.int_value(pt[2])] = (bi, v)
    for i in (8, 9, 10, 11):
        if i not in idx:
            r.violate(b.name, "store:buf[%d]" % i, b.where(crc_bi), "checksum byte %d is never written" % i)
            continue
        bi, v = idx[i]
        ok = v[0] == "index" and mir.int_value(v[2]) == i - 8 and mir.has(v[1], lambda x: x[0] == "call" and x[1].endswith("to_le_bytes") and
                                                                              mir.has(x, lambda y: y[0] == "call" and y[1].endswith("sctp::sctp_crc32c")))
        if ok and bi in after | {crc_bi}:
            r.ok({"buf[%d]" % i: "to_le_bytes(sctp_crc32c(&buf))[%d]" % (i - 8)})
        else:
            r.violate(b.name, "store:buf[%d]" % i, b.where(bi), "checksum byte %d is not the matching little-endian byte of sctp_crc32c(&buf): %s" % (i, mir.show(v, 100)))
    # the send happens after the checksum store
    snd = [bi for bi, t, p in core.calls_to(b, lambda p: "mpsc" in p and p.endswith("::send"))]
    for sb in snd:
        if all(core.must_pass(b, sb, [idx[i][0]]) for i in idx):
            r.ok({"send after checksum": b.where(sb)})
        else:
            r.violate(b.name, "order:send", b.where(sb), "packet can be sent before the checksum bytes are stored")
    return r


def r13_2(ctx):
    r = RuleResult("R13.2", "K6", "size constants and their use")
    c = ctx.facts.consts
    def val(n):
        k = "transports::sctp::" + n
        if k not in c or c[k].get("v") is None:
            raise core.CheckerError("R13.2: const %s not found" % n)
        return c[k]["v"]
    mtu, pay, hdr, ch = val("MAX_SCTP_PACKET_SIZE"), val("DEFAULT_MAX_PAYLOAD_SIZE"), val("SCTP_COMMON_HEADER_SIZE"), val("CHUNK_HEADER_SIZE")
    if mtu == 1200 and hdr == 12 and ch == 4 and pay + ch + 12 + hdr <= mtu:
        r.ok({"MAX_SCTP_PACKET_SIZE": mtu, "DEFAULT_MAX_PAYLOAD_SIZE": pay, "payload+16+12": pay + 28})
    else:
        r.violate("transports::sctp", "consts", "src/transports/sctp.rs:1", "a full DATA chunk (%d+16) plus common header (12) exceeds the %d-byte packet limit" % (pay, mtu))
    b = ctx.body(S + "transmit_chunks_with_tag::{closure#0}")
    r.scope.append(b.name)
    ok = False
    for bi, blk in enumerate(b.blocks):
        for s in blk["s"]:
            if s["k"] == "as" and s["rv"]["r"] == "bin" and s["rv"]["op"] == "Gt":
                t = b.term_rvalue(s["rv"])
                if t[3][0] == "item" and t[3][1].endswith("MAX_SCTP_PACKET_SIZE") and mir.has(t[2], lambda x: x[0] == "call" and x[1].endswith("::len")):
                    ok = True
    if ok:
        r.ok({"batching": "current_len + chunk.len() > MAX_SCTP_PACKET_SIZE starts a new packet"})
    else:
        r.violate(b.name, "batch:limit", b.where(0), "chunk batching is not bounded by MAX_SCTP_PACKET_SIZE")
    # the accumulator compared with the limit is  header + sum of the chunks batched so far: it is only ever
    # (re)started at SCTP_COMMON_HEADER_SIZE and only advanced by the length of the chunk being added
    cl = [i for i, l in enumerate(b.locals) if l.get("n") == "current_len"]
    if len(cl) != 1:
        raise core.CheckerError("R13.2: accumulator current_len not found in transmit_chunks_with_tag")
    defs = b.var_def_terms(cl[0])
    if len(defs) < 3:
        raise core.CheckerError("R13.2: expected >= 3 definitions of current_len, found %d" % len(defs))
    for t in defs:
        start = t[0] == "item" and t[1].endswith("SCTP_COMMON_HEADER_SIZE")
        step = t[0] == "bin" and t[1] == "Add" and any(x[:2] == ("var", "current_len") for x in (t[2], t[3])) and \
            any(x[0] == "call" and x[1].endswith("::len") for x in (t[2], t[3]))
        if start or step:
            r.ok({"current_len :=": mir.show(t, 100)})
        else:
            r.violate(b.name, "acc:current_len", b.where(0),
                      "packet length accumulator set to %s: it no longer equals common header + batched chunks, so a packet of the "
                      "flush can exceed MAX_SCTP_PACKET_SIZE" % mir.show(t, 80))
    # each flush happens before the chunk that would overflow is added: send_packet_with_tag on the Gt-true edge
    sd = ctx.body(S + "send_data_raw::{closure#0}")
    r.scope.append(sd.name)
    mp = [i for i, l in enumerate(sd.locals) if l.get("n") == "max_payload_size"]
    okp = True
    for i in mp:
        for t in sd.var_def_terms(i):
            if t[0] == "item" and t[1].endswith("DEFAULT_MAX_PAYLOAD_SIZE"):
                continue
            if t[0] == "call" and t[1].endswith("::min") and any(a[0] == "item" and a[1].endswith("DEFAULT_MAX_PAYLOAD_SIZE") for a in t[2]):
                continue
            okp = False
    frag = [t for bi, t, p in core.calls_to(sd, suffix("cmp::min")) if any(sd.term_operand(a)[0] == "var" and sd.term_operand(a)[1] == "max_payload_size" for a in t["a"])]
    helper = S + "enqueue_message"
    if not frag and ctx.facts.has_body(helper):
        # the fragment loop was moved into a helper: its size argument is the bounded variable, or a bounded expression
        hb = ctx.body(helper)
        r.scope.append(helper)
        frag = [t for bi, t, p in core.calls_to(hb, suffix("cmp::min")) if any(hb.term_operand(a) == ("arg", "max_payload_size") for a in t["a"])]
        names = [l.get("n") for l in hb.locals[1:1 + hb.rec.get("argc", 0)]] if hb.rec.get("argc") else None
        for bi, t, p in sd.calls():
            if not p or not p.endswith("::enqueue_message"):
                continue
            args = [sd.term_operand(a) for a in t["a"]]
            sized = [a for a in args if (a[0] == "var" and a[1] == "max_payload_size") or
                     (a[0] == "call" and a[1].endswith("::min") and any(x[0] == "item" and x[1].endswith("DEFAULT_MAX_PAYLOAD_SIZE") for x in a[2]))]
            if not sized:
                okp = False
    if mp and okp and frag:
        r.ok({"fragment size": "min(remaining, max_payload_size), max_payload_size <= DEFAULT_MAX_PAYLOAD_SIZE"})
    else:
        r.violate(sd.name, "fragment:limit", sd.where(0), "fragment size is not bounded by DEFAULT_MAX_PAYLOAD_SIZE")
    return r


def r13_3(ctx):
    r = RuleResult("R13.3", "K3+K5", "new DATA TSNs only from next_tsn.fetch_add(1) in transmit")
    n = 0
    for body in ctx.facts.bodies(prefix="transports::sctp::"):
        if "::tests::" in body.name:
            continue
        for op in ("fetch_add", "fetch_sub", "swap", "compare_exchange"):
            for bi, t, args in core.atomic_sites(body, "next_tsn", op):
                n += 1
                if body.name == S + "transmit::{closure#0}" and op == "fetch_add" and mir.int_value(args[1]) == 1:
                    held = [f for f, _ in core.held_locks_at(body, bi)]
                    if "sent_queue" in held:
                        r.ok({"site": body.where(bi), "under": "sent_queue lock", "step": 1})
                    else:
                        r.violate(body.name, "fetch_add:next_tsn", body.where(bi), "TSN drawn without the sent_queue lock: records could enter the queue out of TSN order")
                else:
                    r.violate(body.name, "%s:next_tsn" % op, body.where(bi), "TSN counter modified outside transmit()'s fetch_add(1)")
        for bi, t, args in core.atomic_sites(body, "next_tsn", "store"):
            base = body.name.split("::{closure")[0].split("::")[-1]
            if base in ("handle_init", "send_init", "new"):
                r.ok({"site": body.where(bi), "association set-up": base})
            else:
                r.violate(body.name, "store:next_tsn", body.where(bi), "TSN counter reset outside association set-up")
    r.need("next_tsn read-modify-write sites", n, 1)
    # the tsn put into the chunk is the fetched one
    b = ctx.body(S + "transmit::{closure#0}")
    for bi, t, p in core.calls_to(b, suffix("SctpInner::create_data_chunk")):
        tsn = b.term_operand(t["a"][-1])
        if tsn[0] == "call" and tsn[1].endswith("::fetch_add") and tsn[2][0][0] == "field" and tsn[2][0][2] == "next_tsn":
            r.ok({"site": b.where(bi), "chunk TSN": "the value returned by next_tsn.fetch_add(1)"})
        else:
            r.violate(b.name, "arg:tsn", b.where(bi), "DATA chunk built with a TSN that is not the freshly drawn one: %s" % mir.show(tsn, 80))
    return r


TAG_EXCEPTIONS = {
    "send_init": ("const0", "INIT carries verification tag 0 (RFC 4960 8.5.1)"),
    "handle_init": ("init_tag", "INIT-ACK carries the initiate tag of the INIT just received"),
    "handle_init_ack": ("init_tag", "COOKIE ECHO carries the initiate tag of the INIT-ACK just received (the value stored as the peer's tag)"),
    "handle_t1_timeout": ("t1_chunk", "T1 retransmission re-sends INIT/COOKIE-ECHO with the tag stored by t1_start"),
    "send_chunk": ("param", "forwards its verification_tag parameter"),
    "transmit_chunks_with_tag": ("param", "forwards its tag parameter"),
}


def r13_4(ctx):
    r = RuleResult("R13.4", "K4", "every chunk is sent with the peer's verification tag")
    n = 0
    for body in ctx.facts.bodies(prefix="transports::sctp::"):
        if "::tests::" in body.name:
            continue
        for bi, t, p in core.calls_to(body, suffix("SctpInner::send_chunk", "SctpInner::transmit_chunks_with_tag", "SctpInner::send_packet_with_tag")):
            n += 1
            tag = body.term_operand(t["a"][-1])
            base = body.name.split("::{closure")[0].split("::")[-1]
            if core.is_atomic_load(tag, "remote_verification_tag"):
                r.ok({"site": body.where(bi), "tag": "remote_verification_tag.load()"})
                continue
            exc = TAG_EXCEPTIONS.get(base)
            good = False
            if exc:
                kind = exc[0]
                if kind == "const0":
                    good = mir.int_value(tag) == 0
                elif kind == "init_tag":
                    good = tag[0] == "call" and tag[1].endswith("Buf::get_u32")
                elif kind == "t1_chunk":
                    good = mir.has_field(tag, "t1_chunk")
                elif kind == "param":
                    good = tag[0] == "field" and tag[1] == ("env",) and tag[2] in ("verification_tag", "tag")
            if good:
                r.ok({"site": body.where(bi), "exception": exc[1]})
            else:
                r.violate(body.name, "arg:tag", body.where(bi), "chunk sent with a verification tag that is not the peer's: %s" % mir.show(tag, 100))
    r.need("chunk send call sites", n, 11)
    # what T1 retransmits is what t1_start stored: INIT with tag 0, COOKIE ECHO with the PEER's tag (never our own)
    m = 0
    for body in ctx.facts.bodies(prefix="transports::sctp::"):
        if "::tests::" in body.name:
            continue
        for bi, t, p in core.calls_to(body, suffix("SctpInner::t1_start")):
            m += 1
            tag = body.term_operand(t["a"][-1])
            peer = core.is_atomic_load(tag, "remote_verification_tag") or \
                (tag[0] == "call" and tag[1].endswith("Buf::get_u32") and body.name.startswith(S + "handle_init_ack"))
            if peer or mir.int_value(tag) == 0:
                r.ok({"site": body.where(bi), "t1 tag": "peer's tag" if peer else "0 (INIT)"})
            else:
                r.violate(body.name, "t1:tag", body.where(bi),
                          "the T1 timer is armed with a verification tag that is neither the peer's nor 0: every retransmitted COOKIE ECHO "
                          "carries the wrong tag (%s)" % mir.show(tag, 80))
    r.need("t1_start call sites", m, 2)
    # t1_start callers store one of the former
    return r


def r13_5(ctx):
    r = RuleResult("R13.5", "K1", "new data leaves the queue only within the window budget")
    b = ctx.body(S + "transmit::{closure#0}")
    r.scope.append(b.name)
    pops = [(bi, t) for bi, t, p in core.calls_to(b, suffix("VecDeque::<T, A>::pop_front")) if mir.has_field(b.term_operand(t["a"][0]), "outbound_queue")]
    r.need("outbound_queue.pop_front in transmit", len(pops), 1)

    def budget_left(term, meaning, *_):
        return term[0] == "bin" and term[1] == "Gt" and term[2][0] == "var" and term[2][1] == "budget" and mir.int_value(term[3]) == 0 and meaning is True
    g = core.guard_edges(b, budget_left)
    for bi, t in pops:
        if g and core.k1(b, [bi], g, fresh_per_iteration=True)[bi] is None:
            r.ok({"site": b.where(bi), "cut_by": "budget > 0 (re-tested every iteration)"})
        else:
            r.violate(b.name, "pop_front", b.where(bi), "data dequeued for transmission without window budget left")
    bl = [i for i, l in enumerate(b.locals) if l.get("n") == "budget"]
    if not bl:
        raise core.CheckerError("R13.5: variable budget not found")
    srcs = set()
    for t in core.expand_vars(b, ("var", "budget", bl[0]), depth=1) + b.var_def_terms(bl[0]):
        for x in mir.walk(t):
            if x[0] == "call" and x[1].endswith("::load") and x[2] and x[2][0][0] == "field":
                srcs.add(x[2][0][2])
    need = {"peer_rwnd", "cwnd_tx", "flight_size"}
    if need <= srcs:
        r.ok({"budget derives from": sorted(srcs)})
    else:
        r.violate(b.name, "def:budget", b.where(0), "window budget does not depend on %s (depends on %s)" % (sorted(need - srcs), sorted(srcs)))
    # (Until repair R13.12 the budget was bounded by the window through flight_size alone, and a sub-check here required
    # that flight_size be read after the retransmit phase - a stale snapshot let retransmitted bytes escape the peer's
    # window. Since the budget is bounded by peer_rwnd minus ALL unacknowledged bytes, a stale flight_size can only
    # overshoot the congestion window, which C13 does not speak about: the sub-check demanded more than the property and
    # was retired together with its seed, see findings/rejected_seeds/README.md.)
    # budget shrinks by the chunk size on every dequeue
    dec = False
    for bi, si, s in b.assigns():
        if s["p"]["l"] in bl and "p" not in s["p"]:
            v = b.term_rvalue(s["rv"])
            if v[0] == "call" and v[1].endswith("saturating_sub") and v[2][0][0] == "var" and v[2][0][1] == "budget":
                dec = True
    if dec:
        r.ok({"budget": "reduced by the padded chunk size per dequeued chunk"})
    else:
        r.violate(b.name, "dec:budget", b.where(0), "budget is not reduced when a chunk is dequeued")
    return r


SENTQ_TY = "u32, transports::sctp::ChunkRecord"
ORDER_API = ("next", "next_back", "first_key_value", "last_key_value", "first_entry", "last_entry", "pop_first", "pop_last", "range",
             "range_mut", "rev", "split_off", "last", "min", "max", "nth", "peekable", "take", "skip", "take_while", "skip_while")
# reviewed order/position dependent accesses to the TSN-keyed sent queue: (function, method) -> why it is wrap safe
SENTQ_ORDER_OK = {
    ("transports::sctp::oldest_outstanding_tsn", "next"): "the helper that turns map order into serial order (first key, then the first key >= first + 2^31)",
    ("transports::sctp::oldest_outstanding_tsn", "range"): "same helper",
    ("transports::sctp::apply_sack_to_sent_queue", "range"): "gap block [s, e]: queried as s..=e when s <= e, else split into s.. and ..=e (roll-over handled explicitly)",
    ("transports::sctp::SctpInner::update_advanced_peer_ack_point", "range"): "range(head..) chained with range(..head), head = oldest_outstanding_tsn: serial order",
    ("transports::sctp::SctpInner::handle_timeout", "for..break"): "existence test (any record with an expired T3): sets a flag and leaves the loop, independent of order",
    ("transports::sctp::SctpInner::maybe_send_tlp_probe", "rev"): "picks some outstanding chunk as the tail-loss probe; any outstanding chunk is a valid probe",
}

# how many sites of each reviewed (function, method) were read; one more is a new, unreviewed access
SENTQ_ORDER_COUNT = {
    ("transports::sctp::oldest_outstanding_tsn", "next"): 2,
    ("transports::sctp::oldest_outstanding_tsn", "range"): 1,
    ("transports::sctp::apply_sack_to_sent_queue", "range"): 3,
    ("transports::sctp::SctpInner::update_advanced_peer_ack_point", "range"): 2,
    ("transports::sctp::SctpInner::handle_timeout", "for..break"): 1,
    ("transports::sctp::SctpInner::maybe_send_tlp_probe", "rev"): 1,
}


def r13_6(ctx):
    """sent_queue is a BTreeMap keyed by the raw u32 TSN: its order is not TSN order while the outstanding TSNs
    straddle the 2^32 roll-over. Head/tail/range style accesses are therefore confined to a reviewed list; a
    whole-map sweep (for-loop without early exit) is order independent and always allowed."""
    r = RuleResult("R13.6", "K3", "no map-order dependent access to the TSN-keyed sent queue outside the reviewed list")
    n = 0
    seen = {}
    for b in ctx.facts.bodies(prefix="transports::sctp::"):
        if "::tests::" in b.name:
            continue
        loops = None
        for bi, t, p in b.calls():
            if not p or not t["a"] or t["a"][0].get("k") not in ("cp", "mv"):
                continue
            ty = b.locals[t["a"][0]["p"]["l"]]["ty"]
            if SENTQ_TY not in ty:
                continue
            m = p.split("::")[-1]
            if m not in ORDER_API:
                continue
            fn = b.name.split("::{closure")[0]
            if m == "next" and t["sp"]["x"] == "d:ForLoop":
                # a for-loop over the map: order matters only if the loop can be left early
                if loops is None:
                    loops = b.loops()
                mine = [blocks for h, blocks in loops if bi in blocks]
                if not mine:
                    continue
                blocks = min(mine, key=len)
                early = []
                for x in blocks:
                    for tgt, _ in b.succ_edges(x):
                        if tgt not in blocks and b.blocks[tgt]["t"]["k"] != "unreachable" and not _is_iter_none_exit(b, x, tgt, bi):
                            early.append((x, tgt))
                if not early:
                    continue
                m = "for..break"
                key = (fn, m)
            else:
                key = (fn, m)
            n += 1
            seen[key] = seen.get(key, 0) + 1
            if key in SENTQ_ORDER_OK and seen[key] <= SENTQ_ORDER_COUNT.get(key, 1):
                r.ok({"site": b.where(bi), "access": m, "reviewed": SENTQ_ORDER_OK[key][:80]})
            elif key in SENTQ_ORDER_OK:
                r.violate(b.name, "order:%s:extra" % m, b.where(bi),
                          "one more map-order dependent access (%s) to the TSN-keyed sent queue than the %d reviewed in this function: a range or "
                          "head/tail query by raw key misses the records on the other side of the 2^32 roll-over" % (m, SENTQ_ORDER_COUNT.get(key, 1)))
            else:
                r.violate(b.name, "order:%s" % m, b.where(bi),
                          "map-order dependent access (%s) to the TSN-keyed sent queue: the first/last/neighbouring key is not the "
                          "oldest/newest/next TSN while the outstanding TSNs straddle the 2^32 roll-over" % m)
    r.need("order dependent sent-queue accesses", n, 6)
    return r


def _is_iter_none_exit(b, x, tgt, next_bi):
    """edge x->tgt is the `None` edge of the switch on the result of the iterator next() call in block next_bi"""
    if b.blocks[x]["t"]["k"] != "switch":
        return False
    term, outs = b.switch_info(x)
    nt = b.term_call(b.blocks[next_bi]["t"])
    for tg, _, meaning in outs:
        if tg == tgt and meaning == "None" and term[0] == "discr" and term[1] == nt:
            return True
    return False


R13_7_STRICT = True


def r13_7(ctx):
    """a chunk covered by a gap ack block stays in the sent queue (marked `acked`) until the cumulative ack
    passes it. The retransmit phase of transmit() sends every record that has `needs_retransmit`, without
    looking at `acked`; what keeps an acknowledged chunk off the wire is that marking it acked also empties
    its payload (or clears needs_retransmit). So: every `acked = true` is followed, before the sweep moves on,
    by one of those two - or the retransmit phase itself tests `acked`."""
    r = RuleResult("R13.7", "K4", "a gap-acked chunk cannot be retransmitted")
    tb = ctx.body(S + "transmit::{closure#0}")
    guarded = False
    for sb in range(len(tb.blocks)):
        if tb.blocks[sb]["t"]["k"] == "switch":
            term, outs = tb.switch_info(sb)
            if mir.has(term, lambda x: x[0] == "field" and x[2] == "acked"):
                guarded = True
    fn = "transports::sctp::apply_sack_to_sent_queue"
    b = ctx.body(fn)
    r.scope += [fn, tb.name]
    ws = [(bi, si) for bi, si, st in core.field_writes(b, lambda f: f == "acked")
          if si is not None and b.term_rvalue(st["rv"])[:2] == ("const", 1)]
    r.need("acked = true sites in apply_sack_to_sent_queue", len(ws), 1)
    neutral = []
    for bi, si, st in core.field_writes(b, lambda f: f in ("payload", "needs_retransmit")):
        if si is None:
            # call result stored into the field: payload = Bytes::new()
            if not R13_7_STRICT and core._last_field(st["dst"]) == "payload" and (mir.callee_path(st["f"]) or "").endswith("Bytes::new"):
                neutral.append((bi, 10 ** 6))
            continue
        f = core._last_field(st["p"])
        v = b.term_rvalue(st["rv"])
        # emptying the payload is NOT enough: the retransmit phase would push the empty payload - a packet without a chunk
        # (reproduced). Only calling the retransmission off counts (or the retransmit phase testing `acked`).
        if f == "needs_retransmit" and v[:2] == ("const", 0):
            neutral.append((bi, si))
        elif not R13_7_STRICT and f == "payload" and v[0] == "call" and v[1].endswith("Bytes::new"):
            neutral.append((bi, si))
    hdrs = {h for h, blocks in b.loops()}
    rets = {i for i, blk in enumerate(b.blocks) if blk["t"]["k"] == "ret"}
    for wbi, wsi in ws:
        if guarded:
            r.ok({"site": b.where(wbi, wsi), "by": "retransmit phase tests record.acked"})
            continue
        if any(nb == wbi and ns > wsi for nb, ns in neutral):
            r.ok({"site": b.where(wbi, wsi), "then": "payload emptied / needs_retransmit cleared in the same block"})
            continue
        nblocks = {nb for nb, _ in neutral}
        reach = b.reachable([t for t, _ in b.succ_edges(wbi)], cut_blocks=nblocks)
        inner = [blocks for h, blocks in b.loops() if wbi in blocks]
        myhdr = {h for h, blocks in b.loops() if wbi in blocks}
        if (reach & myhdr) or (reach & rets) or not neutral:
            r.violate(fn, "ack:keeps-payload", b.where(wbi, wsi),
                      "a record is marked acked but keeps its payload and its needs_retransmit flag, and the retransmit phase of "
                      "transmit() does not test `acked`: a chunk marked for retransmission and then gap-acked goes on the wire again")
        else:
            r.ok({"site": b.where(wbi, wsi), "then": "payload = Bytes::new() / needs_retransmit = false before the sweep moves on"})
    return r


def r13_8(ctx):
    """receive-window accounting: a chunk buffered out of order is charged to used_rwnd when stored in
    received_queue; whoever takes chunks out again (in-order drain, FORWARD-TSN purge) must give the credit back,
    else the advertised window only ever shrinks and the peer's sender is throttled to a standstill."""
    r = RuleResult("R13.8", "K4", "every removal from the reorder buffer returns its receive-window credit")
    n = 0
    for b in ctx.facts.bodies(prefix="transports::sctp::"):
        if "::tests::" in b.name or b.is_closure and not b.coroutine:
            continue
        rem = [(bi, p.split("::")[-1]) for bi, t, p in b.calls()
               if p and p.endswith(("BTreeMap::<K, V, A>::remove", "BTreeMap::<K, V, A>::retain", "BTreeMap::<K, V, A>::clear", "BTreeMap::<K, V, A>::pop_first"))
               and t["a"] and mir.has_field(b.term_operand(t["a"][0]), "received_queue")]
        ins = [bi for bi, t, p in b.calls() if p and p.endswith("BTreeMap::<K, V, A>::insert") and t["a"] and mir.has_field(b.term_operand(t["a"][0]), "received_queue")]
        ins += [bi for bi, t, p in b.calls() if p and p.split("::")[-1] in ("or_insert", "or_insert_with") and t["a"] and
                mir.has(b.term_operand(t["a"][0]), lambda x: x[0] == "call" and x[1].endswith("::entry") and mir.has_field(x, "received_queue"))]
        if not rem and not ins:
            continue
        r.scope.append(b.name)
        dec = [x[0] for x in core.atomic_sites(b, "used_rwnd", "fetch_sub")] + [x[0] for x in core.atomic_sites(b, "used_rwnd", "fetch_update")]
        inc = [x[0] for x in core.atomic_sites(b, "used_rwnd", "fetch_add")]
        for bi, m in rem:
            n += 1
            reach = core.reach_from(b, bi)
            if any(d in reach or d == bi for d in dec):
                r.ok({"site": b.where(bi), "op": m, "credit": "used_rwnd decremented afterwards"})
            else:
                r.violate(b.name, "rwnd:no-credit", b.where(bi),
                          "chunks leave the reorder buffer (%s) but used_rwnd is never decremented in this function: the advertised "
                          "receive window leaks" % m)
        for bi in ins:
            n += 1
            if inc and core.must_pass(b, bi, inc):
                r.ok({"site": b.where(bi), "op": "insert", "charge": "used_rwnd.fetch_add before the insert"})
            else:
                r.violate(b.name, "rwnd:no-charge", b.where(bi), "a chunk is buffered without being charged to used_rwnd")
    r.need("reorder buffer insert/removal sites", n, 4)
    return r


def r13_9(ctx):
    """window bookkeeping is driven by SACKs, and every decision about a SACK (is it newer? stale? a duplicate?)
    compares TSNs. Comparing the SACK's cumulative ack (our TSN space) with the receive point (the peer's space)
    gives a coin flip fixed per association: in half of them every advertised window is then ignored and the
    sender keeps injecting into a closed window. Same units rule as R01.7, claimed here for the window clause."""
    r = RuleResult("R13.9", "K6/units", "SACK handling never relates own-space and peer-space TSNs (window updates cannot be gated on a meaningless comparison)")
    from rules import c01
    rr = c01.r01_7(ctx)
    r.scope = rr.scope
    r.obligations, r.discharged = rr.obligations, rr.discharged
    r.sites, r.floor = rr.sites, rr.floor
    r.samples = rr.samples
    for v in rr.violations:
        r.violate(v.fn, v.site, v.where, v.msg, v.path)
        r.obligations -= 1
    return r


def r13_10(ctx):
    """'the sender stops injecting new data once the receiver's advertised window is exhausted': in transmit() the
    budget for new data is min(cwnd-term, peer_rwnd) - flight. The advertised window has to enter that minimum as
    advertised. Raising it on the way (a floor of one packet 'as a zero-window probe') re-opens a closed window by a
    packet for EVERY transmit call: flight_size does not count gap-acked or lost-marked chunks, so with a hole
    outstanding each arriving SACK releases another full chunk into a window the peer has declared closed."""
    r = RuleResult("R13.10", "K6/provenance", "the peer's advertised window enters the send budget unmodified")
    fn = "transports::sctp::SctpInner::transmit::{closure#0}"
    b = ctx.body(fn)
    r.scope.append(fn)
    n = 0
    for bi, t, p in b.calls():
        if not p or not p.endswith("::min") or len(t["a"]) != 2:
            continue
        args = [b.term_operand(a) for a in t["a"]]
        w = [a for a in args if mir.has(a, lambda x: core.is_atomic_load(x, "peer_rwnd"))]
        if not w:
            continue
        n += 1
        a = w[0]

        def not_raised(x):
            """x is the advertised window, or something that can only be SMALLER (saturating_sub / Sub of it, a min with it)"""
            if core.is_atomic_load(x, "peer_rwnd"):
                return True
            if x[0] == "cast":
                return not_raised(x[1])
            if x[0] == "call" and x[1].endswith(("saturating_sub", "checked_sub", "wrapping_sub")) and x[2]:
                return not_raised(x[2][0])
            if x[0] == "bin" and x[1] in ("Sub", "SubUnchecked"):
                return not_raised(x[2])
            if x[0] == "call" and x[1].endswith("::min") and len(x[2]) == 2:
                hasw = [y for y in x[2] if mir.has(y, lambda z: core.is_atomic_load(z, "peer_rwnd"))]
                return bool(hasw) and all(not_raised(y) for y in hasw)
            return False
        if not_raised(a):
            r.ok({"site": b.where(bi), "window term": mir.show(a, 80)})
        else:
            r.violate(fn, "rwnd:modified", b.where(bi),
                      "the advertised window enters the send budget as %s, not as advertised: a raised / floored window lets new DATA "
                      "into a window the peer has closed" % mir.show(a, 100))
    r.need("min(.., peer_rwnd) in transmit", n, 1)
    return r


def r13_11(ctx):
    """'every SCTP packet ... carries the peer's verification tag, and newly sent DATA chunks carry consecutive TSNs': both
    are fixed by the handshake (INIT / INIT-ACK set the peer's tag - never 0 - and our initial TSN). transmit() is also
    woken while the handshake has not even started: the transport exists from DTLS start, and a channel created (or a
    message sent) in that window queues data and fires timer_notify. Data dequeued then leaves with verification tag 0
    and a TSN that the handshake overwrites afterwards - the sent queue ends up with two unrelated TSN ranges. Decided:
    in transmit() new data is taken off the outbound queue only on the edge on which the peer's tag is known
    (remote_verification_tag != 0) or the association is Connected."""
    r = RuleResult("R13.11", "K1", "no new DATA is dequeued before the handshake has fixed the peer's tag and our TSN")
    b = ctx.body(S + "transmit::{closure#0}")
    r.scope.append(b.name)
    pops = [bi for bi, t, p in b.calls() if p and p.endswith("::pop_front") and t["a"] and mir.has_field(b.term_operand(t["a"][0]), "outbound_queue")]
    r.need("dequeues from the outbound queue in transmit", len(pops), 1)

    def peer_known(term, meaning, *_):
        if term[0] == "bin" and term[1] in ("Ne", "Eq") and isinstance(meaning, bool) and \
                any(core.is_atomic_load(x, "remote_verification_tag") for x in (term[2], term[3])) and \
                any(mir.int_value(x) == 0 for x in (term[2], term[3])):
            return meaning is (term[1] == "Ne")
        if term[0] == "call" and "PartialEq" in term[1] and isinstance(meaning, bool) and \
                mir.has(term, lambda x: x[0] == "call" and x[1].endswith("::lock") and x[2] and mir.has_field(x[2][0], "state")) and \
                mir.has(term, lambda x: x[0] == "agg" and x[2] == "Connected"):
            return meaning is term[1].endswith("::eq")
        return False
    g = core.lift_guards(b, core.guard_edges(b, peer_known))
    for bi in pops:
        if g and core.k1(b, [bi], g, fresh_per_iteration=True)[bi] is None:
            r.ok({"site": b.where(bi), "cut_by": "the peer's verification tag is known / the association is up"})
        else:
            r.violate(b.name, "data:before-handshake", b.where(bi),
                      "new DATA is dequeued and given a TSN whatever the state of the handshake: a message submitted before INIT / INIT-ACK leaves "
                      "with verification tag 0 and a TSN that the handshake then overwrites")
    return r


def r13_12(ctx):
    """'The sender stops injecting new data once the receiver's advertised window is exhausted (beyond a single packet)':
    what uses up the peer's window is everything it has not acknowledged - in flight or not. flight_size is a congestion
    quantity: a T3 expiry zeroes it and puts only a burst of chunks back, the rest waits (unacknowledged, not in flight).
    A budget of min(cwnd, rwnd) - flight_size therefore admits one more NEW chunk per T3 cycle while nothing is being
    acknowledged, without bound (reproduced: rwnd 8192, six expiries -> 13 KB outstanding). Decided: the new-data
    budget of transmit() is also bounded by peer_rwnd minus the bytes of all unacknowledged records of the sent queue."""
    r = RuleResult("R13.12", "K6/dataflow", "the new-data budget is bounded by the advertised window minus everything unacknowledged")
    b = ctx.body(S + "transmit::{closure#0}")
    r.scope.append(b.name)
    bl = [i for i, l in enumerate(b.locals) if l.get("n") == "budget"]
    if not bl:
        raise core.CheckerError("R13.12: variable budget not found")
    terms = core.expand_vars(b, ("var", "budget", bl[0]), depth=2) + b.var_def_terms(bl[0])

    def outstanding_bound(x):
        if x[0] == "call" and x[1].endswith(("saturating_sub", "checked_sub")) and len(x[2]) == 2:
            a, c = x[2]
        elif x[0] == "bin" and x[1] in ("Sub", "SubUnchecked"):
            a, c = x[2], x[3]
        else:
            return False
        return mir.has(a, lambda z: core.is_atomic_load(z, "peer_rwnd")) and not mir.has(a, lambda z: core.is_atomic_load(z, "cwnd_tx")) and \
            mir.has(c, lambda z: z[0] == "call" and z[1].endswith("::sum")) and mir.has_field(c, "sent_queue")
    if any(mir.has(t, outstanding_bound) for t in terms):
        r.ok({"budget": "min(.., peer_rwnd - sum of unacknowledged bytes in the sent queue)"})
    else:
        r.violate(b.name, "budget:ignores-outstanding", b.where(0),
                  "the new-data budget is judged against flight_size only: after a T3 expiry (flight_size reset, most chunks waiting for their "
                  "turn) each cycle admits another new chunk into a window the peer has not re-opened")
    return r


def _eval2(t, env):
    """evaluate a small integer / comparison term; env maps predicates -> values (None if not evaluable)"""
    for pred, v in env:
        if pred(t):
            return v
    if t[0] == "const":
        return t[1] if isinstance(t[1], int) else None
    if t[0] == "cast":
        return _eval2(t[1], env)
    if t[0] == "field" and t[2] == "0" and t[1][0] == "bin":
        return _eval2(t[1], env)
    if t[0] == "un" and t[1] == "Not":
        a = _eval2(t[2], env)
        return None if a is None else (not a)
    if t[0] == "bin":
        a, c = _eval2(t[2], env), _eval2(t[3], env)
        if a is None or c is None:
            return None
        op = t[1].replace("WithOverflow", "").replace("Unchecked", "")
        return {"Add": lambda: a + c, "Sub": lambda: a - c, "Mul": lambda: a * c, "Gt": lambda: a > c, "Ge": lambda: a >= c,
                "Lt": lambda: a < c, "Le": lambda: a <= c, "Eq": lambda: a == c, "Ne": lambda: a != c}.get(op, lambda: None)()
    if t[0] == "call" and t[1].endswith(("saturating_sub", "wrapping_sub")) and len(t[2]) == 2:
        a, c = _eval2(t[2][0], env), _eval2(t[2][1], env)
        return None if a is None or c is None else max(a - c, 0)
    if t[0] == "call" and t[1].endswith(("::max", "::min")) and len(t[2]) == 2:
        a, c = _eval2(t[2][0], env), _eval2(t[2][1], env)
        return None if a is None or c is None else (max(a, c) if t[1].endswith("::max") else min(a, c))
    if t[0] == "call" and t[1].endswith(("saturating_add", "wrapping_add")) and len(t[2]) == 2:
        a, c = _eval2(t[2][0], env), _eval2(t[2][1], env)
        return None if a is None or c is None else a + c
    return None


def r13_13(ctx):
    """'The sender stops injecting new data once the receiver's advertised window is exhausted': what counts against the
    window is what the peer has not acknowledged and the sender has not given up. should_abandon decides the giving up.
    transmit_count is 1 after the first transmission and is raised whenever a retransmission is scheduled;
    max_retransmits limits RE-transmissions. With `transmit_count > max_retransmits` a maxRetransmits=0 message was given
    up in the very transmit() call that sent it: its bytes left flight_size and the outstanding sum at once and the next
    call found the window open again without any SACK (40 KB into a 4 KB window). Decided, over the finite set of
    orderings that matter: the comparison in should_abandon is false for transmit_count = 1 (sent once, no retransmission
    scheduled yet) and true for max_r + 2 (it does give up eventually), for max_r in {0, 1, 5, 65535}. (Whether
    max_retransmits = n allows n or n - 1 retransmissions is the project's convention - its unit test fixes it - and not
    decided here.)"""
    r = RuleResult("R13.13", "K6", "a partially reliable message is given up only when one more retransmission than allowed is needed")
    b = ctx.body(S + "should_abandon")
    r.scope.append(b.name)
    site = None
    for sb in range(len(b.blocks)):
        if sb in b.cleanup or b.blocks[sb]["t"]["k"] != "switch":
            continue
        term, outs = b.switch_info(sb)
        if mir.has_field(term, "transmit_count") and mir.has_field(term, "max_retransmits"):
            site = (sb, term, outs)
    if site is None:
        raise core.CheckerError("R13.13: comparison of transmit_count with max_retransmits not found in should_abandon")
    sb, term, outs = site
    is_tc = lambda t: t[0] == "field" and t[2] == "transmit_count"
    is_mr = lambda t: mir.has_field(t, "max_retransmits") and t[0] in ("field", "downcast", "proj") and not mir.has_field(t, "transmit_count") and \
        not (t[0] == "bin")
    bad = []
    for mr in (0, 1, 5, 65535):
        for tc, want in ((1, False), (mr + 2, True)):
            v = _eval2(term, [(is_tc, tc), (is_mr, mr)])
            if v is None:
                raise core.CheckerError("R13.13: cannot evaluate %s" % mir.show(term, 120))
            if bool(v) is not want:
                bad.append((tc, mr, bool(v)))
    # which edge returns true?  the evaluation above speaks about the comparison; make sure its true edge is the abandon
    if not bad:
        r.ok({"site": b.where(sb), "comparison": mir.show(term, 100), "checked": "false at transmit_count 1, true at max_r+2, for max_r in {0,1,5,65535}"})
    else:
        tc, mr, v = bad[0]
        r.violate(b.name, "abandon:off-by-one", b.where(sb),
                  "should_abandon compares %s: for transmit_count=%d, max_retransmits=%d it says %s - a message is given up %s" % (
                      mir.show(term, 90), tc, mr, v,
                      "before a retransmission was ever needed: its bytes stop counting against the peer's window right after the first transmission"
                      if v else "too late"))
    return r


def r13_14(ctx):
    """'falls silent apart from heartbeats once everything submitted has been acknowledged': a FORWARD-TSN is sent when
    forward_tsn_pending is set; handle_sack re-arms it while the peer's cumulative ack is behind the advanced ack point
    (R01.13). What takes it down decides whether the sender ever falls silent: either each transmission consumes the flag
    (`swap(false)`), or - if the flag is level-triggered - handle_sack lowers it on EVERY path on which the peer is not
    behind any more (cumulative ack == ack point included; a clear only for `>` leaves it up for good after the exact
    acknowledgement, and every later transmit() pass emits another FORWARD-TSN)."""
    r = RuleResult("R13.14", "K4", "the FORWARD-TSN trigger is consumed by sending, or lowered whenever the peer has caught up")
    b = ctx.body(S + "transmit::{closure#0}")
    r.scope.append(b.name)
    consumed = [bi for bi, t, a in core.atomic_sites(b, "forward_tsn_pending", "swap") if mir.int_value(a[1]) == 0]
    loads = [bi for bi, t, p in b.calls() if p and p.endswith("::load") and t["a"] and mir.has_field(b.term_operand(t["a"][0]), "forward_tsn_pending")]
    if not consumed and not loads:
        raise core.CheckerError("R13.14: transmit no longer reads forward_tsn_pending")
    if consumed and not loads:
        r.ok({"site": b.where(consumed[0]), "trigger": "consumed by swap(false) when the FORWARD-TSN is built"})
        return r
    hs = ctx.body(S + "handle_sack::{closure#0}")
    r.scope.append(hs.name)
    lowers = [bi for bi, t, a in core.atomic_sites(hs, "forward_tsn_pending", "store") if mir.int_value(a[1]) == 0]
    behind = []
    for sb in range(len(hs.blocks)):
        if sb in hs.cleanup or hs.blocks[sb]["t"]["k"] != "switch":
            continue
        term, outs = hs.switch_info(sb)
        if term[0] == "call" and term[1].endswith("tsn_gt") and len(term[2]) == 2 and \
                mir.has(term[2][0], lambda x: core.is_atomic_load(x, "advanced_peer_ack_tsn") or (x[0] == "var" and x[1] == "advanced")) and \
                not mir.has(term[2][1], lambda x: core.is_atomic_load(x, "advanced_peer_ack_tsn") or (x[0] == "var" and x[1] == "advanced")):
            behind += [(sb, tgt) for tgt, _, m in outs if m is False]
    if not behind:
        raise core.CheckerError("R13.14: the `advanced > cumulative ack` test was not found in handle_sack")
    ok = bool(lowers) and all(tgt in lowers or core.always_followed_by(hs, sb, lowers, cut_edges=[(sb, t) for t, _ in hs.succ_edges(sb) if t != tgt] + list(hs.back_edges()))
                              for sb, tgt in behind)
    if ok:
        r.ok({"trigger": "level-triggered; lowered on every caught-up path of handle_sack"})
    else:
        r.violate(b.name, "forward-tsn:never-lowered", b.where(loads[0]),
                  "transmit() sends a FORWARD-TSN whenever forward_tsn_pending is set and does not consume it; handle_sack does not lower it on "
                  "every path on which the peer has caught up (cumulative ack == ack point): after the exact acknowledgement every later "
                  "transmit pass emits another FORWARD-TSN although everything is acknowledged")
    return r


def run(ctx):
    return [r13_1(ctx), r13_2(ctx), r13_3(ctx), r13_4(ctx), r13_5(ctx), r13_6(ctx), r13_7(ctx), r13_8(ctx), r13_9(ctx), r13_10(ctx), r13_11(ctx), r13_12(ctx), r13_13(ctx), r13_14(ctx)]
