#!/bin/bash
# usage: tools/seed_try.sh <patch.diff> <ID> [<ID>...]   -- apply a seeded change to /repo, run quick checks, undo.
set -u
patch=$1; shift
cd /repo || exit 2
if ! git diff --quiet; then echo "repo dirty"; exit 2; fi
git apply "$patch" || exit 2
trap 'git -C /repo checkout -- . ; git -C /repo status --short | head' EXIT
for id in "$@"; do
  echo "== $id"
  VERIF_EVIDENCE_DIR=$(mktemp -d) /verif/check "$id" --tier quick 2>&1 | grep -v "^KNOWN-FINDING" | tail -15
  echo "exit=${PIPESTATUS[0]}"
done
