#!/bin/bash
# run every stored seeded change against the current /repo and report whether its property's quick check fires
cd /repo || exit 2
if ! git diff --quiet; then echo "repo dirty"; exit 2; fi
for d in /verif/seeded/*/; do
  name=$(basename $d); id=${name%%-*}
  if ! git apply --check $d/patch.diff 2>/dev/null; then
     if git apply --check --3way $d/patch.diff 2>/dev/null; then :; fi
     echo "$name: patch no longer applies to HEAD"; continue
  fi
  git apply $d/patch.diff
  out=$(VERIF_EVIDENCE_DIR=$(mktemp -d) /verif/check $id --tier quick 2>&1); rc=$?
  git checkout -- .
  rule=$(echo "$out" | grep -o "\[R[0-9.b]*|" | sort -u | tr -d '[|' | tr '\n' ' ')
  echo "$name: exit=$rc rules=$rule"
done
