use rustrtc::transports::ice::IceGathererState;
use rustrtc::transports::sctp::DataChannelConfig;
use rustrtc::{PeerConnection, RtcConfiguration};
use std::time::Duration;

async fn wait_gather_complete(pc: &PeerConnection) {
    loop {
        if pc.ice_transport().gather_state() == IceGathererState::Complete { break; }
        tokio::time::sleep(Duration::from_millis(20)).await;
    }
}

async fn signal_loopback(offerer: &PeerConnection, answerer: &PeerConnection) -> anyhow::Result<()> {
    let _ = offerer.create_offer().await?;
    wait_gather_complete(offerer).await;
    let offer = offerer.create_offer().await?;
    offerer.set_local_description(offer.clone())?;
    answerer.set_remote_description(offer).await?;
    let _ = answerer.create_answer().await?;
    wait_gather_complete(answerer).await;
    let answer = answerer.create_answer().await?;
    answerer.set_local_description(answer.clone())?;
    offerer.set_remote_description(answer).await?;
    Ok(())
}

// Dropping every handle of a connected PeerConnection (no close()) must release its background tasks.
#[tokio::test(flavor = "multi_thread", worker_threads = 4)]
async fn verif_dropping_a_connected_peer_connection_releases_its_tasks() -> anyhow::Result<()> {
    let metrics = tokio::runtime::Handle::current().metrics();
    let base = metrics.num_alive_tasks();
    {
        let pc1 = PeerConnection::new(RtcConfiguration::default());
        let pc2 = PeerConnection::new(RtcConfiguration::default());
        let _dc1 = pc1.create_data_channel("x", Some(DataChannelConfig { negotiated: Some(0), ..Default::default() }))?;
        let _dc2 = pc2.create_data_channel("x", Some(DataChannelConfig { negotiated: Some(0), ..Default::default() }))?;
        signal_loopback(&pc1, &pc2).await?;
        pc1.wait_for_connected().await?;
        pc2.wait_for_connected().await?;
        tokio::time::sleep(Duration::from_millis(400)).await;
        eprintln!("VERIF connected: alive tasks = {} (baseline {})", metrics.num_alive_tasks(), base);
        // everything the application holds goes out of scope here - without close()
    }
    let mut last = 0;
    for _ in 0..100 {
        tokio::time::sleep(Duration::from_millis(100)).await;
        last = metrics.num_alive_tasks();
        if last <= base { break; }
    }
    eprintln!("VERIF after drop: alive tasks = {} (baseline {})", last, base);
    assert!(last <= base, "{} background tasks still alive 10 s after both connections were dropped", last - base);
    Ok(())
}
