"""Byte-layout extraction for sibling agreement rules: which byte positions of a wire buffer a parser
computes each struct field from, and which positions a marshaller writes each field to.  Only the fixed part of
a message is modelled (straight-line main path: no loops; validation branches are followed on the arm where
the reads/writes continue).  Both styles used in the repository are understood:
  * positional: `buf[3]`, `u32::from_be_bytes([b[0], ..])`, `out[4..8].copy_from_slice(..)`, `out[4] = x`
  * sequential: `Buf::get_uN` / `advance`, `BufMut::put_uN`, `extend_from_slice`, `push`, `put_slice`
A field only takes part in a comparison when both sides yield its positions."""
from engine import mir

_W = {"u8": 1, "i8": 1, "u16": 2, "i16": 2, "u32": 4, "i32": 4, "u64": 8, "i64": 8, "u128": 16}
GETS = {"get_u8": 1, "get_i8": 1, "get_u16": 2, "get_i16": 2, "get_u32": 4, "get_i32": 4, "get_u64": 8, "get_i64": 8}
PUTS = {"put_u8": 1, "put_i8": 1, "put_u16": 2, "put_i16": 2, "put_u32": 4, "put_i32": 4, "put_u64": 8, "put_i64": 8}
WRITE_CALLS = ("::extend_from_slice", "::push", "::copy_from_slice", "::put_slice") + tuple("::" + k for k in PUTS)
READ_CALLS = tuple("::" + k for k in GETS) + ("::advance",)


def _main_path(b, interesting):
    """blocks of the straight-line main path from the entry (stops at loops / ambiguous branches)"""
    loops = set()
    for h, blocks in b.loops():
        loops |= blocks
    out, seen, bi = [], set(), 0

    def weight(x):
        return sum(1 for y in b.reachable([x]) if b.blocks[y]["t"]["k"] == "call" and
                   (mir.callee_path(b.blocks[y]["t"]["f"]) or "").endswith(interesting))
    while bi is not None and bi not in seen and bi not in loops:
        seen.add(bi)
        out.append(bi)
        t = b.blocks[bi]["t"]
        nxt = None
        if t["k"] in ("call", "goto", "drop", "assert"):
            nxt = t.get("to")
        elif t["k"] == "switch":
            arms = sorted(((weight(tg), tg) for tg, _ in b.succ_edges(bi)), reverse=True)
            if arms and arms[0][0] > 0 and (len(arms) == 1 or arms[0][0] > arms[1][0]):
                nxt = arms[0][1]
            elif len(arms) == 2 and arms[0][0] == arms[1][0] > 0:
                # a diamond (`if flag { b0 |= .. }`): both arms rejoin; follow one if neither does any read/write
                # of the wire buffer before the join
                r1, r2 = b.reachable([arms[0][1]]), b.reachable([arms[1][1]])
                excl = (r1 ^ r2)
                if not any(b.blocks[y]["t"]["k"] == "call" and (mir.callee_path(b.blocks[y]["t"]["f"]) or "").endswith(interesting)
                           for y in excl):
                    nxt = min(arms[0][1], arms[1][1], key=lambda x: len(b.reachable([x])))
                    # take the arm that reaches fewer blocks first? no: take the one that is the join itself if any
                    if arms[0][1] in r2 and arms[0][1] != arms[1][1]:
                        nxt = arms[1][1] if arms[1][1] not in r1 else arms[0][1]
        bi = nxt
    return out


PURE_CALLS = ("::to_be_bytes", "::from_be_bytes", "::to_le_bytes", "::from_le_bytes", "::try_from", "::from", "::into", "::try_into",
              "::index", "::index_mut", "::clamp", "::min", "::max", "::as_ref", "::deref", "::clone")


def _pure(t):
    """the value is a plain re-encoding of its inputs: no lengths, no splitting, no lookups"""
    for x in mir.walk(t):
        if x[0] == "call" and not x[1].endswith(PURE_CALLS) and x[1].split("::")[-1] not in GETS:
            return False
        if x[0] in ("var", "phi", "unknown", "await"):
            return False
    return True


def _const_index_bytes(t):
    out = set()
    for x in mir.walk(t):
        if x[0] == "index" and x[2][0] == "const" and x[1][0] in ("arg", "var", "call"):
            out.add(x[2][1])
    return out


def _root(b, op, hops=8):
    """follow copies / casts of single-definition temporaries back to the local that produced the value"""
    if op.get("k") not in ("cp", "mv") or "p" in op["p"]:
        return None
    l = op["p"]["l"]
    for _ in range(hops):
        ds = b.defs().get(l, [])
        if len(ds) != 1 or ds[0][0] != "s":
            return l
        rv = b.blocks[ds[0][1]]["s"][ds[0][2]]["rv"]
        src = None
        if rv["r"] == "use" and rv["o"].get("k") in ("cp", "mv") and "p" not in rv["o"]["p"]:
            src = rv["o"]["p"]["l"]
        elif rv["r"] == "cast" and rv["o"].get("k") in ("cp", "mv") and "p" not in rv["o"]["p"]:
            src = rv["o"]["p"]["l"]
        if src is None:
            return l
        l = src
    return l


def parser_layout(b, adt_prefix=None):
    """field name -> set of byte offsets the field is computed from"""
    out = {}
    cur = 0
    got = {}              # dst local of a sequential get -> offsets
    cursor = None
    for bi in _main_path(b, READ_CALLS + ("::split_to",)):
        t = b.blocks[bi]["t"]
        if t["k"] != "call":
            continue
        p = mir.callee_path(t["f"]) or ""
        name = p.split("::")[-1]
        if cursor is not None and cur is not None and name not in GETS and name not in ("advance", "remaining", "len", "is_empty", "has_remaining", "chunk"):
            # anything else that gets hold of the cursor (a closure capturing it, a helper taking &mut) may consume bytes
            if any(mir.has(b.term_operand(a), lambda x: x == cursor) for a in t["a"]):
                cur = None
        if name in GETS and ("Buf" in p or "bytes" in p) and cur is not None:
            if cursor is None and t["a"]:
                cursor = b.term_operand(t["a"][0])
            w = GETS[name]
            if "p" not in t["dst"]:
                got[t["dst"]["l"]] = set(range(cur, cur + w))
            cur += w
        elif name == "advance" and len(t["a"]) == 2 and cur is not None:
            n = b.term_operand(t["a"][1])
            v = mir.int_value(n)
            cur = cur + v if isinstance(v, int) else None
        elif name in ("split_to", "split_off", "copy_to_bytes", "copy_to_slice"):
            cur = None
    for bi, si, st in b.assigns():
        rv = st["rv"]
        if rv["r"] == "agg" and rv.get("ak") == "adt" and rv.get("fields") and (adt_prefix is None or rv["adt"].startswith(adt_prefix)):
            for f, o in zip(rv["fields"], rv["ops"]):
                t = b.term_operand(o)
                if t[0] in ("try_continue",):
                    t = t[1]
                offs = set()
                r = _root(b, o)
                if r in got:
                    offs |= got[r]
                elif _pure(t):
                    offs |= _const_index_bytes(t)
                if offs:
                    out.setdefault(f, set()).update(offs)
    return out


def _names_in(t, params):
    out = set()
    for x in mir.walk(t):
        if x[0] == "field" and x[1][0] in ("arg", "field"):
            out.add(x[2])
        elif x[0] == "arg" and x[1] in params and x[1] != "self":
            out.add(x[1])
    return out


def _width_of(t):
    if t[0] == "call" and t[1].endswith("::to_be_bytes"):
        for k, w in _W.items():
            if "<impl %s>" % k in t[1]:
                return w
    if t[0] == "array":
        return len(t[1])
    if t[0] == "repeat" and isinstance(t[2], int):
        return t[2]
    return None


def writer_layout(b):
    """field / parameter name -> set of byte offsets of the output it is written to"""
    params = {b.locals[i].get("n") for i in range(1, b.argc + 1)}
    out = {}
    cur = 0
    for bi in _main_path(b, WRITE_CALLS):
        blk = b.blocks[bi]
        for st in blk["s"]:
            if st["k"] != "as":
                continue
            proj = st["p"].get("p", ())
            if len(proj) == 1 and isinstance(proj[0], dict) and ("ci" in proj[0] or "ix" in proj[0]):
                k = proj[0].get("ci")
                if k is None and isinstance(proj[0].get("ix"), int):
                    kt = b.term_local(proj[0]["ix"])
                    k = kt[1] if kt and kt[0] == "const" else None
                if k is not None and _pure(b.term_rvalue(st["rv"])):
                    for n in _names_in(b.term_rvalue(st["rv"]), params):
                        out.setdefault(n, set()).add(k)
        t = blk["t"]
        if t["k"] != "call":
            continue
        p = mir.callee_path(t["f"]) or ""
        name = p.split("::")[-1]
        args = [b.term_operand(a) for a in t["a"]]
        if name in PUTS and len(args) == 2 and cur is not None:
            w = PUTS[name]
            if _pure(args[1]):
                for n in _names_in(args[1], params):
                    out.setdefault(n, set()).update(range(cur, cur + w))
            cur += w
        elif name == "extend_from_slice" and len(args) == 2 and cur is not None:
            w = _width_of(args[1])
            if w is None:
                cur = None
            else:
                if _pure(args[1]):
                    for n in _names_in(args[1], params):
                        out.setdefault(n, set()).update(range(cur, cur + w))
                cur += w
        elif name == "push" and len(args) == 2 and cur is not None:
            if _pure(args[1]):
                for n in _names_in(args[1], params):
                    out.setdefault(n, set()).add(cur)
            cur += 1
        elif name in ("put_slice", "put", "extend"):
            cur = None
        elif name == "copy_from_slice" and len(args) == 2:
            rng = [x for x in mir.walk(args[0]) if x[0] == "agg" and x[1].endswith("ops::Range") and len(x[3]) == 2]
            if rng and rng[0][3][0][0] == "const" and rng[0][3][1][0] == "const":
                a, e = rng[0][3][0][1], rng[0][3][1][1]
                if _pure(args[1]) or True:
                    for n in _names_in(args[1], params):
                        out.setdefault(n, set()).update(range(a, e))
    return out


def compare(r, core, ctx, pairs, adt_prefix=None):
    """common driver: pairs = [(parser fn, writer fn)]; reports into RuleResult r; returns number of fields compared"""
    compared = 0
    for pf, wf in pairs:
        if not (ctx.facts.has_body(pf) and ctx.facts.has_body(wf)):
            raise core.CheckerError("%s: %s / %s not found" % (r.rule_id, pf, wf))
        pb, wb = ctx.body(pf), ctx.body(wf)
        r.scope += [pf, wf]
        pl, wl = parser_layout(pb, adt_prefix), writer_layout(wb)
        for f in sorted(set(pl) & set(wl)):
            compared += 1
            if pl[f] == wl[f]:
                r.ok({"pair": "%s / %s" % (pf.split("::")[-1], wf.split("::")[-1]), "field": f, "bytes": sorted(pl[f])})
            else:
                r.violate(wf, "layout:%s" % f, wb.where(0),
                          "field %s is parsed from bytes %s by %s but written to bytes %s by %s" %
                          (f, sorted(pl[f]), pf, sorted(wl[f]), wf))
        r.notes.append("%s: parser fields %s | writer fields %s" % (pf, {k: sorted(v) for k, v in sorted(pl.items())}, {k: sorted(v) for k, v in sorted(wl.items())}))
    return compared
