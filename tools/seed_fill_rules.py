#!/usr/bin/env python3
"""usage: tools/seed_fill_rules.py <seed_all log>
replaces placeholder rule ids (R07.x ...) in seeded/*/meta.json `caught_by` by the rule ids the seed_all run reported"""
import sys, json, re, os
log = open(sys.argv[1]).read()
got = {}
for l in log.splitlines():
    m = re.match(r"(\S+): exit=(\d+) rules=(.*)$", l)
    if m:
        got[m.group(1)] = (m.group(2), m.group(3).split())
for name, (rc, rules) in sorted(got.items()):
    p = "/verif/seeded/%s/meta.json" % name
    if not os.path.exists(p):
        continue
    m = json.load(open(p))
    cb = m["check_result"]["caught_by"]
    if re.search(r"R\d\d\.x", cb) and rules:
        m["check_result"]["caught_by"] = re.sub(r"R\d\d\.x", " / ".join(rules), cb, count=1)
        json.dump(m, open(p, "w"), indent=1)
        print(name, "->", m["check_result"]["caught_by"][:100])
