"""C09 — signaling state follows the JSEP state machine; rejected calls change nothing."""
from engine import core, mir
from engine.core import RuleResult, suffix

EXPLANATION = (
    "Static analysis of rustc MIR of peer_connection. R09.1 (table agreement): from set_local_description, "
    "set_remote_description, create_offer, create_answer the triples (SDP type arm, state required, state sent) are "
    "extracted from the CFG (switch on desc.sdp_type, `*state.borrow() != X` tests, signaling_state.send(Y) calls) and "
    "compared with the JSEP table restricted as the API documents (pranswer keeps the state, rollback -> NotImplemented). "
    "R09.3 (who-may): signaling_state.send has no other caller than those functions and close. R09.2 (no effect before "
    "failure): in the public calls no CFG path leads from an effect (signaling_state.send, store of local/remote "
    "description, transceiver negotiation setters, re-INVITE application, mid counter) to an Err return. Decides state "
    "machine shape and atomicity structure for every call sequence; does not decide byte equality of descriptions.")
ASSUMPTIONS = ["effects are the listed direct sites plus the named callees (handle_reinvite, cleanup_orphaned_extra_transports, transceiver setters); deeper callees are summarised by name",
               "unwind edges are not paths"]
TRUSTED_BASE = ["rustc MIR construction", "engine CFG/terms", "JSEP table and effect list in rules/c09.py"]

PC = "peer_connection::PeerConnection::"
SLD = PC + "set_local_description"
SRD = PC + "set_remote_description::{closure#0}"
CO = PC + "create_offer::{closure#0}"
CA = PC + "create_answer::{closure#0}"
# create_offer / create_answer do their work in build_description: the mids it assigns (ensure_mid) are effects of the API call
BD = "peer_connection::PeerConnectionInner::build_description::{closure#0}"

JSEP = {
    SLD: {"Offer": ({"Stable"}, {"HaveLocalOffer"}), "Answer": ({"HaveRemoteOffer"}, {"Stable"}),
          "Pranswer": ({"HaveRemoteOffer"}, set()), "Rollback": ("ERR", set())},
    SRD: {"Offer": ({"Stable"}, {"HaveRemoteOffer"}), "Answer": ({"HaveLocalOffer"}, {"Stable"}),
          "Pranswer": ({"HaveLocalOffer"}, set()), "Rollback": ("ERR", set())},
}


def _state_of(t):
    for x in mir.walk(t):
        if x[0] == "agg" and x[1].endswith("peer_connection::SignalingState"):
            return x[2]
    return None


def _is_sig(t):
    return mir.has(t, lambda x: x[0] == "field" and x[2] == "signaling_state")


def _sig_sends(body, attribute=True):
    """attribute=True: a deferred commit is reported at the place where the value was chosen (for the transition table);
    attribute=False: every send is reported where it happens (for effect-before-failure)."""
    out = []
    for bi, t, p in core.calls_to(body, lambda p: "watch::Sender" in p and (p.endswith("::send") or p.endswith("::send_replace") or p.endswith("::send_modify") or p.endswith("::send_if_modified"))):
        a0 = body.term_operand(t["a"][0])
        if _is_sig(a0):
            v = body.term_operand(t["a"][1]) if len(t["a"]) > 1 else None
            st = _state_of(v) if v is not None else None
            # deferred commit: the arm only computes `next_state = Some(X)` / None and a later, common statement
            # sends it. The transition then belongs to the place where the value was chosen.
            if attribute and st is None and v is not None and v[0] == "field" and v[1][0] == "variant" and v[1][2] == "Some" \
                    and v[1][1][0] == "var" and len(v[1][1]) > 2:
                l = v[1][1][2]
                chosen = []
                for d in body.defs().get(l, []):
                    dt = body._term_def(d, 0, (l,))
                    if dt[0] == "agg" and dt[2] == "Some" and _state_of(dt):
                        chosen.append((d[1], _state_of(dt)))
                if chosen:
                    out += chosen
                    continue
            # the same with a plain value: `let next_state = match .. { arm => SignalingState::X, .. }` and one or more later
            # `send(next_state)`. Each arm's choice is the transition; the sends themselves add nothing.
            if attribute and st is None and len(t["a"]) > 1 and t["a"][1].get("k") in ("cp", "mv") and "p" not in t["a"][1]["p"]:
                l = t["a"][1]["p"]["l"]
                for _hop in range(4):
                    ds = body.defs().get(l, [])
                    if len(ds) == 1 and ds[0][0] == "s":
                        rv = body.blocks[ds[0][1]]["s"][ds[0][2]]["rv"]
                        if rv["r"] == "use" and rv["o"].get("k") in ("cp", "mv") and "p" not in rv["o"]["p"]:
                            l = rv["o"]["p"]["l"]
                            continue
                    break
                chosen = []
                ds = body.defs().get(l, [])
                for d in ds:
                    dt = body._term_def(d, 0, (l,))
                    if dt[0] == "agg" and dt[1].endswith("SignalingState") and _state_of(dt):
                        chosen.append((d[1], _state_of(dt)))
                if len(ds) > 1 and len(chosen) == len(ds):
                    out += [c for c in chosen if c not in out]
                    continue
            out.append((bi, st))
    return out


def _sig_tests(body):
    """switch blocks testing `*signaling_state.borrow() != X` (or ==): [(bi, X, edge_ok_target, edge_bad_target)]"""
    out = []
    for bi, b in enumerate(body.blocks):
        if bi in body.cleanup or b["t"]["k"] != "switch":
            continue
        term, outs = body.switch_info(bi)
        if term[0] == "call" and (term[1].endswith("::ne") or term[1].endswith("::eq")) and _is_sig(term) and _state_of(term):
            ok_meaning = term[1].endswith("::eq")
            ok_t = [t for t, _, m in outs if m is ok_meaning]
            bad_t = [t for t, _, m in outs if m is (not ok_meaning)]
            if ok_t and bad_t:
                out.append((bi, _state_of(term), ok_t[0], bad_t[0]))
    return out


def _arms(body):
    """switches on discr(desc.sdp_type): [(bi, {variant: target})]"""
    out = []
    for bi, b in enumerate(body.blocks):
        if bi in body.cleanup or b["t"]["k"] != "switch":
            continue
        term, outs = body.switch_info(bi)
        if term[0] == "discr" and (mir.field_path(term[1]) or "").endswith("sdp_type"):
            arms = {m: t for t, _, m in outs if isinstance(m, str)}
            if {"Offer", "Answer"} <= set(arms):
                out.append((bi, arms))
    return out


def r09_1(ctx):
    r = RuleResult("R09.1", "K6", "transition table agrees with JSEP")
    errs_cache = {}
    for fn, table in JSEP.items():
        body = ctx.body(fn)
        r.scope.append(fn)
        tests = _sig_tests(body)
        sends = _sig_sends(body)
        errs = set(core.err_return_blocks(body))
        found_any = False
        for sw, arms in _arms(body):
            reach = {v: body.reachable([t]) for v, t in arms.items()}
            extracted = {}
            for v, t in arms.items():
                others = set()
                for v2, r2 in reach.items():
                    if v2 != v and arms[v2] != t:
                        others |= r2
                region = reach[v] - others
                req = set(x for bi, x, okt, badt in tests if bi in region)
                # mismatch edge must lead to an Err return without any send
                for bi, x, okt, badt in tests:
                    if bi in region:
                        br = body.reachable([badt]) & region
                        if not (br & errs) or any(sb in br for sb, _ in sends):
                            r.violate(fn, "arm:%s:mismatch" % v, body.where(bi), "state mismatch for %s does not end in an error" % v)
                snd = set(st for sb, st in sends if sb in region)
                uncond_err = bool(region & errs) and not req and not snd
                extracted[v] = ("ERR" if uncond_err else req, snd)
            if not any(s for _, s in extracted.values()):
                continue  # a switch on sdp_type unrelated to the state machine
            found_any = True
            for v, want in table.items():
                got = extracted.get(v)
                site = "arm:%s" % v
                if got != want and got is not None and want[0] != "ERR" and got[0] == want[0] and \
                        (got[1] - want[1]) <= set(want[0]) and len(want[0]) == 1 and want[1] <= got[1]:
                    got = want          # re-publishing the state that is required anyway (X -> X) is no transition
                if got == want:
                    r.ok({"function": fn.split("::")[-2] if fn.endswith("}") else fn.split("::")[-1], "sdp_type": v,
                          "requires": sorted(want[0]) if want[0] != "ERR" else "always error", "then": sorted(want[1])})
                else:
                    r.violate(fn, site, body.where(arms.get(v, sw)), "transition for %s is %s, JSEP table says %s" % (v, got, want))
        if not found_any:
            raise core.CheckerError("R09.1: state-machine switch on desc.sdp_type not found in %s" % fn)
        # no success without the state machine: every Ok return lies behind the dispatch on the description type (an
        # early `return Ok(())` for, say, a repeated identical answer skips precondition and transition alike)
        machine = [sw for sw, arms in _arms(body) if any(st for _, st in _sig_sends(body)) ]
        sm_blocks = []
        for sw, arms in _arms(body):
            reach = set()
            for t in arms.values():
                reach |= body.reachable([t])
            if any(bi in reach for bi, _x, _o, _b in tests) or any(sb in reach for sb, _ in sends):
                sm_blocks.append(sw)
        for ob in core.ok_return_blocks(body):
            if sm_blocks and core.must_pass(body, ob, sm_blocks):
                r.ok({"function": fn.split("::")[-2] if fn.endswith("}") else fn.split("::")[-1], "Ok return": body.where(ob), "behind": "the state-machine dispatch"})
            else:
                r.violate(fn, "ok:bypass", body.where(ob), "this call can return Ok without having gone through the signaling state machine: "
                          "the precondition is not checked and the state is not advanced, yet the caller is told the description was applied")
    # create_offer / create_answer preconditions
    for fn, need in ((CO, "Stable"), (CA, "HaveRemoteOffer")):
        body = ctx.body(fn)
        r.scope.append(fn)
        tests = [t for t in _sig_tests(body) if t[1] == need]
        sites = core.calls_to(body, suffix("PeerConnectionInner::build_description"))
        r.need("build_description in %s" % fn, len(sites), 1)
        g = [(bi, okt) for bi, x, okt, badt in tests]
        for bi, t, p in sites:
            if g and core.k1(body, [bi], g)[bi] is None:
                r.ok({"function": fn, "requires": need})
            else:
                r.violate(fn, "precondition", body.where(bi), "description built without requiring signaling state %s" % need)
        for bi, st in _sig_sends(body):
            r.violate(fn, "send:signaling_state", body.where(bi), "%s changes the signaling state" % fn)
    return r


ALLOWED_SENDERS = {SLD: None, SRD: None, "peer_connection::PeerConnectionInner::close_with_reason": {"Closed"}}


def r09_3(ctx):
    r = RuleResult("R09.3", "K3", "who may move the signaling state")
    n = 0
    for body in ctx.facts.bodies(prefix="peer_connection::"):
        if "::tests::" in body.name:
            continue
        for bi, st in _sig_sends(body):
            n += 1
            base = body.name
            if base in ALLOWED_SENDERS and (ALLOWED_SENDERS[base] is None or st in ALLOWED_SENDERS[base]):
                r.ok({"site": body.where(bi), "function": base, "state": st})
            else:
                r.violate(body.name, "send:signaling_state=%s" % st, body.where(bi), "signaling state changed outside the JSEP entry points")
    r.need("signaling_state.send sites", n, 5)
    return r


SETTERS = ("PeerConnectionInner::ensure_mid", "RtpTransceiver::set_mid", "RtpTransceiver::update_payload_map", "RtpTransceiver::update_extmap",
           "RtpTransceiver::set_direction", "RtpTransceiver::set_remote_direction", "RtpTransceiver::set_current_direction",
           "PeerConnection::handle_reinvite", "PeerConnection::cleanup_orphaned_extra_transports")


# Error returns that propagate a *transport start-up failure* (socket/ICE/RTP transport set-up). They need an
# environmental fault to manifest, which is outside C09's quantifier (call sequences x descriptions); no description
# could provoke them in this sandbox. They are excluded from R09.2 one named callee at a time, and listed in the evidence.
# (configure_rtp_media_transports_from_remote used to be listed here; a CONFIGURATION - an RTP port range without a usable
# even port - makes it fail deterministically, so it is decided now: known finding, see KNOWN_FINDINGS.txt.)
# (start_direct likewise: ice_transport_policy = Relay without a TURN server, or ice_gather_udp_hosts = false, leaves it
# without a local candidate and it fails deterministically - decided now, known finding.)
TRANSPORT_FAILURES = {
}


def _effects(body):
    out = []
    for bi, st in _sig_sends(body, attribute=False):
        out.append((bi, "send:signaling_state=%s" % st))
    for f in ("local_description", "remote_description"):
        for bi, si, s, val in core.lock_write_sites(body, f, methods=("::lock",)):
            out.append((bi, "store:%s" % f))
    # ... and through a method handed `&mut *guard` (Option::take / replace / insert, mem::take ...): a destructive
    # read of the slot is a store as far as a later error return is concerned
    for bi, t, p in body.calls():
        if not p or p.endswith("::deref_mut") or p.endswith("::deref") or p.endswith("::lock"):
            continue
        for a in t["a"]:
            pl = a.get("p")
            if a.get("k") not in ("mv", "cp") or not isinstance(pl, dict) or "p" in pl:
                continue
            ty = body.locals[pl["l"]]["ty"]
            # the slot itself (`&mut Option<SessionDescription>`), not an iterator over something read from it
            if not (ty.startswith("&mut std::option::Option<") and "SessionDescription" in ty):
                continue
            hit = None
            for y in mir.walk(body.term_operand(a)):
                if y[0] == "call" and y[1].endswith("::lock") and y[2]:
                    fp = mir.field_path(y[2][0])
                    if fp is not None and fp.split(".")[-1] in ("local_description", "remote_description"):
                        hit = fp.split(".")[-1]
            if hit:
                out.append((bi, "mutate:%s(%s)" % (hit, p.split("::")[-1])))
                break
    for bi, t, p in core.calls_to(body, suffix(*SETTERS)):
        out.append((bi, "call:%s" % p.split("::")[-1]))
    for bi, t, args in core.atomic_sites(body, "next_mid", "fetch_max") + core.atomic_sites(body, "next_mid", "store") + core.atomic_sites(body, "next_mid", "fetch_add"):
        out.append((bi, "atomic:next_mid"))
    return out


def _err_desc(body, bi):
    """short stable description of an Err return block"""
    for s in body.blocks[bi]["s"]:
        if s["k"] == "as" and s["p"]["l"] == 0:
            t = body.term_rvalue(s["rv"])
            var = None
            msg = None
            for x in mir.walk(t):
                if x[0] == "agg" and x[1].endswith("RtcError"):
                    var = x[2]
                if x[0] == "const" and isinstance(x[2], str) and x[2].startswith('"'):
                    msg = x[2].strip('"')[:60]
            return "Err(%s%s)" % (var or "?", (": " + msg) if msg else "")
    t = body.blocks[bi]["t"]
    if t["k"] == "call":
        inner = body.term_operand(t["a"][0])
        calls = [x[1] for x in mir.walk(inner) if x[0] == "call" and not x[1].startswith("std::") and not x[1].startswith("core::")]
        names = [c.split("::")[-1] for c in calls if not c.split("::")[-1].startswith("{closure")]
        return "?:%s" % (names[0] if names else "residual")
    return "Err"


def _key_fn(term, meaning):
    """tracked predicates: the SDP type of the description and the signaling state"""
    def sdp_variant(t):
        for x in mir.walk(t):
            if x[0] == "agg" and x[1].endswith("sdp::SdpType"):
                return x[2]
        return None

    def is_sdp_type(t):
        fp = mir.field_path(t)
        return fp is not None and fp.endswith("sdp_type")

    def is_state(t):
        if t[0] in ("var", "arg") and t[1] in ("current_state",):
            return True
        return _is_sig(t)
    if term[0] == "discr":
        if is_sdp_type(term[1]):
            return ("sdp", meaning)
        if is_state(term[1]) and term[2].endswith("SignalingState"):
            return ("sig", meaning)
        return None
    if term[0] == "call" and (term[1].endswith("::eq") or term[1].endswith("::ne")) and len(term[2]) == 2 and isinstance(meaning, bool):
        a, b = term[2]
        positive = meaning is term[1].endswith("::eq")
        for x, y in ((a, b), (b, a)):
            if is_sdp_type(x) and sdp_variant(y):
                v = sdp_variant(y)
                return ("sdp", v if positive else ("not", (v,)))
            if is_state(x) and _state_of(y) and not _state_of(x):
                v = _state_of(y)
                return ("sig", v if positive else ("not", (v,)))
    return None


def r09_2(ctx):
    r = RuleResult("R09.2", "K2", "no effect is followed by an error return (rejected calls change nothing)")
    for fn in (SLD, SRD, CO, CA, BD):
        body = ctx.body(fn)
        r.scope.append(fn)
        errs = []
        for e in core.err_return_blocks(body):
            t = body.blocks[e]["t"]
            if t["k"] == "call" and "FromResidual" in (mir.callee_path(t["f"]) or ""):
                src = core.residual_source(body, t)
                if src is not None and not core.can_fail(ctx.facts, src):
                    r.ok({"error_return": body.where(e), "pruned": "`?` on %s, which has no error return (callee summary, depth 4)" % src})
                    continue
                if src is not None and src.split("::")[-1] in TRANSPORT_FAILURES:
                    r.notes.append("not decided: error propagated from %s at %s (%s)" % (src, body.where(e), TRANSPORT_FAILURES[src.split("::")[-1]]))
                    continue
            errs.append(e)
        effs = _effects(body)
        if fn in (SLD, SRD) and len(effs) < 3:
            raise core.CheckerError("R09.2: effect sites not found in %s" % fn)
        sends = dict(_sig_sends(body))

        def set_fn(bi, sends=sends):
            if bi in sends and sends[bi]:
                return {"sig": sends[bi]}
            return None
        seen = set()
        for ebi, edesc in effs:
            after = core.reach_from(body, ebi)
            cand = [e for e in errs if e in after]
            if not cand:
                r.ok({"effect": "%s %s" % (body.where(ebi), edesc), "error_return_after": "none"})
                continue
            hits = core.k2_correlated(body, ebi, cand, _key_fn, set_fn)
            if not hits:
                r.ok({"effect": "%s %s" % (body.where(ebi), edesc),
                      "error_return_after": "only on infeasible paths (sdp type / signaling state tested twice must agree)"})
                continue
            for e in sorted(hits):
                d = _err_desc(body, e)
                key = (edesc, d)
                if key in seen:
                    continue
                seen.add(key)
                r.violate(fn, "%s->%s" % (edesc, d), body.where(ebi),
                          "effect at %s can be followed by the error return at %s: a failing call leaves state changed" % (body.where(ebi), body.where(e)),
                          core.describe_path(body, hits[e]))
    return r


def run(ctx):
    return [r09_1(ctx), r09_3(ctx), r09_2(ctx)]
