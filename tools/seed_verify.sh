#!/bin/bash
# usage: tools/seed_verify.sh <seeddir with patch.diff demo.diff meta.json> <outdir>
# Confirms in the scratch worktree /tmp/wt1 (target /tmp/tgt): suite passes with the change, demo fails with /
# passes without. Writes <outdir>/verify.log
set -u
seed=$1; out=$2; mkdir -p "$out"
wt=/tmp/wt1; export CARGO_TARGET_DIR=/tmp/tgt CARGO_NET_OFFLINE=true
log=$out/verify.log; : > $log
cd $wt && git checkout -q -- . && git clean -fdq
git apply $seed/patch.diff || { echo "patch does not apply" | tee -a $log; exit 2; }
demo=$(python3 -c "import json,re,sys;c=json.load(open('$seed/meta.json'))['demo_cmd'];print(re.sub(r'CARGO_TARGET_DIR=\S+\s*','',c))")
echo "## suite with change" >> $log
cargo nextest run --workspace --no-fail-fast --tool-config-file pb:/w/lib/nextest.toml --profile pb --test-threads 8 --offline > $out/suite.log 2>&1
grep -E "^\s+(FAIL|SIGABRT|SIGSEGV|TIMEOUT)|Summary" $out/suite.log | sort -u | tail -12 >> $log
git apply $seed/demo.diff || { echo "demo does not apply" | tee -a $log; exit 2; }
echo "## demo with change: $demo" >> $log
( eval "timeout 600 $demo" ) > $out/demo_with.log 2>&1; echo "exit=$?" >> $log
grep -E "^test |test result|panicked" $out/demo_with.log | head -8 >> $log
git apply -R $seed/patch.diff || { echo "cannot revert patch" | tee -a $log; exit 2; }
echo "## demo without change" >> $log
( eval "timeout 600 $demo" ) > $out/demo_without.log 2>&1; echo "exit=$?" >> $log
grep -E "^test |test result|panicked" $out/demo_without.log | head -8 >> $log
git checkout -q -- . && git clean -fdq
cat $log
