#![allow(clippy::field_reassign_with_default)]
use anyhow::Result;
use rustrtc::{MediaKind, PeerConnection, RtcConfiguration, SignalingState, TransceiverDirection, TransportMode};

/// set_remote_description(offer) that fails must leave the connection as it was.
#[tokio::test]
async fn repro_c09_failed_set_remote_offer_leaves_state_unchanged() -> Result<()> {
    let mut c1 = RtcConfiguration::default();
    c1.transport_mode = TransportMode::Rtp;
    let pc1 = PeerConnection::new(c1);
    pc1.add_transceiver(MediaKind::Audio, TransceiverDirection::SendRecv);
    let _ = pc1.create_offer().await?;
    pc1.wait_for_gathering_complete().await;
    let offer = pc1.create_offer().await?;

    // the callee's RTP port range holds no usable (even) port
    let mut c2 = RtcConfiguration::default();
    c2.transport_mode = TransportMode::Rtp;
    c2.rtp_start_port = Some(5001);
    c2.rtp_end_port = Some(5001);
    let pc2 = PeerConnection::new(c2);
    let before = pc2.signaling_state();
    let r = pc2.set_remote_description(offer).await;
    if let Err(e) = r {
        assert_eq!(pc2.signaling_state(), before, "set_remote_description returned Err({e}) but the signaling state moved");
        assert!(pc2.remote_description().is_none(), "set_remote_description returned Err({e}) but stored the description");
    } else {
        assert_eq!(pc2.signaling_state(), SignalingState::HaveRemoteOffer);
    }
    Ok(())
}
