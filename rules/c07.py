"""C07 — no bytes from the network can crash the decoder layer: site census with proof-or-table (K7)."""
import re
import json
import os
from engine import core, mir, lenana
from engine.core import RuleResult

EXPLANATION = (
    "Static analysis of rustc MIR. Scope: the network-facing decoder/handler functions listed in rules/c07.py PLUS every "
    "crate function they transitively call and every closure/coroutine nested in those (a panic anywhere below an entry "
    "point kills the same task). Every potential panic site in that scope - bounds / overflow / divide-by-zero Assert "
    "terminators, calls of the modelled panicking std/bytes APIs, and calls of ANY std/bytes function whose documentation "
    "has a `# Panics` section (tables/std_panics.json, generated from rust-src; reviewed ASSUMED_TOTAL exclusions in "
    "engine/lenana.py) - is enumerated and must be PROVEN by the length analysis (engine/lenana.py: forward abstract "
    "interpretation over difference constraints on integer locals and buffer lengths, with cursor accounting, slicing, "
    "branch refinement, iterator ranges, range-argument ordering, callee preconditions on buffer parameters checked at "
    "call sites), or be listed in tables/c07_sites.json with a reviewed reason (TABLE-SAFE) or in KNOWN_FINDINGS.txt. A new "
    "site, or a site that stops being provable (e.g. a weakened length check), is a violation. Decides absence of panics at "
    "these sites for all inputs relative to the library model. R07.2 (termination): every loop in scope that is not an iterator loop "
    "makes progress (cursor consumption, provably positive step of a position variable, shrinking collection, cursor replaced by an "
    "empty buffer, success arm of a crate decoder that consumes from its cursor) or suspends (poll of an await) on every trip, else it "
    "is in the table with a reason; a trip that awaits something always ready counts as suspending. R07.3 (bloat, explicit requests): "
    "every with_capacity / vec![_; n] / reserve / resize in scope is sized by a constant, a value of a <= 16-bit type, something linear "
    "in the lengths of existing buffers, a value bounded by a dominating guard, or an application-chosen parameter. Growth of "
    "long-lived tables across packets is not decided; panics inside "
    "dependencies are not decided; calls through trait objects and work handed to other tasks through channels are not "
    "followed by the closure.")
ASSUMPTIONS = [
    "A-64: 64-bit sums of lengths, <=32-bit wire fields, constants and accumulators of those cannot reach 2^64 (inputs <= 64 KiB, loops make progress)",
    "A-32 (table reasons that cite it): a 32-bit counter of events that each need a packet sent by this endpoint or a network round trip does not reach 2^32 within one connection",
    "buffer lengths are < 2^40",
    "library model of std/bytes panicking APIs (engine/lenana.py LIBRARY_MODEL) plus the documented-panics table is complete for the APIs used in scope",
    "unsigned comparisons only; signed arithmetic is not modelled (such sites are never PROVEN)",
    "local configuration is sane where a table reason says so (sctp_rto_min <= sctp_rto_max, port range start <= end)",
]
TRUSTED_BASE = ["rustc MIR construction (explicit Assert terminators for every checked operation)", "engine/lenana.py transfer functions and library model",
                "tables/c07_sites.json (reviewed reasons)"]

VERIF = os.path.dirname(os.path.dirname(os.path.abspath(__file__)))

SCOPE_PREFIXES = [
    "rtp::", "rtx::", "srtp::SrtpPacket::", "srtp::SrtpSession::unprotect", "srtp::SrtpContext::unprotect",
    "transports::ice::stun::", "transports::dtls::record::", "transports::dtls::handshake::",
    "transports::datachannel::", "transports::udptl::", "media::depacketizer::",
    "sdp::SessionDescription::parse", "sdp::MediaSection::from_m_line", "sdp::Origin::parse", "sdp::Timing::parse",
    "sdp::Rid::parse", "sdp::Simulcast::parse", "sdp::CryptoAttribute::parse", "sdp::parse_",
    "transports::ice::IceCandidate::from_sdp",
    "transports::ice::turn::TurnClient::recv", "transports::ice::turn::parse_", "transports::ice::turn::TurnClient::handle",
    "transports::ice::shared_udp::", "transports::ice::shared_tcp::",
    "stats_collector::LocalInboundStats::",
]
SCOPE_FUNCS = [
    "transports::sctp::SctpInner::handle_packet", "transports::sctp::SctpInner::handle_init", "transports::sctp::SctpInner::handle_init_ack",
    "transports::sctp::SctpInner::handle_sack", "transports::sctp::SctpInner::handle_cookie_echo", "transports::sctp::SctpInner::handle_forward_tsn",
    "transports::sctp::SctpInner::handle_reconfig", "transports::sctp::SctpInner::handle_reconfig_outgoing_ssn_reset",
    "transports::sctp::SctpInner::handle_reconfig_response", "transports::sctp::SctpInner::handle_heartbeat",
    "transports::sctp::SctpInner::handle_data", "transports::sctp::SctpInner::process_data_payload", "transports::sctp::SctpInner::handle_dcep",
    "transports::sctp::SctpInner::validate_cookie", "transports::sctp::sctp_crc32c",
    "transports::dtls::DtlsInner::handle_incoming_packet", "transports::dtls::DtlsInner::try_decrypt_record",
    "transports::dtls::DtlsInner::handle_decrypted_record", "transports::dtls::DtlsInner::process_handshake_payload",
    "transports::dtls::DtlsInner::handle_client_hello", "transports::dtls::DtlsInner::handle_server_hello",
    "transports::dtls::DtlsInner::handle_certificate", "transports::dtls::DtlsInner::handle_server_key_exchange",
    "transports::dtls::DtlsInner::handle_client_key_exchange", "transports::dtls::DtlsInner::handle_finished",
    "transports::dtls::DtlsInner::handle_hello_verify_request", "transports::dtls::decrypt_record", "transports::dtls::decrypt_record_with_cipher",
    "transports::dtls::verify_server_key_exchange_signature", "transports::dtls::certificate_public_key",
    "transports::ice::handle_packet", "transports::ice::handle_turn_packet",
    "<transports::ice::conn::IceConn as transports::PacketReceiver>::receive",
    "<transports::rtp::RtpTransport as transports::PacketReceiver>::receive",
    "peer_connection::PeerConnection::set_remote_description", "peer_connection::PeerConnection::set_local_description",
    "peer_connection::parse_sdes_crypto", "peer_connection::map_crypto_suite",
]
EXCLUDE = ("::tests::", "tests::", "::fmt", "Serialize", "Deserialize", "::{closure#0}::{closure")


def in_scope(name):
    n = name.lstrip("<")
    if any(e in name for e in ("::tests::",)) or n.startswith("tests::"):
        return False
    if any(n.startswith(p) for p in SCOPE_PREFIXES):
        return True
    base = name.split("::{closure")[0]
    return base in SCOPE_FUNCS


CLOSURE_EXCLUDE = ("::tests::",)


def scope_closure(facts):
    """the listed decoder-layer functions plus every crate function they (transitively) call and every closure /
    coroutine nested in one of those: a panic anywhere below a network-facing entry point kills the same task."""
    roots = [b.name for b in facts.all_bodies() if in_scope(b.name)]
    seen = set(roots)
    work = list(roots)
    nested = {}
    for n in facts.order:
        i = n.find("::{")
        while i != -1:
            nested.setdefault(n[:i], []).append(n)
            i = n.find("::{", i + 3)
    while work:
        n = work.pop()
        b = facts.body(n)
        cands = []
        for bi, t, p in b.calls():
            cands.append(p)
            cands.append(t["f"].get("fn"))
        cands += nested.get(n, [])
        for c in cands:
            if c and c not in seen and facts.has_body(c) and not any(e in c for e in CLOSURE_EXCLUDE) and not c.startswith("tests::"):
                seen.add(c)
                work.append(c)
    return [n for n in facts.order if n in seen]


BUF_TYS = ("[u8]", "bytes::Bytes", "bytes::BytesMut", "Vec<u8>", "&str", "String")


def _is_buf_ty(ty):
    t = ty
    for pre in ("&mut ", "&", "mut "):
        while t.startswith(pre):
            t = t[len(pre):]
    return t.startswith(("[u8]", "bytes::Bytes", "bytes::BytesMut", "std::vec::Vec<u8>", "str", "std::string::String", "[u8;"))


def _param_keys(body, facts=None):
    """canonical keys of buffer parameters (by-ref or by-value) -> parameter index (0-based among args).
    For the coroutine body of an `async fn` the parameters are the captured fields of the environment."""
    out = {}
    if body.is_closure and body.coroutine and facts is not None and body.parent and facts.has_body(body.parent):
        par = facts.body(body.parent)
        for l in range(1, par.argc + 1):
            ty = par.locals[l]["ty"]
            nm = par.locals[l].get("n")
            if nm and _is_buf_ty(ty):
                out["$env.%s" % nm] = l - 1
        return out
    for l in range(1, body.argc + 1):
        ty = body.locals[l]["ty"]
        if _is_buf_ty(ty):
            t = body.term_local(l)
            out[mir.show(t, 240)] = l - 1
    return out


def _feeds_comparison(b, dst):
    """does the value stored in dst (a len()/is_empty() result) reach a comparison or a branch?"""
    if "p" in dst:
        return True
    derived = {dst["l"]}
    if b.locals[dst["l"]]["ty"] == "bool":
        for blk in b.blocks:
            t = blk["t"]
            if t["k"] == "switch" and t["d"]["k"] in ("cp", "mv") and t["d"]["p"]["l"] in derived:
                return True
    for _ in range(4):
        grew = False
        for bi, si, s in b.assigns():
            rv = s["rv"]
            ops = [rv.get("o"), rv.get("a"), rv.get("b")]
            if any(o and o["k"] in ("cp", "mv") and o["p"]["l"] in derived for o in ops):
                if rv["r"] == "bin" and rv["op"] in ("Lt", "Le", "Gt", "Ge", "Eq", "Ne"):
                    return True
                if "p" not in s["p"] and s["p"]["l"] not in derived:
                    derived.add(s["p"]["l"])
                    grew = True
        if not grew:
            break
    return False


def helper_ranges(facts):
    """small local functions that return one of a few integer constants: {path: (min, max)}"""
    out = {}
    for b in facts.all_bodies():
        if b.is_closure or len(b.blocks) > 40 or b.locals[0]["ty"] not in lenana.TYPE_MAX:
            continue
        vals = []
        ok = True
        for bi, si, s in b.assigns():
            if s["p"]["l"] == 0 and "p" not in s["p"]:
                v = mir.int_value(b.term_rvalue(s["rv"]))
                if v is None:
                    ok = False
                else:
                    vals.append(v)
        for bi, t, p in b.calls():
            if t["dst"]["l"] == 0:
                ok = False
        if ok and vals:
            out[b.name] = (min(vals), max(vals))
    return out


CAND = (1, 2, 3, 4, 6, 8, 10, 12, 14, 16, 20, 24, 28, 32, 36, 40, 48, 64)


def analyse_all(ctx):
    """returns (sites by function, summaries)"""
    facts = ctx.facts
    bodies = [facts.body(n) for n in scope_closure(facts)]
    # pass 1: infer preconditions  len(param) >= K  that make all parameter-related obligations provable
    summaries = {}
    ranges = helper_ranges(facts)
    lenana.Analyzer.HELPER_RANGES = ranges
    for b in bodies:
        if b.is_closure and not b.coroutine:
            continue
        pk = _param_keys(b, facts)
        if not pk:
            continue
        sites = lenana.Analyzer(b).run()
        bad = [s for s in sites if not s.proven]
        if not bad:
            continue
        # a function that inspects the length of a parameter validates it itself: no precondition is inferred for it
        self_checking = set()
        for bi, t, path in b.calls():
            if path and t["a"] and \
                    (path.endswith("::len") or path.endswith("::remaining") or path.endswith("::is_empty") or path.endswith("::has_remaining")):
                if _feeds_comparison(b, t["dst"]):
                    self_checking.add(mir.show(b.term_operand(t["a"][0]), 240))
        for key, idx in pk.items():
            if key in self_checking:
                continue
            rel = bad
            if not rel:
                continue
            for k in CAND:
                s2 = lenana.Analyzer(b, assume_params={key: k}).run()
                nb = [s for s in s2 if not s.proven]
                if len(nb) < len(bad) and _stable(b, key, k, len(nb)):
                    owner = b.parent if (b.is_closure and b.coroutine) else b.name
                    summaries.setdefault(owner, {})[idx] = k
                    break
    # pass 2: analyse with preconditions assumed in the callee and required at call sites
    out = {}
    for b in bodies:
        assume = {}
        owner = b.parent if (b.is_closure and b.coroutine) else b.name
        if owner in summaries:
            pk = _param_keys(b, facts)
            for key, idx in pk.items():
                if idx in summaries[owner]:
                    assume[key] = summaries[owner][idx]
        out[b.name] = lenana.Analyzer(b, assume_params=assume, summaries=summaries).run()
    # preconditions must hold at every call site in the crate, also outside the decoder layer
    if summaries:
        names = set(out)
        for b in facts.all_bodies():
            if b.name in names or "::tests::" in b.name or b.name.startswith("t38::"):
                continue
            if any(p in summaries for _, _, p in b.calls() if p):
                ss = [s for s in lenana.Analyzer(b, summaries=summaries).run() if s.desc.startswith("callee requires")]
                if ss:
                    out[b.name] = ss
    return out, summaries


def _stable(b, key, k, n_now):
    """k is the smallest candidate after which assuming more does not prove more"""
    bigger = [c for c in CAND if c > k][:3]
    for c in bigger:
        if len([s for s in lenana.Analyzer(b, assume_params={key: c}).run() if not s.proven]) < n_now:
            return False
    return True


def _same(site, rel):
    return any(site.bi == r.bi and site.kind == r.kind for r in rel)


_CLOSURE = re.compile(r"\{closure#(\d+)\}")


def norm_fn(fn):
    """key form of a body name: the numbering of NESTED closures is positional (a closure added earlier in the function
    renumbers the later ones), so it is dropped - `f::{closure#0}::{closure#4}` and `g::{closure#2}` become
    `f::{closure#0}::{closure}` and `g::{closure}`. The `{closure#0}` that is the body of an async fn stays."""
    parts = fn.split("::")
    out = []
    for i, p in enumerate(parts):
        if _CLOSURE.fullmatch(p):
            first = not any(_CLOSURE.fullmatch(q) or q == "{closure}" for q in out)
            out.append(p if (first and p == "{closure#0}" and i + 1 < len(parts) and _CLOSURE.fullmatch(parts[i + 1])) else "{closure}")
        else:
            out.append(p)
    return "::".join(out)


def _fn_order(fn):
    return [(_CLOSURE.sub("", p), int(_CLOSURE.fullmatch(p).group(1)) if _CLOSURE.fullmatch(p) else -1) for p in fn.split("::")]


def site_keys(sites_by_fn):
    """stable keys: function (nested closure numbers dropped) | kind | normalised source text | ordinal among equals"""
    keyed = []
    cnt = {}
    for fn in sorted(sites_by_fn, key=_fn_order):
        nf = norm_fn(fn)
        for s in sites_by_fn[fn]:
            base = (nf, s.kind, " ".join((s.src or "").split())[:80])
            o = cnt.get(base, 0)
            cnt[base] = o + 1
            keyed.append(("%s|%s|%s|%d" % (nf, base[1], base[2], o), s))
    return keyed


def load_table():
    p = os.path.join(VERIF, "tables", "c07_sites.json")
    if not os.path.exists(p):
        return {}
    return {k: v for k, v in json.load(open(p)).items() if not k.startswith("_")}


def r07_1(ctx):
    r = RuleResult("R07.1", "K7", "every potential panic site of the decoder layer is proven, tabled or a known finding")
    sites_by_fn, summaries = analyse_all(ctx)
    table = load_table()
    keyed = site_keys(sites_by_fn)
    r.scope = sorted(sites_by_fn)[:400]
    nsites = len(keyed)
    r.need("functions analysed (decoder layer + call closure)", len(sites_by_fn), 1400)
    r.need("potential panic sites", nsites, 1200)
    proven = tabled = 0
    used = set()
    for key, s in keyed:
        if s.proven:
            proven += 1
            r.ok({"site": s.where, "kind": s.kind, "src": (s.src or "")[:60], "proof": [t for t, ok in s.obligations][:3]} if proven <= 40 else None)
            continue
        ent = table.get(key)
        if ent is not None:
            tabled += 1
            used.add(key)
            r.ok(None)
            continue
        r.obligations += 1
        v = core.Violation("R07.1", s.fn, "%s|%s" % (s.kind, " ".join((s.src or "").split())[:80]), s.where,
                           "potential panic not proven and not in the reviewed table: %s" % "; ".join(t for t, ok in s.obligations if not ok)[:200],
                           int(key.rsplit("|", 1)[1]))
        r.violations.append(v)
    r.notes.append("sites=%d proven=%d table-safe=%d unlisted=%d" % (nsites, proven, tabled, len(r.violations)))
    r.notes.append("callee preconditions inferred: %s" % json.dumps({k: v for k, v in sorted(summaries.items())})[:1500])
    stale = [k for k in table if k not in used]
    if stale:
        r.notes.append("table entries not matched on this tree (site gone or now proven): %d" % len(stale))
    r.samples = [s for s in r.samples if s][:6]
    r.samples.append({"library_model": lenana.LIBRARY_MODEL})
    return r


SHRINK_CALLS = ("::pop_front", "::pop_back", "::pop", "::pop_first", "::pop_last", "::remove", "::swap_remove", "::drain", "::next", "::next_back",
                "::take", "::recv", "::try_recv", "::split_off", "::truncate")


_CONSUME_CACHE = {}
CONSUMERS = ("::get_u8", "::get_u16", "::get_u32", "::get_u64", "::get_i8", "::get_i16", "::get_i32", "::get_u16_le", "::get_u32_le",
             "::copy_to_slice", "::copy_to_bytes")


def _consumes_on_success(facts, fn):
    """index of a `&mut` cursor parameter of crate function fn from which at least one byte is consumed before every
    successful return (Ok(value) / Ok(Some(value)) / Some(value)), or None. Cached: (index, returns_option_inside)."""
    if fn in _CONSUME_CACHE:
        return _CONSUME_CACHE[fn][0]
    _CONSUME_CACHE[fn] = (None, False)
    cb = facts.body(fn)
    for i in range(1, cb.argc + 1):
        ty = cb.locals[i]["ty"]
        if not (ty.startswith("&mut ") and ("Bytes" in ty or ty.strip("&mut ").strip() in ("B", "T", "impl bytes::Buf"))):
            continue
        nm = cb.locals[i].get("n")
        cons = [bi for bi, t, p in cb.calls() if p and t["a"]
                and (p.endswith(CONSUMERS) or (p.endswith(("::advance", "::split_to")) and len(t["a"]) > 1
                                              and (mir.int_value(cb.term_operand(t["a"][1])) or 0) >= 1))
                and mir.has(cb.term_operand(t["a"][0]), lambda x: x[0] == "arg" and x[1] == nm)]
        if not cons:
            continue
        succ, opt_inside = [], False
        for bi, si, st in cb.assigns():
            if st["p"]["l"] != 0 or "p" in st["p"]:
                continue
            v = cb.term_rvalue(st["rv"])
            if v[0] == "agg" and v[2] in ("Ok", "Some"):
                inner = v[3][0] if v[3] else None
                if inner is not None and inner[0] == "agg" and inner[2] == "None":
                    opt_inside = True
                    continue
                if inner is not None and inner[0] == "agg" and inner[2] == "Some":
                    opt_inside = True
                succ.append(bi)
        if succ and all(core.must_pass(cb, sb, cons) for sb in succ):
            _CONSUME_CACHE[fn] = (i - 1, opt_inside)
            return i - 1
    return None


def r07_2(ctx):
    """termination of the decoder loops (the 'no unbounded loop' clause): every loop of a network-facing decoder /
    handler that is not an iterator loop or an event loop must make progress on every trip - it consumes from a
    cursor, advances its position variable by a provably positive amount (engine/lenana.py lower bounds, so a
    `len` taken from the wire counts only where a guard makes it >= 1), or shrinks a collection. Reported: a cycle
    through the loop that passes none of these. Decides 'each trip advances', which with a finite input bounds the
    trips; it does not bound the work per trip."""
    r = RuleResult("R07.2", "K4+lenana", "every decoder loop makes progress on every trip")
    table = load_table()
    n = 0
    examined = 0
    for b in ctx.facts.all_bodies():
        if not in_scope(b.name) or "_serde::" in b.name:
            continue          # (derive-generated serde visitors are not reachable from the network)
        loops = b.loops()
        if not loops:
            continue
        await_hdrs = {hdr for (src, hdr) in b.back_edges() if b.blocks[src]["t"]["sp"]["x"] == "d:Await"}
        cand = []
        for h, blocks in loops:
            if h in await_hdrs:
                continue
            cand.append((h, blocks))
        if not cand:
            continue
        an = lenana.Analyzer(b)
        try:
            an.run()
        except Exception:
            pass
        prog = dict(an.progress)
        for bi, t, p in b.calls():
            if p and p.endswith(SHRINK_CALLS) and bi not in prog:
                prog[bi] = "call %s" % p.split("::")[-1]
            # the cursor is thrown away: `data = Bytes::new()` ends a `while !data.is_empty()` loop on the next test
            if p and p.endswith(("Bytes::new", "BytesMut::new")) and "p" not in t["dst"]:
                tl = t["dst"]["l"]
                for bj, sj, st in b.assigns():
                    rv = st["rv"]
                    if rv["r"] == "use" and rv["o"].get("k") in ("mv", "cp") and rv["o"]["p"].get("l") == tl and "p" not in rv["o"]["p"] \
                            and "p" not in st["p"] and b.locals[st["p"]["l"]].get("n") and len(b.defs().get(st["p"]["l"], ())) > 1:
                        prog.setdefault(bj, "cursor %s replaced by an empty buffer" % b.locals[st["p"]["l"]]["n"])
            # a crate decoder that takes the cursor by `&mut` and consumes from it before every successful return:
            # the arm taken on success is progress (the arm taken on failure is not)
            if p and ctx.facts.has_body(p) and bi not in prog:
                idx = _consumes_on_success(ctx.facts, p)
                if idx is not None and idx < len(t["a"]):
                    ct = b.term_call(t)
                    for sb in range(len(b.blocks)):
                        if sb in b.cleanup or b.blocks[sb]["t"]["k"] != "switch":
                            continue
                        term, outs = b.switch_info(sb)
                        if term[0] == "discr" and mir.has(term[1], lambda x: x == ct):
                            inner_opt = term[1] != ct        # discr((call as Ok).0): the Option inside
                            for tgt, _, m in outs:
                                if (inner_opt and m == "Some") or (not inner_opt and m in ("Ok", "Some", "Continue")
                                                                   and not _CONSUME_CACHE[p][1]):
                                    prog.setdefault(tgt, "decoded by %s (consumes from its cursor on success)" % p.split("::")[-1])
        ordn = {}
        for h, blocks in cand:
            examined += 1
            inner = set(blocks)
            # a trip = a path from the header back to the header inside the loop
            succs = [t for t, _ in b.succ_edges(h) if t in inner]
            cutb = {x for x in prog if x in inner and x != h}
            # a loop of a task that contains await points: a trip that suspends is not a spin (it waits for input, a
            # timer or the peer); what must not exist is a trip that neither makes progress nor suspends
            # (an `.await` is `loop { match poll() { Ready => break, Pending => yield } }`: a trip of the outer loop
            # passes the poll call, not necessarily the yield)
            ylds = {x for x in inner if b.blocks[x]["t"]["k"] == "yield"}
            ylds |= {bi for bi, t, p in b.calls() if bi in inner and ((p or "").endswith("Future::poll") or (t["f"].get("fn") or "").endswith("Future::poll"))}
            cutb |= ylds
            trip = None
            if h not in prog:
                for s0 in succs:
                    if s0 in cutb:
                        continue
                    q = b.path_to([s0], h, cut_blocks=cutb | (set(range(len(b.blocks))) - inner))
                    if q is not None:
                        trip = [h] + q
                        break
            src = " ".join((b.blocks[h]["t"].get("src") or "").split())[:60]
            base = "loop@%s" % (b.where(h).split(":")[-1] if False else src or "header")
            o = ordn.get(base, 0)
            ordn[base] = o + 1
            key = "%s|loop|%s|%d" % (b.name, base, o)
            if trip is None:
                n += 1
                r.ok({"loop": b.where(h), "function": b.name, "progress": sorted(set(prog[x] for x in cutb))[:3]} if n <= 25 else None)
            elif key in table:
                n += 1
                r.ok(None)
            else:
                r.obligations += 1
                r.violations.append(core.Violation("R07.2", b.name, "loop|%s" % base, b.where(h),
                                                   "a trip through this loop can make no progress (no cursor consumption, no provably positive "
                                                   "step of a position variable, no shrinking collection): a crafted input can keep it spinning",
                                                   o, core.describe_path(b, trip)))
    r.samples = [x for x in r.samples if x]
    r.need("decoder loops examined", examined, 30)
    return r


ALLOC_CALLS = ("::with_capacity", "::from_elem", "::reserve", "::reserve_exact", "::resize", "::resize_with", "::repeat", "::zeroed")
NARROW = ("u8", "u16", "i8", "i16", "bool")


def _alloc_size_term(b, t, p):
    args = [b.term_operand(a) for a in t["a"]]
    if p.endswith("::with_capacity"):
        return args[0] if args else None
    return args[1] if len(args) > 1 else None


class _SizeClass:
    """how large can an allocation size get? classify(body, term) -> (ok, why). ok means: a constant, a value of a
    <= 16 bit type, or linear (constant coefficients) in the lengths of buffers that already exist. Follows crate
    callees into their return values, parameters out to every call site of the function, and multiply-defined locals
    into all their definitions."""

    def __init__(self, facts):
        self.facts = facts
        self._callers = None

    def callers(self, fn):
        if self._callers is None:
            self._callers = {}
            for b in self.facts.all_bodies():
                if "::tests::" in b.name:
                    continue
                for bi, t, p in b.calls():
                    for q in {p, t["f"].get("fn")}:
                        if q and self.facts.has_body(q):
                            self._callers.setdefault(q, []).append((b, bi, t))
        return self._callers.get(fn, [])

    def classify(self, b, t, depth=0, seen=()):
        k = t[0]
        if depth > 28:
            return False, "term too deep"
        if k in ("const", "item") or mir.int_value(t) is not None:
            return True, "const"
        if k == "cast":
            if t[3] in NARROW:
                return True, "narrow:" + t[3]
            return self.classify(b, t[1], depth + 1, seen)
        if k == "call":
            last = t[1].split("::")[-1]
            if last in ("len", "remaining", "capacity", "remaining_mut"):
                return True, "len"
            if "impl u16>" in t[1] or "impl u8>" in t[1] or "impl i16>" in t[1] or last in ("get_u8", "get_u16", "get_i16", "get_u16_le"):
                return True, "narrow:" + last
            if last == "min":
                res = [self.classify(b, a, depth + 1, seen) for a in t[2]]
                if any(o for o, _ in res):
                    return True, "min(bounded)"
            if last in ("min", "max", "clamp", "saturating_sub", "saturating_add", "wrapping_sub", "wrapping_add", "div_ceil", "next_multiple_of"):
                res = [self.classify(b, a, depth + 1, seen) for a in t[2]]
                bad = [w for o, w in res if not o]
                return (not bad), (bad[0] if bad else "arith")
            if last == "map_or" and len(t[2]) == 3 and t[2][2][0] == "closure" and self.facts.has_body(t[2][2][1]):
                d = self.classify(b, t[2][1], depth + 1, seen)
                cb = self.facts.body(t[2][2][1])
                res = [d] + [self.classify(cb, x, depth + 1, seen + (("ret", cb.name),)) for x in cb.var_def_terms(0)]
                bad = [w for o, w in res if not o]
                return (not bad), (bad[0] if bad else "map_or")
            if self.facts.has_body(t[1]) and ("ret", t[1]) not in seen:
                cb = self.facts.body(t[1])
                res = [self.classify(cb, d, depth + 1, seen + (("ret", t[1]),)) for d in cb.var_def_terms(0)]
                bad = [w for o, w in res if not o]
                if res and not bad:
                    return True, "callee:" + last
                return False, "return value of %s (%s)" % (last, bad[0] if bad else "no definition found")
            return False, "value of %s" % t[1].split("<")[0][-60:]
        if k == "bin":
            if t[1] in ("Mul", "MulUnchecked", "Shl", "ShlUnchecked") and mir.int_value(t[2]) is None and mir.int_value(t[3]) is None:
                return False, "product of two non-constant values"
            a, c = self.classify(b, t[2], depth + 1, seen), self.classify(b, t[3], depth + 1, seen)
            if a[0] and c[0]:
                return True, "arith"
            return False, (a[1] if not a[0] else c[1])
        if k == "un":
            return self.classify(b, t[2], depth + 1, seen)
        if k == "var":
            key = ("var", b.name, t[2])
            if key in seen:
                return True, "self"          # x = x + bounded: accumulation inside a loop that R07.2 bounds
            if b.locals[t[2]]["ty"] in NARROW:
                return True, "narrow:" + b.locals[t[2]]["ty"]
            res = [self.classify(b, d, depth + 1, seen + (key,)) for d in b.var_def_terms(t[2])]
            bad = [w for o, w in res if not o]
            return (bool(res) and not bad), (bad[0] if bad else ("defs" if res else "no definition"))
        if k == "arg":
            idx = None
            for i, l in enumerate(b.locals):
                if l.get("n") == t[1] and 1 <= i <= b.rec.get("argc", 0):
                    idx = i - 1
            if idx is not None and b.locals[idx + 1]["ty"] in NARROW:
                return True, "narrow:" + b.locals[idx + 1]["ty"]
            key = ("arg", b.name, t[1])
            if idx is None or key in seen:
                return False, "parameter %s" % t[1]
            sites = self.callers(b.name)
            if not sites:
                # no crate caller at all: a public entry point - the application, not the peer, chooses the value
                return True, "application-chosen (parameter %s of %s, which has no caller in the crate)" % (t[1], b.name.split("::")[-1])
            for cb, bi, ct in sites:
                if idx >= len(ct["a"]):
                    return False, "parameter %s" % t[1]
                o, w = self.classify(cb, cb.term_operand(ct["a"][idx]), depth + 1, seen + (key,))
                if not o:
                    return False, "parameter %s, passed at %s: %s" % (t[1], cb.where(bi), w)
            return True, "param: bounded at all %d call sites" % len(sites)
        return False, "%s value (%s)" % (k, mir.show(t, 50))


def _bounding_guard(sc, b, site, sz):
    """is the allocation reachable only through edges on which the size (or the value it is a cast of) was compared
    with something bounded and found not larger?  -> description or None"""
    cands = [sz]
    x = sz
    while x[0] == "cast":
        x = x[1]
        cands.append(x)

    def bounded_edge(term, meaning, *_):
        t, neg = term, False
        while t[0] == "un" and t[1] == "Not":
            t, neg = t[2], not neg
        if t[0] != "bin" or t[1] not in ("Gt", "Ge", "Lt", "Le") or not isinstance(meaning, bool):
            return False
        l, rr = t[2], t[3]
        truth = meaning != neg
        for (a, c, ops_small) in ((l, rr, ("Lt", "Le")), (rr, l, ("Gt", "Ge"))):
            # a is the size, c the bound: size < / <= bound holds on this edge
            if a in cands and sc.classify(b, c)[0]:
                if (t[1] in ops_small) == truth:
                    return True
        return False
    g = core.guard_edges(b, bounded_edge)
    if g and core.k1(b, [site], g)[site] is None:
        return "guarded: every path to the allocation passes a `size <= bounded` edge"
    return None


def r07_3(ctx):
    """the 'bloat' clause, as far as explicit allocation requests go: in the decoder layer and everything it calls,
    the size handed to with_capacity / vec![_; n] / reserve / resize is a constant, a value of a type of at most 16
    bits (so at most 64 Ki elements), or linear in the lengths of buffers that already exist - never a 32/64-bit value
    read from the wire, a product of two wire values, or something the analysis cannot bound. Anything else is in the
    table with its reason. (Growth by push inside a loop is bounded by R07.2: every trip consumes input.)"""
    r = RuleResult("R07.3", "K7", "explicit allocation sizes are constants, narrow values or linear in existing buffer lengths")
    table = load_table()
    names = scope_closure(ctx.facts)
    sc = _SizeClass(ctx.facts)
    n = 0
    ordn = {}
    for name in names:
        if "::tests::" in name or "_serde::" in name:
            continue
        b = ctx.facts.body(name)
        for bi, t, p in b.calls():
            if not p or bi in b.cleanup or not p.endswith(ALLOC_CALLS):
                continue
            sz = _alloc_size_term(b, t, p)
            if sz is None:
                continue
            n += 1
            ok, why = sc.classify(b, sz)
            base = p.split("::")[-1]
            o = ordn.get((name, base), 0)
            ordn[(name, base)] = o + 1
            key = "%s|alloc|%s|%d" % (name, base, o)
            if not ok:
                g = _bounding_guard(sc, b, bi, sz)
                if g:
                    ok, why = True, g
            if ok:
                r.ok({"site": b.where(bi), "size": mir.show(sz, 70), "class": why} if n <= 40 else None)
            elif key in table:
                r.ok({"site": b.where(bi), "table": key, "reason": table[key]["reason"]})
            else:
                r.violate(name, "alloc|%s" % base, b.where(bi),
                          "allocation of %s elements: %s - a peer-chosen or unbounded size (not a constant, not a <= 16-bit value, "
                          "not linear in the length of an existing buffer)" % (mir.show(sz, 80), why))
    r.samples = [x for x in r.samples if x]
    r.need("explicit allocation sites in scope", n, 40)
    return r


def r07_4(ctx):
    """'bloat': the shared-port demultiplexer learns peer-address -> session routing from the USERNAME of Binding requests
    BEFORE anything is authenticated (authentication happens in the session). Entries are removed when the session they
    name goes away - so an entry that names no session is never removed. Anyone can send requests with made-up
    USERNAMEs from made-up source addresses: the table must only learn routes to sessions that exist. Decided: every
    insert into the peer table in SharedUdpPort::dispatch is cut by the 'a session is registered under this ufrag' edge."""
    r = RuleResult("R07.4", "K1", "the shared-port routing table only learns routes to registered sessions")
    fn = "transports::ice::shared_udp::SharedUdpPort::dispatch"
    b = ctx.body(fn)
    r.scope.append(fn)
    ins = [bi for bi, t, p in b.calls() if p and p.endswith("::insert") and t["a"] and mir.has_field(b.term_operand(t["a"][0]), "peers")]
    r.need("peer-table inserts in dispatch", len(ins), 1)

    def registered(term, meaning, *_):
        if term[0] == "call" and term[1].endswith("::contains_key") and mir.has_field(term, "sessions") and meaning is True:
            return True
        if term[0] == "discr" and meaning == "Some" and mir.has(term[1], lambda x: x[0] == "call" and x[1].endswith("::get") and mir.has_field(x, "sessions")):
            return True
        return False
    g = core.guard_edges(b, registered)
    for bi in ins:
        if g and core.k1(b, [bi], g)[bi] is None:
            r.ok({"site": b.where(bi), "cut_by": "a session is registered under the named ufrag"})
        else:
            r.violate(fn, "peers:unbounded", b.where(bi),
                      "the routing table learns an entry for whatever ufrag an (unauthenticated) Binding request names: entries for ufrags without a "
                      "session are never removed, so the table grows without bound under spoofed requests")
    return r


def r07_5(ctx):
    """'no unbounded loop' for the stream readers: `AsyncReadExt::read` returns Ok(0) at end of stream, for ever. A loop that
    keeps calling it until some byte count is reached therefore has to leave when a read returns 0 - otherwise a peer that
    closes the connection inside a frame turns the loop into a busy spin (the task never returns a value or an error).
    R07.2 does not look at these loops (their back edge crosses an await, like an event loop). Decided: every loop that
    contains an `AsyncReadExt::read` call tests that call's own result against 0 and leaves the loop on the zero edge."""
    r = RuleResult("R07.5", "K4", "a loop that reads from a stream leaves on a 0-byte read (end of stream)")
    n = 0
    for b in ctx.facts.all_bodies():
        if "::tests::" in b.name or b.name.startswith("tests::"):
            continue
        reads = [bi for bi, t, p in b.calls() if p and p.endswith("io::AsyncReadExt::read")]
        if not reads:
            continue
        for h, blocks in b.loops():
            blocks = set(blocks)
            inside = [bi for bi in reads if bi in blocks]
            if not inside:
                continue
            # innermost loop only
            if any(set(bl2) < blocks and any(bi in bl2 for bi in inside) for _h2, bl2 in b.loops()):
                continue
            n += 1
            r.scope.append(b.name)
            ok = False
            for sb in blocks:
                if b.blocks[sb]["t"]["k"] != "switch" or sb in b.cleanup:
                    continue
                term, outs = b.switch_info(sb)
                t = term
                while t[0] == "un" and t[1] == "Not":
                    t = t[2]
                if t[0] != "bin" or t[1] not in ("Eq", "Ne", "Gt", "Lt", "Le", "Ge"):
                    continue
                for x, c in ((t[2], t[3]), (t[3], t[2])):
                    if mir.int_value(c) != 0 or x[0] == "bin":
                        continue
                    forms = [x] + list(core.expand_vars(b, x, depth=2))
                    if any(f[0] != "bin" and mir.has(f, lambda z: z[0] == "call" and z[1].endswith("io::AsyncReadExt::read")) for f in forms):
                        # one of the edges leaves the loop (or the function)
                        if any(tgt not in blocks for tgt, _, _m in outs) or \
                                any(any(b.blocks[y]["t"]["k"] == "ret" for y in b.reachable([tgt], cut_blocks={h})) for tgt, _, _m in outs):
                            ok = True
            if ok:
                r.ok({"loop": b.where(h), "in": b.name.split("::")[-2] if "{closure" in b.name else b.name.split("::")[-1], "leaves on": "read(..) == 0"})
            else:
                r.violate(b.name, "read-loop:no-eof-exit", b.where(inside[0]),
                          "this loop calls read() until a byte count is reached but never tests the call's result against 0: when the peer closes the "
                          "stream read() returns Ok(0) for ever and the loop spins - the task neither returns a value nor an error")
    r.need("loops reading from a stream with read()", n, 1)
    return r


def run(ctx):
    return [r07_1(ctx), r07_2(ctx), r07_3(ctx), r07_4(ctx), r07_5(ctx)]
