"""C05 — SRTP rejects forged packets; a rejection never disturbs receiver state."""
from engine import core, mir
from engine.core import RuleResult, suffix

EXPLANATION = (
    "Static analysis of rustc MIR. R05.1: in SrtpContext::unprotect / unprotect_rtcp every write to the "
    "replay/rollover state (rollover_counter, last_sequence, rtcp_index; directly or via SrtpContext::update) "
    "is cut by an authentication-success edge (constant_time_eq(..) true, or the Ok/Continue edge of an AEAD "
    "decrypt). R05.2: every Ok return of the two functions is cut by such an edge (one reviewed exception: "
    "the None arm of the HMAC prototype, unreachable because the constructor builds a prototype whenever the "
    "profile's auth key length is non-zero - that constructor/table link is checked too). R05.3: in "
    "RtpTransport::receive the Err arms of unprotect_* reach no delivery site (via C14/R14.2 guard set). "
    "R05.4: the per-SSRC receive-context table is mutated only by entry()/retain in the SrtpSession "
    "unprotect wrappers; table mutation before authentication is reported. Decides where state may change, "
    "not that the MAC detects every bit flip.")
ASSUMPTIONS = [
    "constant_time_eq and the aes-gcm/hmac crates implement what their names say",
    "auth_scratch and last_used are not cryptographic receiver state",
]
TRUSTED_BASE = ["rustc MIR construction", "engine CFG/terms", "rule tables in rules/c05.py"]

STATE_FIELDS = ("rollover_counter", "last_sequence", "rtcp_index")
DECRYPT = ("::decrypt", "::decrypt_in_place_detached", "::decrypt_in_place")


def auth_guard(term, meaning, body, bi, tgt):
    if term[0] == "call" and term[1].endswith("srtp::constant_time_eq") and meaning is True:
        return True
    if term[0] == "un" and term[1] == "Not" and term[2][0] == "call" and term[2][1].endswith("srtp::constant_time_eq") and meaning is False:
        return True
    if term[0] == "discr" and meaning in ("Continue", "Ok"):
        if mir.has(term[1], lambda x: x[0] == "call" and any(x[1].endswith(d) for d in DECRYPT)):
            return True
    return False


def guard_with_exception(proto):
    """authentication edges plus reviewed exception E05.a: the None arm of
    `if let Some(proto) = self.<proto>` in the HMAC branch (the constructor builds a prototype whenever
    the profile has an auth key; checked by R05.2's constructor/table obligations)"""
    def guard(term, meaning, b, bi, tgt):
        if auth_guard(term, meaning, b, bi, tgt):
            return True
        if term[0] == "discr" and mir.field_path(term[1]) == "self." + proto and meaning == "None":
            return True
        return False
    return guard


PROTO = {"srtp::SrtpContext::unprotect": "rtp_auth_prototype", "srtp::SrtpContext::unprotect_rtcp": "rtcp_auth_prototype"}


def _state_sites(ctx, body):
    """every site that may mutate the replay/rollover fields of *self: direct writes, `&mut self.<field>`
    borrows, and calls handing `&mut self` to a callee that (transitively) does either"""
    return core.state_mut_sites(ctx.facts, body, STATE_FIELDS)


def r05_1(ctx):
    r = RuleResult("R05.1", "K1", "replay/rollover state written only after authentication succeeded")
    total = 0
    for fn in ("srtp::SrtpContext::unprotect", "srtp::SrtpContext::unprotect_rtcp"):
        body = ctx.body(fn)
        r.scope.append(fn)
        g = core.guard_edges(body, guard_with_exception(PROTO[fn]))
        for bi, site in _state_sites(ctx, body):
            total += 1
            p = core.k1(body, [bi], g)[bi]
            if p is None:
                r.ok({"site": "%s %s" % (body.where(bi), site), "function": fn})
            else:
                r.violate(fn, site, body.where(bi), "receiver state written before the packet is authenticated",
                          core.describe_path(body, p))
    r.need("state write sites in unprotect/unprotect_rtcp", total, 3)
    # SrtpContext::update itself must be the only other writer on the receive side
    writers = set()
    for body in ctx.facts.bodies(prefix="srtp::"):
        if core.field_writes(body, lambda n: n in STATE_FIELDS):
            writers.add(body.name)
    allowed = {"srtp::SrtpContext::unprotect", "srtp::SrtpContext::unprotect_rtcp", "srtp::SrtpContext::update",
               "srtp::SrtpContext::protect_rtcp", "srtp::SrtpContext::protect", "srtp::SrtpContext::new"}
    for w in sorted(writers - allowed):
        r.violate(w, "write:state", ctx.body(w).where(0), "new writer of SRTP replay/rollover state")
    for w in sorted(writers & allowed):
        r.ok()
    return r


def r05_2(ctx):
    r = RuleResult("R05.2", "K1", "no Ok return without authentication")
    total = 0
    for fn, proto in (("srtp::SrtpContext::unprotect", "rtp_auth_prototype"),
                      ("srtp::SrtpContext::unprotect_rtcp", "rtcp_auth_prototype")):
        body = ctx.body(fn)
        r.scope.append(fn)
        g = core.guard_edges(body, guard_with_exception(proto))
        oks = core.ok_return_blocks(body)
        for bi in oks:
            total += 1
            p = core.k1(body, [bi], g)[bi]
            if p is None:
                r.ok({"site": "%s Ok return" % body.where(bi), "function": fn})
            else:
                r.violate(fn, "return:Ok", body.where(bi), "Ok returned on a path with no authentication edge",
                          core.describe_path(body, p))
    r.need("Ok returns", total, 3)
    # support for exception E05.a: constructor invariant
    new = ctx.body("srtp::SrtpContext::new")
    for proto, keys in (("rtp_auth_prototype", "rtp_keys"), ("rtcp_auth_prototype", "rtcp_keys")):
        # the aggregate Self{..} operand for the field must be a local that is None only on the is_empty(auth_key) edge
        none_sites = []
        for bi, si, s in new.assigns():
            if new.locals[s["p"]["l"]].get("n") == proto and "p" not in s["p"]:
                rv = s["rv"]
                if rv["r"] == "agg" and rv.get("variant") == "None":
                    none_sites.append(bi)
        if not none_sites:
            raise core.CheckerError("R05.2: cannot find `%s = None` in SrtpContext::new" % proto)

        def empty_guard(term, meaning, b, bi, tgt, keys=keys):
            if term[0] == "un" and term[1] == "Not" and term[2][0] == "call" and term[2][1].endswith("::is_empty"):
                inner = term[2][2][0]
                if mir.has_field(inner, "auth_key") and meaning is False:
                    return True
            if term[0] == "call" and term[1].endswith("::is_empty") and mir.has_field(term[2][0], "auth_key") and meaning is True:
                return True
            return False
        g = core.guard_edges(new, empty_guard)
        for bi in none_sites:
            p = core.k1(new, [bi], g)[bi]
            if p is None:
                r.ok({"site": new.where(bi), "invariant": "%s is None only when the derived auth key is empty" % proto})
            else:
                r.violate("srtp::SrtpContext::new", "none:%s" % proto, new.where(bi),
                          "HMAC prototype may be None although an auth key exists (exception E05.a no longer justified)")
    tbl = core.match_table(ctx.body("srtp::SrtpProfile::auth_key_len"))
    zero = sorted(str(k) for k, v in tbl.items() if v[0] == "const" and v[1] == 0)
    if zero == ["AeadAes128Gcm"] and len(tbl) >= 4:
        r.ok({"table": {str(k): mir.show(v) for k, v in tbl.items()}})
    else:
        r.violate("srtp::SrtpProfile::auth_key_len", "table", ctx.body("srtp::SrtpProfile::auth_key_len").where(0),
                  "auth key length is zero for a non-AEAD profile: %s" % {str(k): mir.show(v) for k, v in tbl.items()})
    return r


def r05_3(ctx):
    r = RuleResult("R05.3", "K1", "transport drops packets that fail unprotect")
    from rules import c14
    rr = c14.r14_2(ctx)
    r.scope = rr.scope
    r.obligations, r.discharged = rr.obligations, rr.discharged
    r.sites, r.floor = rr.sites, rr.floor
    r.samples = rr.samples
    for v in rr.violations:
        r.violate(v.fn, v.site, v.where, v.msg, v.path)
        r.obligations -= 1
    return r


def _table_mutators(ctx):
    """SrtpSession functions that, directly or through other session functions, evict from or insert into the
    per-SSRC receive table"""
    GROWM = ("::insert", "::or_insert", "::or_insert_with", "::retain", "::remove", "::clear")
    direct = set()
    calls = {}
    for body in ctx.facts.bodies(prefix="srtp::SrtpSession::"):
        base = body.name.split("::{closure")[0]
        for bi, t, p in body.calls():
            if not p:
                continue
            calls.setdefault(base, set()).add(p)
            if any(p.endswith(m) for m in GROWM) and t["a"] and mir.has_field(body.term_operand(t["a"][0]), "rx_contexts"):
                direct.add(base)
    out = set(direct)
    changed = True
    while changed:
        changed = False
        for f, cs in calls.items():
            if f not in out and cs & out:
                out.add(f)
                changed = True
    return out


def r05_4(ctx):
    r = RuleResult("R05.4", "K3+K1", "per-SSRC receive-context table: who may mutate, and only after authentication")
    n = 0
    MUT = ("::insert", "::entry", "::retain", "::remove", "::clear", "::drain", "::get_mut", "::or_insert_with", "::or_insert")
    for body in ctx.facts.bodies(prefix="srtp::"):
        for bi, t, path in body.calls():
            if not path or not t["a"]:
                continue
            a0 = body.term_operand(t["a"][0])
            if mir.field_path(a0) != "self.rx_contexts":
                continue
            if not any(path.endswith(m) for m in MUT):
                continue
            n += 1
            base = body.name.split("::{closure")[0]
            if base in ("srtp::SrtpSession::unprotect_rtp", "srtp::SrtpSession::unprotect_rtcp", "srtp::SrtpSession::evict_stale_rx"):
                r.ok({"site": "%s %s" % (body.where(bi), path.split("::")[-1])})
            else:
                r.violate(body.name, "mutate:rx_contexts", body.where(bi), "receive-context table mutated outside the unprotect wrappers")
    r.need("rx_contexts mutation sites", n, 3)
    # growth/eviction of the table only after the triggering packet authenticated
    GROW = ("::insert", "::or_insert", "::or_insert_with", "::retain", "::remove", "::clear")
    for fn in ("srtp::SrtpSession::unprotect_rtp", "srtp::SrtpSession::unprotect_rtcp"):
        body = ctx.body(fn)

        def authed(term, meaning, *_):
            return term[0] == "discr" and meaning in ("Continue", "Ok") and mir.has(
                term[1], lambda x: x[0] == "call" and x[1] in ("srtp::SrtpContext::unprotect", "srtp::SrtpContext::unprotect_rtcp"))
        g = core.guard_edges(body, authed)
        # functions of the session that (transitively) evict or grow the receive table
        mutators = _table_mutators(ctx)
        sites = [(bi, "call:%s" % p.split("::")[-1]) for bi, t, p in body.calls()
                 if p and p in mutators and p != fn]
        for bi, t, path in body.calls():
            if path and any(path.endswith(m) for m in GROW) and t["a"]:
                a0 = body.term_operand(t["a"][0])
                if mir.has_field(a0, "rx_contexts"):
                    sites.append((bi, "call:%s" % path.split("::")[-1]))
        if not sites:
            raise core.CheckerError("R05.4: no table growth/eviction site found in %s" % fn)
        for bi, site in sites:
            p_ = core.k1(body, [bi], g)[bi]
            if p_ is None:
                r.ok({"site": "%s %s" % (body.where(bi), site), "cut_by": "SrtpContext::unprotect* Ok"})
            else:
                r.violate(fn, site, body.where(bi),
                          "per-SSRC table grown/evicted before the triggering packet is authenticated "
                          "(a burst of forged SSRCs can evict the rollover state of a quiet genuine stream)",
                          core.describe_path(body, p_))
    return r


def r05_5(ctx):
    """AEAD SRTCP (RFC 7714 9.x): the tag must cover every received bit - the 8-byte header and the trailing
    index word *as received* (E bit included) as associated data, everything between them as ciphertext. If
    the receiver rebuilds the index word (masking or forcing a bit) that bit can be flipped by anyone."""
    r = RuleResult("R05.5", "K4/dataflow", "SRTCP AEAD authenticates the received header, body and index word unmodified")
    fn = "srtp::SrtpContext::unprotect_rtcp"
    b = ctx.body(fn)
    r.scope.append(fn)
    dec = [(bi, t) for bi, t, p in b.calls() if p and p.split("::")[-1] in ("decrypt", "decrypt_in_place_detached", "decrypt_in_place")]
    r.need("AEAD decrypt calls in unprotect_rtcp", len(dec), 1)
    for bi, t in dec:
        flows = []
        for a in t["a"]:
            flows += core.expand_vars(b, b.term_operand(a), 3)
        subs = [x for f in flows for x in mir.walk(f)]

        def is_pkt_slice(x, kind):
            return x[0] == "call" and "::index" in x[1] and len(x[2]) == 2 and x[2][0] == ("arg", "packet") and \
                x[2][1][0] == "agg" and x[2][1][1].endswith(kind)
        header = any(is_pkt_slice(x, "RangeTo") and mir.int_value(x[2][1][3][0]) == 8 for x in subs)
        body = any(is_pkt_slice(x, "Range") and mir.int_value(x[2][1][3][0]) == 8 for x in subs)
        raw_word = any(is_pkt_slice(x, "RangeFrom") and x in flows for x in subs)
        word = raw_word or any(x[0] == "call" and x[1].endswith("::to_be_bytes") and x[2] and x[2][0][0] == "call" and
                               x[2][0][1].endswith("::from_be_bytes") and
                               mir.has(x[2][0], lambda y: is_pkt_slice(y, "RangeFrom")) for x in subs)
        missing = [n for n, ok in (("header packet[..8]", header), ("ciphertext packet[8..len-4]", body),
                                   ("index word packet[len-4..] as received", word)) if not ok]
        if not missing:
            r.ok({"site": b.where(bi), "covers": "packet[..8] + received index word (aad), packet[8..len-4] (ciphertext)"})
        else:
            r.violate(fn, "aead:coverage", b.where(bi),
                      "the AEAD input does not contain %s: those bits of a received SRTCP packet are not authenticated" % ", ".join(missing))
    return r


def run(ctx):
    return [r05_1(ctx), r05_2(ctx), r05_3(ctx), r05_4(ctx), r05_5(ctx)]
