"""Produce (or reuse) the MIR fact file for the current working tree of the
repository under analysis.  Every check goes through ensure_facts(), so every
verdict is about the tree as it is *now*: the cache key is a hash of all source
files, the manifest, the lock file, the feature set and the driver binary."""
import fcntl
import hashlib
import os
import subprocess
import sys
import time

VERIF = os.path.dirname(os.path.dirname(os.path.abspath(__file__)))
REPO = os.environ.get("VERIF_REPO", "/repo")
CACHE = os.path.join(VERIF, ".cache")
DRIVER = os.path.join(VERIF, "driver", "target", "release", "rtcfacts")

CONFIGS = {
    "default": [],
    "simulator": ["--features", "simulator"],
}


class CheckerError(Exception):
    pass


def _source_files(repo):
    out = []
    for base in ("src",):
        for root, _dirs, files in os.walk(os.path.join(repo, base)):
            for f in files:
                out.append(os.path.join(root, f))
    for f in ("Cargo.toml", "Cargo.lock", "build.rs"):
        p = os.path.join(repo, f)
        if os.path.exists(p):
            out.append(p)
    return sorted(out)


def tree_hash(repo=None, config="default"):
    repo = repo or REPO
    h = hashlib.sha256()
    h.update(config.encode())
    for p in _source_files(repo):
        h.update(os.path.relpath(p, repo).encode())
        with open(p, "rb") as fh:
            h.update(hashlib.sha256(fh.read()).digest())
    if not os.path.exists(DRIVER):
        raise CheckerError("driver binary missing: run MANIFEST.setup_cmd (%s)" % DRIVER)
    with open(DRIVER, "rb") as fh:
        h.update(hashlib.sha256(fh.read()).digest())
    return h.hexdigest()[:24]


def _sysroot():
    return subprocess.check_output(["rustc", "+nightly", "--print", "sysroot"], text=True).strip()


def ensure_facts(config="default", repo=None, force=False, quiet=False):
    """Returns (path_to_facts_jsonl, hash, info dict)."""
    repo = repo or REPO
    os.makedirs(os.path.join(CACHE, "facts"), exist_ok=True)
    key = tree_hash(repo, config)
    out = os.path.join(CACHE, "facts", "%s.%s.jsonl" % (config, key))
    info = {"hash": key, "config": config, "repo": repo, "reused": True, "driver_s": 0.0}
    if os.path.exists(out) and not force:
        _touch(out)
        return out, key, info
    lock_path = os.path.join(CACHE, "lock")
    with open(lock_path, "w") as lock:
        fcntl.flock(lock, fcntl.LOCK_EX)
        if os.path.exists(out) and not force:
            _touch(out)
            return out, key, info
        t0 = time.time()
        target = os.path.join(CACHE, "target")
        fp = os.path.join(target, "debug", ".fingerprint")
        if os.path.isdir(fp):
            for d in os.listdir(fp):
                if d.startswith("rustrtc-"):
                    subprocess.call(["rm", "-rf", os.path.join(fp, d)])
        env = dict(os.environ)
        env["LD_LIBRARY_PATH"] = _sysroot() + "/lib:" + env.get("LD_LIBRARY_PATH", "")
        env["RUSTFLAGS"] = "-Zmir-opt-level=0 -Awarnings"
        env["RUSTC_WORKSPACE_WRAPPER"] = DRIVER
        env["CARGO_TARGET_DIR"] = target
        env["CARGO_NET_OFFLINE"] = "true"
        tmp_out = out + ".part.%d" % os.getpid()
        env["VERIF_FACTS_OUT"] = tmp_out
        env["VERIF_CRATE"] = "rustrtc"
        cmd = ["cargo", "+nightly", "check", "--offline", "--lib",
               "--manifest-path", os.path.join(repo, "Cargo.toml")] + CONFIGS[config]
        p = subprocess.run(cmd, env=env, stdout=subprocess.PIPE, stderr=subprocess.STDOUT, text=True)
        if p.returncode != 0:
            first = [l for l in p.stdout.splitlines() if l.startswith("error")][:3]
            raise CheckerError("build failed (cargo +nightly check): %s\n%s" % (
                "; ".join(first), "\n".join(p.stdout.splitlines()[-25:])))
        if not os.path.exists(tmp_out):
            raise CheckerError("driver did not write facts (wrapper skipped?)\n" + p.stdout[-2000:])
        os.rename(tmp_out, out)
        info["reused"] = False
        info["driver_s"] = round(time.time() - t0, 2)
        _prune()
    return out, key, info


def _touch(path):
    """a reused fact file is in use: keep it young so that a concurrent run's pruning leaves it alone"""
    try:
        os.utime(path, None)
    except OSError:
        pass


def _prune(keep=8, min_age_s=600):
    """drop all but the newest `keep` fact files - but never one used in the last ten minutes (checks of several
    properties, and the scratch-copy variants of the thorough tier, run concurrently and share this cache)"""
    d = os.path.join(CACHE, "facts")
    files = sorted((os.path.getmtime(os.path.join(d, f)), f) for f in os.listdir(d) if f.endswith(".jsonl"))
    now = time.time()
    for f in os.listdir(d):
        if ".jsonl.part." in f and now - os.path.getmtime(os.path.join(d, f)) > 3600:
            try:
                os.remove(os.path.join(d, f))      # left behind by an interrupted run
            except OSError:
                pass
    for mt, f in files[:-keep]:
        if now - mt < min_age_s:
            continue
        try:
            os.remove(os.path.join(d, f))
        except OSError:
            pass


if __name__ == "__main__":
    cfg = sys.argv[1] if len(sys.argv) > 1 else "default"
    try:
        print(ensure_facts(cfg, force="--force" in sys.argv))
    except CheckerError as e:
        print("CHECKER-ERROR", e)
        sys.exit(2)
