"""C20 — track sample queues never duplicate, reorder, corrupt or leak samples."""
from engine import core, mir
from engine.core import RuleResult, suffix

EXPLANATION = (
    "Static analysis of rustc MIR of media::{spsc,track,pipeline}. The SPSC ring is memory-safe only with one "
    "producer and one consumer at a time; that is an ownership/lock discipline visible in the code shape. "
    "R20.1: every SpscRing::push call outside spsc.rs is reachable only while a mutex guard is held, and all push "
    "sites of one ring (all handle types built around the same Arc<SpscRing>) hold the same lock instance - an Arc "
    "shared by Clone and handed to every handle type by the constructor. R20.2: same for "
    "SpscRing::pop. R20.3: the four atomic orderings of push/pop (head Acquire-load / tail Release-store after the "
    "slot write; tail Acquire-load / head Release-store after the slot read). R20.4: unsafe impl Send/Sync keep "
    "T: Send; Clone increments and Drop decrements the sender count, closing on the last; end-of-stream is "
    "reported only after the queue was observed empty. FIFO order per producer follows from these by the "
    "standard SPSC argument (cited, not re-proved).")
ASSUMPTIONS = ["parking_lot/std mutexes provide mutual exclusion", "unwind edges are not paths"]
TRUSTED_BASE = ["rustc MIR construction", "engine CFG/terms/guard-liveness", "rule tables in rules/c20.py"]

PUSH = "media::spsc::SpscRing::<T>::push"
POP = "media::spsc::SpscRing::<T>::pop"


def _self_type(ctx, body):
    fn = body.name.split("::{closure")[0]
    b = ctx.facts.body(fn) if ctx.facts.has_body(fn) else body
    return b.rec.get("impl_self") or fn.rsplit("::", 1)[0]


SLOT_WRITE = ("MaybeUninit::<T>::write",)
SLOT_READ = ("MaybeUninit::<T>::assume_init_read", "MaybeUninit::<T>::assume_init_drop", "MaybeUninit::<T>::assume_init")


def _ring_methods(ctx, slot_calls):
    """methods of SpscRing that touch a slot in the given way (a new `push_overwrite` is a producer too)"""
    out = set()
    for b in ctx.facts.bodies(prefix="media::spsc::SpscRing::<T>::"):
        if "::{closure" in b.name:
            continue
        if b.name.endswith(("::drop", "::new")):
            continue
        if any(p and p.endswith(slot_calls) for _bi, _t, p in b.calls()):
            out.add(b.name)
        # ... or that moves the index of that end (advancing `head` is a consumer action whoever does it)
        idx = "tail" if slot_calls is SLOT_WRITE else "head"
        if core.atomic_sites(b, idx, "store"):
            out.add(b.name)
    return out


def _sites(ctx, callee):
    callees = {callee}
    callees |= _ring_methods(ctx, SLOT_WRITE if callee == PUSH else SLOT_READ)
    out = []
    for body in ctx.facts.all_bodies():
        if body.name.startswith("media::spsc::"):
            continue
        for bi, t, path in core.calls_to(body, lambda p: p in callees):
            out.append((body, bi, t))
    return out


def _ring_groups(ctx):
    """handle types that share one ring: two struct literals built in the same function whose ring field
    operands are the same Arc. -> (type -> group id, {(typeA, typeB, field): shared?} for lock fields)"""
    ring_types = {}
    for name, adt in ctx.facts.adts.items():
        for v in adt["variants"]:
            for f in v["fields"]:
                if "SpscRing<" in f["ty"] and not name.startswith("media::spsc::"):
                    ring_types[name] = f["n"]
    parent = {t: t for t in ring_types}

    def find(x):
        while parent[x] != x:
            x = parent[x]
        return x
    same_field = {}
    for body in ctx.facts.all_bodies():
        if "::tests::" in body.name:
            continue
        aggs = [(bi, si, st) for bi, si, st in core.aggregates(body, lambda a: a in ring_types)]
        if len(aggs) < 2:
            continue
        recs = []
        for bi, si, st in aggs:
            rv = st["rv"]
            ops = {fn: body.term_operand(o) for fn, o in zip(rv["fields"], rv["ops"])}
            recs.append((rv["adt"], ops))
        for i in range(len(recs)):
            for j in range(i + 1, len(recs)):
                (ta, oa), (tb, ob) = recs[i], recs[j]
                if ta == tb:
                    continue
                if oa.get(ring_types[ta]) == ob.get(ring_types[tb]) and oa.get(ring_types[ta]) is not None:
                    parent[find(ta)] = find(tb)
                    for f in set(oa) & set(ob):
                        same_field[(ta, tb, f)] = same_field[(tb, ta, f)] = (oa[f] == ob[f])
    return {t: find(t) for t in ring_types}, same_field


def _exclusive(ctx, r, what, callee, floor, needs_shared_arc):
    sites = _sites(ctx, callee)
    r.need("%s call sites outside spsc.rs" % what, len(sites), floor)
    group_of, same_field = _ring_groups(ctx)
    by_group = {}
    for body, bi, t in sites:
        ty = _self_type(ctx, body)
        by_group.setdefault(group_of.get(ty, ty), []).append((ty, body, bi, t))
    for g, ss in sorted(by_group.items()):
        types = sorted(set(ty for ty, _, _, _ in ss))
        r.scope += types
        held_sets = []
        for ty, body, bi, t in ss:
            held_sets.append(set(f for f, _ in core.held_locks_at(body, bi)))
        common = set.intersection(*held_sets) if held_sets else set()
        ok_common = set()
        for f in common:
            # one lock instance: shared between clones of each handle type, and the same Arc in every handle
            # type of the ring that has %s sites
            if all(_shared_lock_field(ctx, ty, f) for ty in types) and \
                    all(same_field.get((a, b, f), False) for a in types for b in types if a != b):
                ok_common.add(f)
        for (ty, body, bi, t), held in zip(ss, held_sets):
            site = "call:%s" % what
            if ok_common:
                r.ok({"site": "%s %s" % (body.where(bi), what), "under": sorted(ok_common), "handles of the ring": types})
            else:
                why = "no lock held" if not held else "held %s but no single lock instance common to all %s sites of the ring shared by %s" % (sorted(held), what, types)
                r.violate(body.name, site, body.where(bi),
                          "%s on a shared ring without a %s-serialising lock (%s)" % (what, "producer" if what == "push" else "consumer", why))


def _shared_lock_field(ctx, ty, field):
    adt = ctx.facts.adts.get(ty)
    if adt is None:
        return False
    fty = None
    for v in adt["variants"]:
        for f in v["fields"]:
            if f["n"] == field:
                fty = f["ty"]
    if fty is None:
        return False
    clone_name = "<%s as std::clone::Clone>::clone" % ty
    if not ctx.facts.has_body(clone_name):
        return True  # handle is not Clone: one lock instance per ring by construction
    if not fty.startswith("std::sync::Arc<"):
        return False
    cb = ctx.facts.body(clone_name)
    for bi, si, s in core.aggregates(cb, lambda a: a == ty, in_clone=True):
        rv = s["rv"]
        idx = rv["fields"].index(field)
        op = cb.term_operand(rv["ops"][idx])
        return op == ("field", ("arg", "self"), field)
    # derived Clone: clones every field
    return True


def r20_1(ctx):
    r = RuleResult("R20.1", "K5", "producer exclusivity: push only under one shared producer lock")
    _exclusive(ctx, r, "push", PUSH, 6, True)
    return r


def r20_2(ctx):
    r = RuleResult("R20.2", "K5", "consumer exclusivity: pop only under one shared consumer lock")
    _exclusive(ctx, r, "pop", POP, 4, True)
    return r


ACQ = ("Acquire", "SeqCst", "AcqRel")
REL = ("Release", "SeqCst", "AcqRel")


def _atomic_ops(body):
    out = []
    for bi, t, path in body.calls():
        if path and path.startswith("std::sync::atomic::") and (path.endswith("::load") or path.endswith("::store")):
            args = [body.term_operand(a) for a in t["a"]]
            f = (mir.field_path(args[0]) or "?").split(".")[-1]
            o = args[-1]
            ordn = o[2] if o[0] == "agg" else "?"
            out.append((bi, path.rsplit("::", 1)[1], f, ordn))
    return out


def r20_3(ctx):
    r = RuleResult("R20.3", "K6+K4", "memory-order table of SpscRing::push / pop")
    push = ctx.body(PUSH)
    pop = ctx.body(POP)
    r.scope += [PUSH, POP]
    spec = [
        (push, "load", "head", ACQ, "producer must acquire the consumer's head before reusing a slot"),
        (push, "store", "tail", REL, "producer must release the slot write when publishing tail"),
        (pop, "load", "tail", ACQ, "consumer must acquire the producer's tail before reading the slot"),
        (pop, "store", "head", REL, "consumer must release the slot read when publishing head"),
    ]
    for body, op, f, allowed, why in spec:
        ops = [x for x in _atomic_ops(body) if x[1] == op and x[2] == f]
        if not ops:
            raise core.CheckerError("R20.3: %s of %s not found in %s" % (op, f, body.name))
        for bi, _op, _f, ordn in ops:
            if ordn in allowed:
                r.ok({"site": body.where(bi), "op": "%s.%s(%s)" % (f, op, ordn)})
            else:
                r.violate(body.name, "%s:%s" % (op, f), body.where(bi), "%s.%s uses Ordering::%s: %s" % (f, op, ordn, why))
    # ordering of slot access and publication
    for body, slot_call, pub_field in ((push, "MaybeUninit::<T>::write", "tail"), (pop, "MaybeUninit::<T>::assume_init_read", "head")):
        slot = [bi for bi, t, p in core.calls_to(body, suffix(slot_call))]
        st = [x[0] for x in _atomic_ops(body) if x[1] == "store" and x[2] == pub_field]
        if not slot:
            raise core.CheckerError("R20.3: slot access %s not found in %s" % (slot_call, body.name))
        for sb in st:
            if core.must_pass(body, sb, slot):
                r.ok({"site": body.where(sb), "order": "slot access happens before %s.store" % pub_field})
            else:
                r.violate(body.name, "order:%s" % pub_field, body.where(sb), "%s published before the slot access" % pub_field)
        # the full/empty test guards the slot access
    # index store value: tail+1 / head+1 from the same loaded value
    return r


def r20_6(ctx):
    """'never ... leak samples' (the drop balance of the payload buffers): a slot of the ring is a MaybeUninit - writing
    it does not drop what it held. Every slot write therefore has to happen where the slot is known to be vacant: on the
    not-full edge of the `tail - head >= capacity` test, or after the same function has read / dropped that slot. A
    drop-oldest "overwrite in place" that writes the oldest element's slot directly leaks one sample per overflow (its
    Bytes payload, raw packet and header extension)."""
    r = RuleResult("R20.6", "K1", "a ring slot is written only when it is vacant")
    n = 0
    for name in sorted(_ring_methods(ctx, SLOT_WRITE)):
        b = ctx.body(name)
        r.scope.append(name)
        writes = [bi for bi, t, p in b.calls() if p and p.endswith(SLOT_WRITE)]
        reads = [bi for bi, t, p in b.calls() if p and p.endswith(SLOT_READ + ("ptr::drop_in_place",))]

        def not_full(term, meaning, *_):
            t, neg = term, False
            while t[0] == "un" and t[1] == "Not":
                t, neg = t[2], not neg
            if t[0] == "bin" and t[1] in ("Ge", "Gt", "Eq", "Lt", "Le", "Ne") and isinstance(meaning, bool) and \
                    mir.has_field(t, "capacity") and mir.has(t, lambda x: core.is_atomic_load(x, "tail")) and mir.has(t, lambda x: core.is_atomic_load(x, "head")):
                full_when_true = t[1] in ("Ge", "Gt", "Eq")
                return (meaning != neg) is (not full_when_true)
            return False
        g = core.lift_guards(b, core.guard_edges(b, not_full))
        for bi in writes:
            n += 1
            if g and core.k1(b, [bi], g)[bi] is None:
                r.ok({"site": b.where(bi), "vacant": "on the not-full edge"})
            elif reads and core.must_pass(b, bi, reads):
                r.ok({"site": b.where(bi), "vacant": "the slot was read / dropped first"})
            else:
                r.violate(name, "slot-write:occupied", b.where(bi),
                          "the slot is written on a path where the ring may be full and nothing has taken the old element out: "
                          "MaybeUninit::write does not drop it - the evicted sample (payload buffers included) is leaked")
    r.need("slot writes in SpscRing", n, 1)
    return r


def r20_4(ctx):
    r = RuleResult("R20.4", "K6+K4+K1", "Send/Sync bounds, sender accounting, drain before end-of-stream")
    n = 0
    for imp in ctx.facts.impls:
        if imp["self"].startswith("media::spsc::SpscRing<") and imp.get("trait") in ("std::marker::Send", "std::marker::Sync"):
            n += 1
            if any(p.replace(" ", "") in ("T:std::marker::Send",) for p in imp["preds"]):
                r.ok({"impl": imp.get("trait_full"), "preds": imp["preds"]})
            else:
                r.violate("media::spsc", "impl:%s" % imp["trait"].split("::")[-1], "%s:%d" % (imp["sp"]["f"], imp["sp"]["l"]),
                          "unsafe impl %s for SpscRing<T> lost its `T: Send` bound (preds=%s)" % (imp["trait"], imp["preds"]))
    r.need("unsafe impl Send/Sync for SpscRing", n, 2)
    ty = "media::track::SampleStreamSource"
    cb = ctx.body("<%s as std::clone::Clone>::clone" % ty)
    db = ctx.body("<%s as std::ops::Drop>::drop" % ty)
    inc = core.atomic_sites(cb, "active_senders", "fetch_add")
    if inc and core.always_followed_by(cb, 0, [x[0] for x in inc]) or (inc and inc[0][0] == 0):
        r.ok({"clone": "active_senders.fetch_add(1) on every path"})
    else:
        r.violate(cb.name, "fetch_add:active_senders", cb.where(0), "Clone does not count the new sender")
    dec = core.atomic_sites(db, "active_senders", "fetch_sub")
    closes = [x for x in core.atomic_sites(db, "source_closed", "store")]
    if not dec:
        r.violate(db.name, "fetch_sub:active_senders", db.where(0), "Drop does not release the sender count")
    else:
        r.ok({"drop": "active_senders.fetch_sub(1)"})

    def last(term, meaning, *_):
        return term[0] == "bin" and term[1] == "Eq" and mir.has(term[2], lambda x: x[0] == "call" and x[1].endswith("::fetch_sub")) \
            and term[3][0] == "const" and term[3][1] == 1 and meaning is True
    g = core.guard_edges(db, last)
    for bi, t, args in closes:
        if g and core.k1(db, [bi], g)[bi] is None:
            r.ok({"site": db.where(bi), "source_closed.store(true) only when": "fetch_sub(..) == 1"})
        else:
            r.violate(db.name, "store:source_closed", db.where(bi), "source closed while other senders may still exist")
    if not closes:
        r.violate(db.name, "store:source_closed", db.where(0), "last sender drop never closes the source")
    # end of stream: reported only when the queue was observed empty AFTER `closed` was observed true (a sample pushed
    # and the source closed between the two reads must not be lost), and the consumer registers its waiter before it
    # looks at the state (the closing side uses notify_waiters(), which stores no permit).
    for fn, closed_field, eos_pred in (
            ("<media::track::SampleStreamTrack as media::track::MediaStreamTrack>::recv::{closure#0}", "source_closed",
             lambda v: v[0] == "agg" and v[2] == "Err" and mir.has(v, lambda x: x[0] == "agg" and x[2] == "EndOfStream")),
            ("media::pipeline::SampleQueueReceiver::recv::{closure#0}", "closed",
             lambda v: v[0] == "agg" and v[1].endswith("option::Option") and v[2] == "None")):
        tb = ctx.body(fn)
        r.scope.append(tb.name)
        loads = [bi for bi, t, p in tb.calls() if p and p.endswith("::load") and t["a"] and mir.has_field(tb.term_operand(t["a"][0]), closed_field)]
        empties = [bi for bi, t, p in tb.calls() if p and p.endswith(("SpscRing::<T>::pop", "SpscRing::<T>::is_empty"))]

        def closed_true(term, meaning, *_, f=closed_field):
            t, neg = term, False
            if t[0] == "un" and t[1] == "Not":
                t, neg = t[2], True
            return core.is_atomic_load(t, f) and isinstance(meaning, bool) and (meaning is not neg)

        def observed_empty(term, meaning, *_):
            if term[0] == "call" and term[1].endswith("SpscRing::<T>::is_empty") and meaning is True:
                return True
            return term[0] == "discr" and term[1][0] == "call" and term[1][1].endswith("SpscRing::<T>::pop") and meaning == "None"
        g_closed = core.guard_edges(tb, closed_true)
        g_empty = core.guard_edges(tb, observed_empty)
        eos = []
        for bi, si, st in tb.assigns():
            if st["p"]["l"] == 0 and "p" not in st["p"] and eos_pred(tb.term_rvalue(st["rv"])):
                eos.append(bi)
        if fn.startswith("<media::track"):
            ended = lambda term, meaning, *_: core.is_atomic_load(term, "ended") and meaning is True
            g_ended = core.guard_edges(tb, ended)
        else:
            g_ended = []
        n_eos = 0
        for bi in eos:
            if g_ended and core.k1(tb, [bi], g_ended)[bi] is None:
                r.ok({"site": tb.where(bi), "eos": "sticky `ended` flag"})
                continue
            n_eos += 1
            cut_c = g_closed and core.k1(tb, [bi], g_closed, fresh_per_iteration=True)[bi] is None
            cut_e = g_empty and core.k1(tb, [bi], g_empty, fresh_per_iteration=True)[bi] is None
            # order: no closed-load may reach this return without passing an emptiness observation afterwards
            order = True
            for lb in loads:
                if bi in tb.reachable([t for t, _ in tb.succ_edges(lb)], cut_edges=tb.back_edges()):
                    if tb.path_to([t for t, _ in tb.succ_edges(lb)], bi, cut_edges=tb.back_edges(), cut_blocks=set(empties)) is not None:
                        order = False
            if cut_c and cut_e and order:
                r.ok({"site": tb.where(bi), "eos": "closed read, THEN queue observed empty"})
            elif cut_c and cut_e:
                r.violate(tb.name, "eos:order", tb.where(bi),
                          "end of stream is decided on an emptiness observation made BEFORE `%s` was read: a sample pushed and the "
                          "last sender dropped in between is reported as end of stream and never delivered" % closed_field)
            else:
                r.violate(tb.name, "eos", tb.where(bi), "end of stream reported without (closed && queue observed empty)")
        r.need("end-of-stream returns in %s" % fn.split("::")[-3], n_eos, 1)
        # waiter registered before the state is examined
        regs = [bi for bi, t, p in tb.calls() if p and p.endswith("Notify::notified")]
        if not regs:
            raise core.CheckerError("R20.4: no Notify::notified() in %s" % fn)
        yields = [i for i, blk in enumerate(tb.blocks) if blk["t"]["k"] == "yield"]
        for rb in regs:
            # the first suspension after the registration must be preceded by a re-check of `closed`
            p_ = None
            for y in yields:
                if y in tb.reachable([t for t, _ in tb.succ_edges(rb)], cut_edges=tb.back_edges()):
                    q = tb.path_to([t for t, _ in tb.succ_edges(rb)], y, cut_edges=tb.back_edges(), cut_blocks=set(loads))
                    if q is not None:
                        p_ = q
            if p_ is None:
                r.ok({"site": tb.where(rb), "waiter": "created before `%s` is checked; no suspension before that check" % closed_field})
            else:
                r.violate(tb.name, "wait:lost-wakeup", tb.where(rb),
                          "the task can suspend on the Notified future without having re-checked `%s` after creating it: a close "
                          "(notify_waiters stores no permit) that landed before the future existed wakes nobody and recv() waits for ever" % closed_field,
                          core.describe_path(tb, p_))
    return r


def r20_5(ctx):
    """the ring keeps free-running head/tail counters and reduces them modulo capacity only to address a slot.
    Occupancy (empty, full, how many elements remain to drop) can only be decided on the unreduced counters:
    once reduced, a full ring and an empty ring look the same - a Drop that compares slot indices leaks every
    queued sample of a full ring, a pop that does so returns nothing from it."""
    r = RuleResult("R20.5", "K6", "ring occupancy is decided on the free-running counters, never on slot indices")
    n = 0
    for b in ctx.facts.bodies(pred=lambda nm: "media::spsc::SpscRing" in nm):
        if "::tests::" in b.name:
            continue
        for bi, si, st in b.assigns():
            rv = st["rv"]
            if rv["r"] != "bin" or rv["op"] not in ("Eq", "Ne", "Lt", "Le", "Gt", "Ge"):
                continue
            ta, tb = b.term_operand(rv["a"]), b.term_operand(rv["b"])

            def cursorish(t):
                return any(mir.has_field(e, "head") or mir.has_field(e, "tail") for e in core.expand_vars(b, t, 2))
            if not (cursorish(ta) and cursorish(tb)):
                continue          # e.g. the bounds check of buffer[idx] against buffer.len()
            reduced = []
            for t in (ta, tb):
                for e in core.expand_vars(b, t, 2):
                    if mir.has(e, lambda y: y[0] == "bin" and y[1] == "Rem" and mir.has_field(y, "capacity")):
                        if t not in reduced:
                            reduced.append(t)
            n += 1
            if reduced:
                r.violate(b.name, "cmp:reduced-cursor", b.where(bi, si),
                          "ring occupancy decided by comparing a cursor reduced modulo capacity (%s): a full ring is indistinguishable "
                          "from an empty one" % mir.show(reduced[0], 60))
            else:
                r.ok({"site": b.where(bi, si), "compares": "%s %s %s" % (mir.show(ta, 40), rv["op"], mir.show(tb, 40))} if n <= 8 else None)
    r.samples = [x for x in r.samples if x]
    r.need("cursor comparisons in spsc.rs", n, 3)
    return r


def run(ctx):
    return [r20_1(ctx), r20_2(ctx), r20_3(ctx), r20_4(ctx), r20_5(ctx), r20_6(ctx)]
