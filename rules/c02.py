"""C02 — DTLS connects only to the peer whose certificate matches the SDP fingerprint.
An assume/guarantee chain over the handshake context; every link is a local K1/K3 rule:
Connected => Finished verified under keys => keys derived after key exchange verified =>
signature verified with the key of peer_certificate => peer_certificate stored only after its
SHA-256 equalled the expected fingerprint => expected fingerprint comes from the remote SDP."""
from engine import core, mir
from engine.core import RuleResult, suffix

EXPLANATION = (
    "Static analysis of rustc MIR; a chain of local cut-set/who-may rules. R02.1 Connected is constructed only in "
    "handle_finished and only past the `verify_data == calculate_verify_data(..)` edge (correlated on session_keys "
    "being Some). R02.2 session_keys is written only in handle_server_hello_done / handle_client_key_exchange; in the "
    "client role the write is cut by server_key_exchange_verified. R02.3 that flag is set only past the Ok edge of "
    "verify_server_key_exchange_signature(ctx.peer_certificate, ..) for the very ServerKeyExchange whose public key "
    "is then used. R02.4 peer_certificate is stored only past `fingerprint_from_der(leaf) == expected` for the very "
    "leaf stored. R02.5 the verifier's result is the ECDSA verify over randoms+params with the certificate's key; "
    "the fingerprint is SHA-256. R02.6 the expected fingerprint handed to DtlsTransport::new flows from the remote "
    "SDP; set_remote_description rejects WebRTC SDP without a sha-256 fingerprint and refuses to change it after "
    "DTLS started. R02.7 export_keying_material releases material only under Connected. R02.8 (server role): keys "
    "are derived and Connected reached with no certificate check of the client at all - reported as a finding. "
    "Does not decide cryptographic strength nor the p256/x509 crates.")
ASSUMPTIONS = ["p256 ECDSA verify, sha2 and x509-parser are correct", "`ctx` is exclusively borrowed by the handshake task (no concurrent writer)",
               "unwind edges are not paths"]
TRUSTED_BASE = ["rustc MIR construction", "engine CFG/terms/correlated reachability", "rule tables in rules/c02.py"]

D = "transports::dtls::DtlsInner::"
FIN = D + "handle_finished::{closure#0}"
SHD = D + "handle_server_hello_done::{closure#0}"
CKE = D + "handle_client_key_exchange"
SKE = D + "handle_server_key_exchange"
CERT = D + "handle_certificate::{closure#0}"
VERIFY = "transports::dtls::verify_server_key_exchange_signature"
SSH = D + "handle_client_hello::{closure#0}"


def _role_edges(body, is_client_value):
    """edges that contradict the assumption is_client == is_client_value"""
    def pred(term, meaning, *_):
        isc = (term[0] in ("arg", "var") and term[1] == "is_client") or (term[0] == "field" and term[2] == "is_client")
        if isc:
            return meaning is (not is_client_value)
        if term[0] == "un" and term[1] == "Not":
            t2 = term[2]
            isc2 = (t2[0] in ("arg", "var") and t2[1] == "is_client") or (t2[0] == "field" and t2[2] == "is_client")
            if isc2:
                return meaning is is_client_value
        return False
    return core.guard_edges(body, pred)


def r02_1(ctx):
    r = RuleResult("R02.1", "K3+K1", "Connected only after the peer's Finished verified under the derived keys")
    n = 0
    for body in ctx.facts.bodies(prefix="transports::dtls::"):
        if "::tests::" in body.name:
            continue
        sites = core.aggregates(body, lambda a: a.endswith("DtlsState"), "Connected")
        if not sites:
            continue
        if body.name != FIN:
            for bi, si, s in sites:
                r.violate(body.name, "agg:Connected", body.where(bi, si), "DtlsState::Connected constructed outside handle_finished")
            continue
        r.scope.append(body.name)

        def verified(term, meaning, *_):
            if term[0] == "call" and (term[1].endswith("::ne") or term[1].endswith("::eq")) and len(term[2]) == 2:
                a, b = term[2]
                ok = (mir.has_field(a, "verify_data") and mir.has_call(b, "calculate_verify_data")) or \
                     (mir.has_field(b, "verify_data") and mir.has_call(a, "calculate_verify_data"))
                if ok:
                    return meaning is (term[1].endswith("::eq"))
            return False

        def key(term):
            if term[0] == "discr" and (mir.field_path(term[1]) or "").endswith("session_keys"):
                return "session_keys"
            return None
        g = core.guard_edges(body, verified)
        res = core.k1_correlated(body, [s[0] for s in sites], g, key, kill_fields=("session_keys",))
        for bi, si, s in sites:
            n += 1
            if res[bi] is None:
                r.ok({"site": "%s DtlsState::Connected" % body.where(bi, si), "cut_by": "verify_data == calculate_verify_data(..) [session_keys Some on both tests]"})
            else:
                r.violate(body.name, "agg:Connected", body.where(bi, si),
                          "Connected reachable without the peer's Finished having been verified", core.describe_path(body, res[bi]))
        # the expected verify_data must be computed from the master secret of the same keys and the transcript
        for bi, t, p in core.calls_to(body, suffix("dtls::calculate_verify_data")):
            a = [body.term_operand(x) for x in t["a"]]
            if mir.has_field(a[0], "master_secret") and mir.has_field(a[0], "session_keys") and mir.has_field(a[2], "handshake_messages"):
                r.ok()
            else:
                r.violate(body.name, "call:calculate_verify_data", body.where(bi), "verify_data not computed from session_keys.master_secret over the transcript")
    r.need("Connected construction sites", n, 2)
    return r


def r02_2(ctx):
    r = RuleResult("R02.2", "K3+K1", "session keys derived only after the key exchange was verified (client role)")
    allowed = {SHD, CKE, "transports::dtls::HandshakeContext::new"}
    n = 0
    for body in ctx.facts.bodies(prefix="transports::dtls::"):
        if "::tests::" in body.name:
            continue
        ws = core.field_writes(body, lambda f: f in ("session_keys", "session_crypto"), deep=True)
        if not ws:
            continue
        if body.name not in allowed:
            for bi, si, s in ws:
                r.violate(body.name, "write:session_keys", body.where(bi, si), "new writer of the handshake session keys")
            continue
        if body.name.endswith("::new"):
            continue
        r.scope.append(body.name)

        def verified(term, meaning, *_):
            fp = mir.field_path(term)
            if fp and fp.endswith("server_key_exchange_verified") and meaning is True:
                return True
            if term[0] == "un" and term[1] == "Not" and (mir.field_path(term[2]) or "").endswith("server_key_exchange_verified") and meaning is False:
                return True
            return False
        g = core.guard_edges(body, verified) + _role_edges(body, True)
        for bi, si, s in ws:
            n += 1
            p = core.k1(body, [bi], g)[bi]
            fld = core._last_field(s["p"] if si is not None else s["dst"])
            if p is None:
                r.ok({"site": "%s write %s" % (body.where(bi, si), fld), "client role": "cut by server_key_exchange_verified"})
            else:
                r.violate(body.name, "write:%s" % fld, body.where(bi, si),
                          "client derives session keys without a verified ServerKeyExchange", core.describe_path(body, p))
    r.need("session key write sites", n, 4)
    return r


def r02_3(ctx):
    r = RuleResult("R02.3", "K3+K1", "key exchange marked verified only past the signature check with the peer certificate")
    n = 0
    for body in ctx.facts.bodies(prefix="transports::dtls::"):
        if "::tests::" in body.name:
            continue
        ws = [w for w in core.field_writes(body, lambda f: f == "server_key_exchange_verified", deep=True)]
        ws = [w for w in ws if w[1] is not None and body.term_rvalue(w[2]["rv"]) != ("const", 0, "false")]
        ws = [w for w in ws if not (body.term_rvalue(w[2]["rv"])[0] == "const" and body.term_rvalue(w[2]["rv"])[1] == 0)]
        if not ws:
            continue
        if body.name != SKE:
            for bi, si, s in ws:
                r.violate(body.name, "write:server_key_exchange_verified", body.where(bi, si), "flag set outside handle_server_key_exchange")
            continue
        r.scope.append(body.name)
        ske_terms = []

        def sigok(term, meaning, *_):
            if term[0] == "discr" and meaning in ("Ok", "Continue"):
                for c in mir.walk(term[1]):
                    if c[0] == "call" and c[1] == VERIFY and mir.has_field(c[2][0], "peer_certificate"):
                        ske_terms.append(c[2][3])
                        return True
            return False
        g = core.guard_edges(body, sigok)
        for bi, si, s in ws:
            n += 1
            if g and core.k1(body, [bi], g)[bi] is None:
                r.ok({"site": body.where(bi, si), "cut_by": "verify_server_key_exchange_signature(ctx.peer_certificate, ..) Ok"})
            else:
                r.violate(body.name, "write:server_key_exchange_verified", body.where(bi, si), "flag set without the signature check succeeding")
        # the public key adopted is the one of the verified message
        for bi, si, s in core.field_writes(body, lambda f: f == "peer_public_key", deep=True):
            v = body.term_rvalue(s["rv"]) if si is not None else None
            same = v is not None and ske_terms and any(mir.has(v, lambda x, k=k: x == k) for k in ske_terms)
            cut = g and core.k1(body, [bi], g)[bi] is None
            if same and cut:
                r.ok({"site": body.where(bi, si), "peer_public_key": "from the verified ServerKeyExchange"})
            else:
                r.violate(body.name, "write:peer_public_key", body.where(bi, si), "ECDH peer key adopted is not (only) the verified ServerKeyExchange's key")
    r.need("server_key_exchange_verified = true sites", n, 1)
    # ... and nothing else may replace it in the client role: the flag above is sticky, so a later write of
    # the ECDH share by another handler (the server-role ClientKeyExchange handler reached by a client)
    # would have the ServerHelloDone gate pass on a share nobody signed.
    others = 0
    for body in ctx.facts.bodies(prefix="transports::dtls::"):
        if "::tests::" in body.name or body.name == SKE:
            continue
        ws = core.field_writes(body, lambda f: f == "peer_public_key", deep=True)
        if not ws:
            continue
        r.scope.append(body.name)

        def server_role(term, meaning, *_):
            return term == ("arg", "is_client") and meaning is False
        g = core.guard_edges(body, server_role)
        for bi, si, s in ws:
            others += 1
            if g and core.k1(body, [bi], g)[bi] is None:
                r.ok({"site": body.where(bi, si), "peer_public_key": "written in the server role only (is_client == false edge)"})
            else:
                r.violate(body.name, "write:peer_public_key", body.where(bi, si),
                          "the ECDH peer share can be replaced outside handle_server_key_exchange on a path a client can take: "
                          "the verified flag stays set, keys are then derived from an unsigned share")
    r.need("peer_public_key writers outside handle_server_key_exchange", others, 1)
    return r


def r02_4(ctx):
    r = RuleResult("R02.4", "K3+K1", "peer certificate stored only after its SHA-256 matched the expected fingerprint")
    n = 0
    for body in ctx.facts.bodies(prefix="transports::dtls::"):
        if "::tests::" in body.name:
            continue
        allw = core.field_writes(body, lambda f: f == "peer_certificate", deep=True)
        for bi, si, st in [w for w in allw if w[1] is None]:
            # the field receives a call result (e.g. `certificates.pop()`): not the value whose digest was compared
            n += 1
            r.violate(body.name, "write:peer_certificate", body.where(bi),
                      "peer certificate stored from %s: not (provably) the certificate whose SHA-256 was compared with the expected fingerprint"
                      % mir.show(body.term_call(st), 80))
        ws = [w for w in allw if w[1] is not None]
        for bi, si, st in ws:
            v = body.term_rvalue(st["rv"])
            if not (v[0] == "agg" and v[2] in ("Some", "None")) and v[0] != "unknown" and not body.name.endswith("HandshakeContext::new"):
                n += 1
                r.violate(body.name, "write:peer_certificate", body.where(bi, si),
                          "peer certificate stored from %s: not (provably) the certificate whose SHA-256 was compared with the expected fingerprint"
                          % mir.show(v, 80))
        ws = [w for w in ws if (body.term_rvalue(w[2]["rv"])[0] == "agg" and body.term_rvalue(w[2]["rv"])[2] == "Some")
              or body.term_rvalue(w[2]["rv"])[0] == "unknown"]
        if not ws:
            continue
        if body.name != CERT:
            for bi, si, s in ws:
                r.violate(body.name, "write:peer_certificate", body.where(bi, si), "peer certificate stored outside handle_certificate")
            continue
        r.scope.append(body.name)
        for bi, si, s in ws:
            n += 1
            rvt = body.term_rvalue(s["rv"])
            if rvt[0] == "unknown":
                r.violate(body.name, "mutborrow:peer_certificate", body.where(bi, si),
                          "peer_certificate handed out mutably: the stored certificate can be replaced without the digest check")
                continue
            stored = rvt[3][0]

            def match(term, meaning, *_, stored=stored):
                if term[0] == "discr" and (mir.field_path(term[1]) or "").endswith("expected_remote_fingerprint") and meaning == "None":
                    return True
                if term[0] == "call" and (term[1].endswith("::ne") or term[1].endswith("::eq")) and len(term[2]) == 2:
                    a, b = term[2]
                    for x, y in ((a, b), (b, a)):
                        fp = [c for c in mir.walk(x) if c[0] == "call" and c[1].endswith("dtls::fingerprint_from_der")]
                        if fp and fp[0][2][0] == stored and mir.has_field(y, "expected_remote_fingerprint"):
                            return meaning is term[1].endswith("::eq")
                return False
            g = core.guard_edges(body, match)
            if len(g) >= 2 and core.k1(body, [bi], g)[bi] is None:
                r.ok({"site": body.where(bi, si), "cut_by": "fingerprint_from_der(leaf) == expected (leaf is the certificate stored)"})
            else:
                r.violate(body.name, "write:peer_certificate", body.where(bi, si),
                          "certificate accepted without its digest matching the expected fingerprint")
    r.need("peer_certificate = Some sites", n, 1)
    return r


def _append_sequence(b, names):
    """labels of the values appended (Vec::push / extend_from_slice) in topological order"""
    rank = core.topo_rank(b)
    out = []
    for bi, t, p in b.calls():
        if bi in b.cleanup or bi not in rank or not p:
            continue
        if not (p.endswith("Vec::<T, A>::push") or p.endswith("::extend_from_slice")):
            continue
        if len(t["a"]) < 2:
            continue
        v = b.term_operand(t["a"][1])
        lab = None
        for k, nm in names.items():
            if mir.has(v, lambda x: (x[0] == "arg" and x[1] == nm) or (x[0] == "field" and x[2] == nm) or (x[0] == "var" and x[1] == nm)):
                lab = k
        if lab == "public_key" and p.endswith("::push"):
            lab = "len"
        if lab is None and p.endswith("::push"):
            iv = mir.int_value(v)
            if iv == 3:
                lab = "curve_type"
            elif mir.has(v, lambda x: x[0] == "var" and x[1] == "pk_len") or mir.has(v, lambda x: x[0] == "call" and x[1].endswith("::len")):
                lab = "len"
        if lab is None and mir.has(v, lambda x: x[0] == "const" and x[1] == 23) and mir.has(v, lambda x: x[0] == "call" and x[1].endswith("to_be_bytes")):
            lab = "named_curve"
        if lab:
            out.append((rank[bi], lab, b.term_operand(t["a"][0])))
    out.sort(key=lambda x: x[0])
    pk = [x for x in out if x[1] == "public_key"]
    if pk:
        # only what is appended to the same buffer as the public key
        out = [x for x in out if x[2] == pk[-1][2]]
    return [x[1] for x in out]


def r02_5(ctx):
    r = RuleResult("R02.5", "K4", "what the verifier verifies; what the fingerprint hashes")
    v = ctx.body(VERIFY)
    r.scope.append(VERIFY)
    if core.ok_return_blocks(v):
        r.violate(VERIFY, "return:Ok", v.where(core.ok_return_blocks(v)[0]), "verifier has an unconditional Ok return")
    else:
        r.ok({"verifier": "no literal Ok(..) return"})
    # every definition of _0 that is not an Err must be the verify() result
    ret_terms = v.var_def_terms(0)
    good = 0
    for t in ret_terms:
        if t[0] == "agg" and t[2] == "Err":
            continue
        if t[0] == "call" and "FromResidual" in t[1]:
            continue
        vc = [c for c in mir.walk(t) if c[0] == "call" and c[1].endswith("Verifier::verify") or (c[0] == "call" and c[1].endswith("::verify") and "signature" in c[1])]
        if not vc:
            r.violate(VERIFY, "return:value", v.where(0), "a non-error return value does not come from Verifier::verify: %s" % mir.show(t, 160))
            continue
        c = vc[0]
        key_ok = mir.has(c[2][0], lambda x: x[0] == "call" and x[1].endswith("dtls::certificate_public_key") and x[2][0] == ("arg", "certificate_der"))
        msg_terms = core.expand_vars(v, c[2][1], depth=2)
        need = {"client_random": False, "server_random": False, "public_key": False, "named_curve": False}
        for mt in msg_terms:
            for x in mir.walk(mt):
                if x[0] == "arg" and x[1] in need:
                    need[x[1]] = True
                if x[0] == "field" and x[2] in need:
                    need[x[2]] = True
        sig_ok = mir.has(c[2][2], lambda x: x[0] == "field" and x[2] == "signature")
        if key_ok and all(need.values()) and sig_ok:
            good += 1
            r.ok({"verify": "ECDSA verify(key=certificate_public_key(certificate_der), msg=client_random||server_random||params||public_key, sig=ske.signature)"})
        else:
            r.violate(VERIFY, "call:verify", v.where(0), "signature check does not bind certificate key / randoms / ECDH params: key_ok=%s covered=%s sig=%s" % (key_ok, need, sig_ok))
    if good == 0 and not r.violations:
        raise core.CheckerError("R02.5: could not locate Verifier::verify in the verifier's return value")
    # the signed bytes, in order (RFC 4492 5.4): client_random, server_random, curve_type, named_curve, point length, point.
    # Verifier and signer are siblings: both must append this sequence.
    want = ["client_random", "server_random", "curve_type", "named_curve", "len", "public_key"]
    for fn, names in ((VERIFY, {"client_random": "client_random", "server_random": "server_random", "curve_type": "curve_type", "named_curve": "named_curve", "public_key": "public_key"}),
                      (SSH, {"client_random": "client_random", "server_random": "server_random", "public_key": "local_public_key_bytes"})):
        fb = ctx.body(fn)
        seq = _append_sequence(fb, names)
        # only the stretch that ends in the public key and starts at the nearest client_random before it
        if "public_key" in seq and "client_random" in seq:
            e = seq.index("public_key")
            st = e
            while st > 0 and seq[st - 1] != "public_key":
                st -= 1
            got = seq[st:e + 1]
            # runs of the same label are impossible in the correct form; keep them so that a doubled random is seen
        elif fn != VERIFY:
            raise core.CheckerError("R02.5: cannot find the ServerKeyExchange signature input in %s (appended: %s)" % (fn, seq))
        else:
            got = seq
        if got == want:
            r.ok({fn.split("::")[-1].replace("{closure#0}", "").strip(":"): "signed bytes = " + " || ".join(want)})
        else:
            r.violate(fn, "signed-params:order", fb.where(0), "the ServerKeyExchange signature input is assembled as %s, RFC 4492 5.4 requires %s" % (got, want))
    f = ctx.body("transports::dtls::fingerprint_from_der")
    sha = [1 for bi, t, p in f.calls() if p and ("Sha256" in p or "sha2" in p) or (p and p.endswith("Digest::new") and "Sha256" in mir.callee_generic(t["f"]) + str(t["f"].get("fnfull", "")))]
    upd = [1 for bi, t, p in core.calls_to(f, suffix("Digest::update", "Update::update")) if any(f.term_operand(a) == ("arg", "certificate_der") for a in t["a"])]
    full = [t["f"].get("fnfull", "") for bi, t, p in f.calls()]
    if any("Sha256" in x or "sha2::" in x for x in full) and upd:
        r.ok({"fingerprint_from_der": "SHA-256 over the certificate DER"})
    else:
        r.violate(f.name, "hash", f.where(0), "fingerprint is not SHA-256 over the whole certificate")
    return r


def r02_6(ctx):
    r = RuleResult("R02.6", "K4+K1", "expected fingerprint is the one promised by the remote SDP")
    sd = ctx.body("peer_connection::PeerConnection::start_dtls::{closure#0}")
    calls = core.calls_to(sd, suffix("dtls::DtlsTransport::new"))
    r.need("DtlsTransport::new call in start_dtls", len(calls), 1)
    for bi, t, p in calls:
        a = sd.term_operand(t["a"][4])
        if mir.has_field(a, "remote_dtls_fingerprint"):
            r.ok({"site": sd.where(bi), "expected_remote_fingerprint": mir.show(a, 120)})
        else:
            r.violate(sd.name, "arg:expected_remote_fingerprint", sd.where(bi), "DTLS transport not given the stored remote fingerprint: %s" % mir.show(a, 120))
    # all other constructions of DtlsTransport in non-test code
    for b in ctx.facts.all_bodies():
        if b.name == sd.name or "::tests::" in b.name or "::security_tests::" in b.name or "::interop_tests::" in b.name:
            continue
        for bi, t, p in core.calls_to(b, suffix("dtls::DtlsTransport::new")):
            r.violate(b.name, "call:DtlsTransport::new", b.where(bi), "DtlsTransport constructed outside start_dtls")
    # DtlsTransport::new -> DtlsInner.expected_remote_fingerprint -> HandshakeContext
    nb = ctx.body("transports::dtls::DtlsTransport::new::{closure#0}")
    ok = False
    for bi, si, s in core.aggregates(nb, lambda a: a.endswith("dtls::DtlsInner")):
        rv = s["rv"]
        i = rv["fields"].index("expected_remote_fingerprint")
        if mir.field_path(nb.term_operand(rv["ops"][i])) in ("expected_remote_fingerprint",):
            ok = True
    hb = ctx.body(D + "handshake::{closure#0}")
    ok2 = False
    for bi, t, p in core.calls_to(hb, suffix("dtls::HandshakeContext::new")):
        if (mir.field_path(hb.term_operand(t["a"][0])) or "").endswith("self.expected_remote_fingerprint"):
            ok2 = True
    hn = ctx.body("transports::dtls::HandshakeContext::new")
    ok3 = False
    for bi, si, s in core.aggregates(hn, lambda a: a.endswith("dtls::HandshakeContext")):
        rv = s["rv"]
        i = rv["fields"].index("expected_remote_fingerprint")
        if hn.term_operand(rv["ops"][i])[0] == "arg":
            ok3 = True
    if ok and ok2 and ok3:
        r.ok({"flow": "DtlsTransport::new arg -> DtlsInner.expected_remote_fingerprint -> HandshakeContext.expected_remote_fingerprint"})
    else:
        r.violate("transports::dtls", "flow:expected_remote_fingerprint", nb.where(0),
                  "expected fingerprint does not flow into the handshake context (%s,%s,%s)" % (ok, ok2, ok3))
    # set_remote_description
    sr = ctx.body("peer_connection::PeerConnection::set_remote_description::{closure#0}")
    r.scope.append(sr.name)
    stores = core.lock_write_sites(sr, "remote_dtls_fingerprint", methods=("::lock",))
    r.need("remote_dtls_fingerprint stores", len(stores), 1)
    fpl = [i for i, l in enumerate(sr.locals) if l.get("n") == "remote_dtls_fingerprint" and l["ty"].startswith("std::option::Option<std::string::String>")]
    if not fpl:
        raise core.CheckerError("R02.6: local remote_dtls_fingerprint not found in set_remote_description")
    for bi, si, s, val in stores:
        if val[0] == "var" and val[2] in fpl:
            r.ok({"site": sr.where(bi, si), "stored": "the fingerprint extracted from this SDP"})
        else:
            r.violate(sr.name, "store:remote_dtls_fingerprint", sr.where(bi, si), "stored fingerprint is not the one extracted from the SDP: %s" % mir.show(val, 100))

        def unchanged(term, meaning, *_):
            if term[0] == "call" and term[1].endswith("::ne") and mir.has_field(term, "remote_dtls_fingerprint") and meaning is False:
                return True
            if term[0] == "var" and term[1] == "dtls_started" and meaning is False:
                return True
            if term[0] == "call" and term[1].endswith("::is_some") and mir.has_field(term, "dtls_transport") and meaning is False:
                return True
            return False
        g = core.guard_edges(sr, unchanged)
        if len(g) >= 2 and core.k1(sr, [bi], g)[bi] is None:
            r.ok({"site": sr.where(bi, si), "cut_by": "!dtls_started || stored == new"})
        else:
            r.violate(sr.name, "store:remote_dtls_fingerprint:after-start", sr.where(bi, si), "fingerprint can be replaced after DTLS started")
    # None only outside WebRTC mode; Some only for sha-256
    for bi, si, s in sr.assigns():
        if s["p"]["l"] in fpl and "p" not in s["p"]:
            v = sr.term_rvalue(s["rv"])
            if v[0] == "agg" and v[2] == "None":
                def webrtc(term, meaning, *_):
                    if term[0] == "call" and "PartialEq" in term[1] and term[1].endswith("::eq") and mir.has_field(term, "transport_mode") \
                            and mir.has(term, lambda x: x[0] == "agg" and x[2] == "WebRtc"):
                        return meaning is False
                    return False
                g = core.guard_edges(sr, webrtc)
                if g and core.k1(sr, [bi], g)[bi] is None:
                    r.ok({"site": sr.where(bi, si), "fingerprint None only when": "transport_mode != WebRtc"})
                else:
                    r.violate(sr.name, "def:remote_dtls_fingerprint=None", sr.where(bi, si), "WebRTC mode can proceed without a remote fingerprint")
            elif v[0] == "agg" and v[2] == "Some":
                def sha256(term, meaning, *_):
                    return term[0] == "call" and term[1].endswith("::eq") and mir.has_field(term, "algorithm") and \
                        mir.has(term, lambda x: x[0] == "const" and x[2] and "sha-256" in str(x[2])) and meaning is True
                g = core.guard_edges(sr, sha256)
                if g and core.k1(sr, [bi], g)[bi] is None and mir.has_call(v, "SessionDescription::dtls_fingerprint"):
                    r.ok({"site": sr.where(bi, si), "fingerprint Some only when": "algorithm == sha-256, value from desc.dtls_fingerprint()"})
                else:
                    r.violate(sr.name, "def:remote_dtls_fingerprint=Some", sr.where(bi, si), "fingerprint accepted without algorithm == sha-256")
    return r


def r02_7(ctx):
    r = RuleResult("R02.7", "K1", "keying material exported only when Connected")
    b = ctx.body("transports::dtls::DtlsTransport::export_keying_material")
    r.scope.append(b.name)

    def connected(term, meaning, *_):
        return term[0] == "discr" and meaning == "Connected"
    g = core.guard_edges(b, connected)
    sites = [bi for bi, t, p in core.calls_to(b, suffix("dtls::prf_sha256"))] + core.ok_return_blocks(b)
    r.need("material release sites", len(sites), 1)
    for bi in sites:
        if g and core.k1(b, [bi], g)[bi] is None:
            r.ok({"site": b.where(bi), "cut_by": "DtlsState::Connected"})
        else:
            r.violate(b.name, "release", b.where(bi), "keying material released while not Connected")
    return r


def r02_8(ctx):
    r = RuleResult("R02.8", "K1", "server role: keys/Connected only after the client's certificate was checked")
    # any edge that tests the peer certificate / a client signature / the expected fingerprint
    def cert_checked(term, meaning, *_):
        return mir.has(term, lambda x: (x[0] == "field" and x[2] in ("peer_certificate", "expected_remote_fingerprint", "client_certificate_verified"))
                       or (x[0] == "call" and ("verify" in x[1].split("::")[-1] and "verify_data" not in x[1])))
    for name in (CKE, SHD):
        body = ctx.body(name)
        r.scope.append(name)
        g = core.guard_edges(body, cert_checked) + _role_edges(body, False)
        for bi, si, s in core.field_writes(body, lambda f: f == "session_keys", deep=True):
            p = core.k1(body, [bi], g)[bi]
            if p is None:
                r.ok({"site": body.where(bi, si)})
            else:
                r.violate(name, "write:session_keys(server role)", body.where(bi, si),
                          "server derives session keys without ever checking a client certificate against the expected fingerprint "
                          "(no CertificateRequest / CertificateVerify handling exists)")
    return r


def r02_9(ctx):
    """'no application data is accepted' from an endpoint that has not proved possession of the fingerprinted
    certificate: application data is handed to the upper layer only from a record that was authenticated under the
    negotiated keys (never from an epoch-0 / plaintext record, whatever the connection's own bookkeeping says).
    This is rule R03.1 of C03 (same sites, same guards), claimed here for the clause of C02 it decides."""
    r = RuleResult("R02.9", "K1", "application data is accepted only from records authenticated under the negotiated keys")
    from rules import c03
    rr = c03.r03_1(ctx)
    r.scope = rr.scope
    r.obligations, r.discharged = rr.obligations, rr.discharged
    r.sites, r.floor = rr.sites, rr.floor
    r.samples = rr.samples
    for v in rr.violations:
        r.violate(v.fn, v.site, v.where, v.msg, v.path)
        r.obligations -= 1
    return r


def r02_10(ctx):
    """'A DTLS transport that was given an expected remote fingerprint ...': the transport is given what
    PeerConnection::start_dtls reads from the cached `remote_dtls_fingerprint`, and that cache is written by
    set_remote_description. Several remote descriptions can be accepted before DTLS starts (a provisional answer from one
    callee and the final answer from another; a second offer from a peer with a new certificate): the description in
    force names the identity, so EVERY accepted description must refresh the cache - not just the first one, and not
    only while some other piece of state (the DTLS role) is still undecided. Decided: in set_remote_description the
    cache write is not conditional on the DTLS role, and the function's final Ok return cannot be reached without it."""
    r = RuleResult("R02.10", "K4", "every accepted remote description refreshes the fingerprint the DTLS transport will be given")
    fn = "peer_connection::PeerConnection::set_remote_description::{closure#0}"
    b = ctx.body(fn)
    r.scope.append(fn)
    writes = [x[0] for x in core.lock_write_sites(b, "remote_dtls_fingerprint")]
    r.need("writes of the cached remote fingerprint in set_remote_description", len(writes), 1)
    oks = core.ok_return_blocks(b)
    covered = [o for o in oks if core.must_pass(b, o, writes)]
    if covered:
        r.ok({"ok_return": b.where(covered[-1]), "passes": "the fingerprint cache write"})
    else:
        r.violate(fn, "fp-cache:skippable", b.where(writes[0]),
                  "set_remote_description can accept a description (return Ok) without refreshing the cached remote fingerprint: the DTLS "
                  "transport is then given the fingerprint of an EARLIER description and connects to the holder of the superseded certificate")
    for sb in range(len(b.blocks)):
        if sb in b.cleanup or b.blocks[sb]["t"]["k"] != "switch":
            continue
        term, outs = b.switch_info(sb)
        if not mir.has_field(term, "dtls_role"):
            continue
        for tgt, _lab, meaning in outs:
            # with this edge removed every cache write must still be reachable: the write does not depend on the role
            for w in writes:
                if b.path_to([0], w, cut_edges={(sb, tgt)}) is None:
                    r.violate(fn, "fp-cache:role-conditional", b.where(sb),
                              "the cached remote fingerprint is written only on one side of a test of the DTLS role: a later description "
                              "(role already decided) no longer updates the identity the DTLS transport will check")
                    break
            else:
                continue
            break
        else:
            r.ok({"site": b.where(sb), "role test": "cache write reachable on every edge"})
    return r


def run(ctx):
    return [r02_1(ctx), r02_2(ctx), r02_3(ctx), r02_4(ctx), r02_5(ctx), r02_6(ctx), r02_7(ctx), r02_8(ctx), r02_9(ctx), r02_10(ctx)]
