"""Thorough tier: (1) the facts were rebuilt from scratch (Ctx(force=True)); (2) the rules are re-run on the
`simulator` feature configuration; (3) sensitivity self-check: every stored single-edit variant of this property is
applied to a scratch copy of the repository, the driver is re-run on it and the named rule must report a violation.
A rule that stays silent on its own broken variant is a CHECKER-ERROR (exit 2); a variant whose edit no longer
applies is recorded as skipped."""
import json
import os
import shutil
import tempfile

from . import core, factsrun, mir

VERIF = factsrun.VERIF


def _scratch(repo):
    d = tempfile.mkdtemp(prefix="vself.")
    shutil.copytree(os.path.join(repo, "src"), os.path.join(d, "src"))
    for f in ("Cargo.toml", "Cargo.lock"):
        shutil.copy(os.path.join(repo, f), os.path.join(d, f))
    return d


def run(ctx, mod, results):
    rc = 0
    prop = ctx.prop
    notes = core.RuleResult("THOROUGH", "meta", "thorough tier: simulator configuration + sensitivity self-check")
    # ---- (2) simulator configuration
    try:
        sim = core.Ctx(prop, "thorough", config="simulator", force=False)
        res2 = mod.run(sim)
        known = set()
        for r in results:
            for v in r.violations:
                known.add(v.key)
        extra = 0
        for r in res2:
            for v in r.violations:
                if v.key not in known:
                    extra += 1
                    v.msg = "[features=simulator] " + v.msg
                    notes.violations.append(v)
                    notes.obligations += 1
            notes.obligations += r.obligations
            notes.discharged += r.discharged
        notes.notes.append("simulator configuration: %d rules, %d obligations, %d additional violations" % (
            len(res2), sum(r.obligations for r in res2), extra))
    except factsrun.CheckerError as e:
        raise
    # ---- (3) self-check variants
    vp = os.path.join(VERIF, "selfcheck", "variants.json")
    variants = [v for v in json.load(open(vp)) if v["property"] == prop] if os.path.exists(vp) else []
    known, _ = core.load_known()
    known = known.get(prop, {})
    fired = skipped = 0
    repo = factsrun.REPO
    for v in variants:
        src = os.path.join(repo, v["file"])
        text = open(src).read() if os.path.exists(src) else ""
        if text.count(v["find"]) != 1:
            skipped += 1
            notes.notes.append("variant %s skipped: edit no longer applies (%d occurrences of its anchor text)" % (v["id"], text.count(v["find"])))
            continue
        d = _scratch(repo)
        try:
            p = os.path.join(d, v["file"])
            open(p, "w").write(text.replace(v["find"], v["replace"], 1))
            old_repo = factsrun.REPO
            factsrun.REPO = d
            try:
                vctx = core.Ctx(prop, "thorough", config="default", force=False)
                try:
                    vres = mod.run(vctx)
                    hits = [x for r in vres for x in r.violations if x.key not in known and
                            (x.rule == v["expect_rule"] or x.rule.startswith(v["expect_rule"]))]
                except factsrun.CheckerError as e:
                    hits = []
                    notes.notes.append("variant %s: checker error instead of a violation: %s" % (v["id"], str(e)[:160]))
            finally:
                factsrun.REPO = old_repo
            if hits:
                fired += 1
                notes.ok({"variant": v["id"], "edit": v.get("what", ""), "reported": hits[0].key, "where": hits[0].where})
            else:
                notes.obligations += 1
                print("CHECKER-ERROR %s: self-check variant %s (%s) was NOT detected by rule %s" % (prop, v["id"], v.get("what", ""), v["expect_rule"]))
                rc = 2
        finally:
            shutil.rmtree(d, ignore_errors=True)
    notes.notes.append("self-check variants: %d defined, %d detected, %d skipped" % (len(variants), fired, skipped))
    results.append(notes)
    return rc
