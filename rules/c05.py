"""C05 — SRTP rejects forged packets; a rejection never disturbs receiver state."""
from engine import core, mir
from engine.core import RuleResult, suffix

EXPLANATION = (
    "Static analysis of rustc MIR. R05.1: in SrtpContext::unprotect / unprotect_rtcp every write to the "
    "replay/rollover state (rollover_counter, last_sequence, rtcp_index; directly or via SrtpContext::update) "
    "is cut by an authentication-success edge (constant_time_eq(..) true, or the Ok/Continue edge of an AEAD "
    "decrypt). R05.2: every Ok return of the two functions is cut by such an edge (one reviewed exception: "
    "the None arm of the HMAC prototype, unreachable because the constructor builds a prototype whenever the "
    "profile's auth key length is non-zero - that constructor/table link is checked too). R05.3: in "
    "RtpTransport::receive the Err arms of unprotect_* reach no delivery site (via C14/R14.2 guard set). "
    "R05.4: the per-SSRC receive-context table is mutated only by entry()/retain in the SrtpSession "
    "unprotect wrappers; table mutation before authentication is reported. Decides where state may change, "
    "not that the MAC detects every bit flip.")
ASSUMPTIONS = [
    "constant_time_eq and the aes-gcm/hmac crates implement what their names say",
    "auth_scratch and last_used are not cryptographic receiver state",
]
TRUSTED_BASE = ["rustc MIR construction", "engine CFG/terms", "rule tables in rules/c05.py"]

STATE_FIELDS = ("rollover_counter", "last_sequence", "rtcp_index")
DECRYPT = ("::decrypt", "::decrypt_in_place_detached", "::decrypt_in_place")


def auth_guard(term, meaning, body, bi, tgt):
    if term[0] == "call" and term[1].endswith("srtp::constant_time_eq") and meaning is True:
        return True
    if term[0] == "un" and term[1] == "Not" and term[2][0] == "call" and term[2][1].endswith("srtp::constant_time_eq") and meaning is False:
        return True
    if term[0] == "discr" and meaning in ("Continue", "Ok"):
        if mir.has(term[1], lambda x: x[0] == "call" and any(x[1].endswith(d) for d in DECRYPT)):
            return True
    return False


def guard_with_exception(proto):
    """authentication edges plus reviewed exception E05.a: the None arm of
    `if let Some(proto) = self.<proto>` in the HMAC branch (the constructor builds a prototype whenever
    the profile has an auth key; checked by R05.2's constructor/table obligations)"""
    def guard(term, meaning, b, bi, tgt):
        if auth_guard(term, meaning, b, bi, tgt):
            return True
        if term[0] == "discr" and mir.field_path(term[1]) == "self." + proto and meaning == "None":
            return True
        return False
    return guard


PROTO = {"srtp::SrtpContext::unprotect": "rtp_auth_prototype", "srtp::SrtpContext::unprotect_rtcp": "rtcp_auth_prototype"}


def _state_sites(ctx, body):
    """every site that may mutate the replay/rollover fields of *self: direct writes, `&mut self.<field>`
    borrows, and calls handing `&mut self` to a callee that (transitively) does either"""
    return core.state_mut_sites(ctx.facts, body, STATE_FIELDS)


def r05_1(ctx):
    r = RuleResult("R05.1", "K1", "replay/rollover state written only after authentication succeeded")
    total = 0
    for fn in ("srtp::SrtpContext::unprotect", "srtp::SrtpContext::unprotect_rtcp"):
        body = ctx.body(fn)
        r.scope.append(fn)
        g = core.guard_edges(body, guard_with_exception(PROTO[fn]))
        for bi, site in _state_sites(ctx, body):
            total += 1
            p = core.k1(body, [bi], g)[bi]
            if p is None:
                r.ok({"site": "%s %s" % (body.where(bi), site), "function": fn})
            else:
                r.violate(fn, site, body.where(bi), "receiver state written before the packet is authenticated",
                          core.describe_path(body, p))
    r.need("state write sites in unprotect/unprotect_rtcp", total, 3)
    # SrtpContext::update itself must be the only other writer on the receive side
    writers = set()
    for body in ctx.facts.bodies(prefix="srtp::"):
        if core.field_writes(body, lambda n: n in STATE_FIELDS):
            writers.add(body.name)
    allowed = {"srtp::SrtpContext::unprotect", "srtp::SrtpContext::unprotect_rtcp", "srtp::SrtpContext::update",
               "srtp::SrtpContext::protect_rtcp", "srtp::SrtpContext::protect", "srtp::SrtpContext::new"}
    for w in sorted(writers - allowed):
        r.violate(w, "write:state", ctx.body(w).where(0), "new writer of SRTP replay/rollover state")
    for w in sorted(writers & allowed):
        r.ok()
    return r


def r05_2(ctx):
    r = RuleResult("R05.2", "K1", "no Ok return without authentication")
    total = 0
    for fn, proto in (("srtp::SrtpContext::unprotect", "rtp_auth_prototype"),
                      ("srtp::SrtpContext::unprotect_rtcp", "rtcp_auth_prototype")):
        body = ctx.body(fn)
        r.scope.append(fn)
        g = core.guard_edges(body, guard_with_exception(proto))
        oks = core.ok_return_blocks(body)
        for bi in oks:
            total += 1
            p = core.k1(body, [bi], g)[bi]
            if p is None:
                r.ok({"site": "%s Ok return" % body.where(bi), "function": fn})
            else:
                r.violate(fn, "return:Ok", body.where(bi), "Ok returned on a path with no authentication edge",
                          core.describe_path(body, p))
    r.need("Ok returns", total, 3)
    # support for exception E05.a: constructor invariant
    new = ctx.body("srtp::SrtpContext::new")
    for proto, keys in (("rtp_auth_prototype", "rtp_keys"), ("rtcp_auth_prototype", "rtcp_keys")):
        # the aggregate Self{..} operand for the field must be a local that is None only on the is_empty(auth_key) edge
        none_sites = []
        for bi, si, s in new.assigns():
            if new.locals[s["p"]["l"]].get("n") == proto and "p" not in s["p"]:
                rv = s["rv"]
                if rv["r"] == "agg" and rv.get("variant") == "None":
                    none_sites.append(bi)
        if not none_sites:
            raise core.CheckerError("R05.2: cannot find `%s = None` in SrtpContext::new" % proto)

        def empty_guard(term, meaning, b, bi, tgt, keys=keys):
            if term[0] == "un" and term[1] == "Not" and term[2][0] == "call" and term[2][1].endswith("::is_empty"):
                inner = term[2][2][0]
                if mir.has_field(inner, "auth_key") and meaning is False:
                    return True
            if term[0] == "call" and term[1].endswith("::is_empty") and mir.has_field(term[2][0], "auth_key") and meaning is True:
                return True
            return False
        g = core.guard_edges(new, empty_guard)
        for bi in none_sites:
            p = core.k1(new, [bi], g)[bi]
            if p is None:
                r.ok({"site": new.where(bi), "invariant": "%s is None only when the derived auth key is empty" % proto})
            else:
                r.violate("srtp::SrtpContext::new", "none:%s" % proto, new.where(bi),
                          "HMAC prototype may be None although an auth key exists (exception E05.a no longer justified)")
    tbl = core.match_table(ctx.body("srtp::SrtpProfile::auth_key_len"))
    zero = sorted(str(k) for k, v in tbl.items() if v[0] == "const" and v[1] == 0)
    if zero == ["AeadAes128Gcm"] and len(tbl) >= 4:
        r.ok({"table": {str(k): mir.show(v) for k, v in tbl.items()}})
    else:
        r.violate("srtp::SrtpProfile::auth_key_len", "table", ctx.body("srtp::SrtpProfile::auth_key_len").where(0),
                  "auth key length is zero for a non-AEAD profile: %s" % {str(k): mir.show(v) for k, v in tbl.items()})
    return r


def r05_3(ctx):
    r = RuleResult("R05.3", "K1", "transport drops packets that fail unprotect")
    from rules import c14
    rr = c14.r14_2(ctx)
    r.scope = rr.scope
    r.obligations, r.discharged = rr.obligations, rr.discharged
    r.sites, r.floor = rr.sites, rr.floor
    r.samples = rr.samples
    for v in rr.violations:
        r.violate(v.fn, v.site, v.where, v.msg, v.path)
        r.obligations -= 1
    return r


def _table_mutators(ctx):
    """SrtpSession functions that, directly or through other session functions, evict from or insert into the
    per-SSRC receive table"""
    GROWM = ("::insert", "::or_insert", "::or_insert_with", "::retain", "::remove", "::clear")
    direct = set()
    calls = {}
    for body in ctx.facts.bodies(prefix="srtp::SrtpSession::"):
        base = body.name.split("::{closure")[0]
        for bi, t, p in body.calls():
            if not p:
                continue
            calls.setdefault(base, set()).add(p)
            if any(p.endswith(m) for m in GROWM) and t["a"] and mir.has_field(body.term_operand(t["a"][0]), "rx_contexts"):
                direct.add(base)
    out = set(direct)
    changed = True
    while changed:
        changed = False
        for f, cs in calls.items():
            if f not in out and cs & out:
                out.add(f)
                changed = True
    return out


def r05_4(ctx):
    r = RuleResult("R05.4", "K3+K1", "per-SSRC receive-context table: who may mutate, and only after authentication")
    n = 0
    MUT = ("::insert", "::entry", "::retain", "::remove", "::clear", "::drain", "::get_mut", "::or_insert_with", "::or_insert")
    for body in ctx.facts.bodies(prefix="srtp::"):
        for bi, t, path in body.calls():
            if not path or not t["a"]:
                continue
            a0 = body.term_operand(t["a"][0])
            if mir.field_path(a0) != "self.rx_contexts":
                continue
            if not any(path.endswith(m) for m in MUT):
                continue
            n += 1
            base = body.name.split("::{closure")[0]
            if base in ("srtp::SrtpSession::unprotect_rtp", "srtp::SrtpSession::unprotect_rtcp", "srtp::SrtpSession::evict_stale_rx"):
                r.ok({"site": "%s %s" % (body.where(bi), path.split("::")[-1])})
            else:
                r.violate(body.name, "mutate:rx_contexts", body.where(bi), "receive-context table mutated outside the unprotect wrappers")
    r.need("rx_contexts mutation sites", n, 3)
    # growth/eviction of the table only after the triggering packet authenticated
    GROW = ("::insert", "::or_insert", "::or_insert_with", "::retain", "::remove", "::clear")
    for fn in ("srtp::SrtpSession::unprotect_rtp", "srtp::SrtpSession::unprotect_rtcp"):
        body = ctx.body(fn)

        def authed(term, meaning, *_):
            return term[0] == "discr" and meaning in ("Continue", "Ok") and mir.has(
                term[1], lambda x: x[0] == "call" and x[1] in ("srtp::SrtpContext::unprotect", "srtp::SrtpContext::unprotect_rtcp"))
        g = core.guard_edges(body, authed)
        # functions of the session that (transitively) evict or grow the receive table
        mutators = _table_mutators(ctx)
        sites = [(bi, "call:%s" % p.split("::")[-1]) for bi, t, p in body.calls()
                 if p and p in mutators and p != fn]
        for bi, t, path in body.calls():
            if path and any(path.endswith(m) for m in GROW) and t["a"]:
                a0 = body.term_operand(t["a"][0])
                if mir.has_field(a0, "rx_contexts"):
                    sites.append((bi, "call:%s" % path.split("::")[-1]))
        if not sites:
            raise core.CheckerError("R05.4: no table growth/eviction site found in %s" % fn)
        for bi, site in sites:
            p_ = core.k1(body, [bi], g)[bi]
            if p_ is None:
                r.ok({"site": "%s %s" % (body.where(bi), site), "cut_by": "SrtpContext::unprotect* Ok"})
            else:
                r.violate(fn, site, body.where(bi),
                          "per-SSRC table grown/evicted before the triggering packet is authenticated "
                          "(a burst of forged SSRCs can evict the rollover state of a quiet genuine stream)",
                          core.describe_path(body, p_))
    return r


def r05_5(ctx):
    """AEAD SRTCP (RFC 7714 9.x): the tag must cover every received bit - the 8-byte header and the trailing
    index word *as received* (E bit included) as associated data, everything between them as ciphertext. If
    the receiver rebuilds the index word (masking or forcing a bit) that bit can be flipped by anyone."""
    r = RuleResult("R05.5", "K4/dataflow", "SRTCP AEAD authenticates the received header, body and index word unmodified")
    fn = "srtp::SrtpContext::unprotect_rtcp"
    b = ctx.body(fn)
    r.scope.append(fn)
    dec = [(bi, t) for bi, t, p in b.calls() if p and p.split("::")[-1] in ("decrypt", "decrypt_in_place_detached", "decrypt_in_place")]
    r.need("AEAD decrypt calls in unprotect_rtcp", len(dec), 1)
    for bi, t in dec:
        flows = []
        for a in t["a"]:
            flows += core.expand_vars(b, b.term_operand(a), 3)
        subs = [x for f in flows for x in mir.walk(f)]

        def is_pkt_slice(x, kind):
            return x[0] == "call" and "::index" in x[1] and len(x[2]) == 2 and x[2][0] == ("arg", "packet") and \
                x[2][1][0] == "agg" and x[2][1][1].endswith(kind)
        header = any(is_pkt_slice(x, "RangeTo") and mir.int_value(x[2][1][3][0]) == 8 for x in subs)
        body = any(is_pkt_slice(x, "Range") and mir.int_value(x[2][1][3][0]) == 8 for x in subs)
        raw_word = any(is_pkt_slice(x, "RangeFrom") and x in flows for x in subs)
        word = raw_word or any(x[0] == "call" and x[1].endswith("::to_be_bytes") and x[2] and x[2][0][0] == "call" and
                               x[2][0][1].endswith("::from_be_bytes") and
                               mir.has(x[2][0], lambda y: is_pkt_slice(y, "RangeFrom")) for x in subs)
        missing = [n for n, ok in (("header packet[..8]", header), ("ciphertext packet[8..len-4]", body),
                                   ("index word packet[len-4..] as received", word)) if not ok]
        if not missing:
            r.ok({"site": b.where(bi), "covers": "packet[..8] + received index word (aad), packet[8..len-4] (ciphertext)"})
        else:
            r.violate(fn, "aead:coverage", b.where(bi),
                      "the AEAD input does not contain %s: those bits of a received SRTCP packet are not authenticated" % ", ".join(missing))
    return r


CMP = "srtp::constant_time_eq"


def _views(b, t, depth=0):
    """which parameter(s) a term is a view of, and what kind of view: -> set of (param, kind),
    kind in whole / chunks / remainder / partial"""
    out = set()
    if depth > 8:
        return out
    k = t[0]
    if k == "arg":
        return {(t[1], "whole")}
    if k == "var" and len(t) > 2:
        for d in b.var_def_terms(t[2]):
            out |= _views(b, d, depth + 1)
        return out
    if k == "call":
        last = t[1].split("::")[-1]
        inner = set()
        for a in t[2]:
            inner |= _views(b, a, depth + 1)
        if last in ("iter", "into_iter", "as_ref", "deref", "as_slice", "by_ref", "borrow", "borrow_mut", "clone", "copied", "cloned"):
            return inner
        if last in ("chunks_exact", "chunks"):
            return {(p, "chunks" if kind == "whole" else "partial") for p, kind in inner}
        if last == "remainder":
            return {(p, "remainder" if kind == "chunks" else "partial") for p, kind in inner}
        return {(p, "partial") for p, kind in inner}
    if k in ("index", "field", "cast", "un", "deref", "ref"):
        for x in t[1:]:
            if isinstance(x, tuple):
                out |= {(p, "partial" if k == "index" else kind) for p, kind in _views(b, x, depth + 1)}
        return out
    for x in t[1:]:
        if isinstance(x, tuple) and x and isinstance(x[0], str):
            out |= _views(b, x, depth + 1)
    return out


def r05_6(ctx):
    """the tag comparison itself. `constant_time_eq(a, b)` is the authentication decision of the HMAC profiles:
    it must compare every byte of `a` with the byte of `b` at the same position. Shape: unequal lengths give false;
    every pairing (`zip`) pairs a view of `a` with the same kind of view of `b`; and the views together cover the
    slices - the whole slice, or chunks_exact AND its remainder. (A tail compared with itself accepts a forged
    tag whose last len % 4 bytes are wrong.)"""
    r = RuleResult("R05.6", "K6", "the tag comparator pairs every byte of one operand with the same byte of the other")
    b = ctx.body(CMP)
    r.scope.append(CMP)
    params = [b.locals[i].get("n") for i in (1, 2)]
    # (1) length test
    lens = [bi for bi in range(len(b.blocks)) if b.blocks[bi]["t"]["k"] == "switch" and bi not in b.cleanup
            and (lambda t: t[0] == "bin" and t[1] in ("Ne", "Eq") and all(x[0] == "call" and x[1].endswith("::len") for x in (t[2], t[3]))
                 and {mir.show(t[2][2][0], 20), mir.show(t[3][2][0], 20)} == set(params))(b.switch_info(bi)[0])]
    if lens:
        r.ok({"length test": b.where(lens[0])})
    else:
        r.violate(CMP, "cmp:length", b.where(0), "operands of different length are not rejected before the bytewise comparison (zip stops at the shorter one)")
    # (2) pairings
    zips = [(bi, t) for bi, t, p in b.calls() if p and p.endswith("Iterator::zip") and bi not in b.cleanup]
    if not zips:
        raise core.CheckerError("R05.6: comparator has no zip pairing - shape not recognised (index loops are not modelled)")
    kinds = set()
    for bi, t in zips:
        va = _views(b, b.term_operand(t["a"][0]))
        vb = _views(b, b.term_operand(t["a"][1]))
        pa, pb = {p for p, _ in va}, {p for p, _ in vb}
        ka, kb = {k for _, k in va}, {k for _, k in vb}
        if len(pa) == 1 and len(pb) == 1 and pa != pb and pa | pb == set(params) and ka == kb and len(ka) == 1 and "partial" not in ka:
            kinds |= ka
            r.ok({"pairing": b.where(bi), "views": "%s of %s with %s of %s" % (sorted(ka)[0], sorted(pa)[0], sorted(kb)[0], sorted(pb)[0])})
        else:
            r.violate(CMP, "cmp:pairing", b.where(bi),
                      "this pairing compares %s with %s: not a view of `%s` against the same view of `%s` - those bytes of the received tag are never checked"
                      % (sorted(va) or "?", sorted(vb) or "?", params[0], params[1]))
    # (3) coverage
    if not r.violations:
        if "whole" in kinds or {"chunks", "remainder"} <= kinds:
            r.ok({"coverage": sorted(kinds)})
        else:
            r.violate(CMP, "cmp:coverage", b.where(zips[0][0]), "the pairings cover only %s of the operands: some bytes of the tag are never compared" % sorted(kinds))
    # (4) the verdict is `accumulated difference == 0`
    rets = b.var_def_terms(0)
    if any(t[0] == "bin" and t[1] == "Eq" and mir.int_value(t[3]) == 0 for t in rets) and all(
            (t[0] == "bin" and t[1] == "Eq") or mir.int_value(t) == 0 for t in rets):
        r.ok({"verdict": "false, or accumulated difference == 0"})
    else:
        r.violate(CMP, "cmp:verdict", b.where(0), "the comparator can return true other than through `difference == 0`: %s" % [mir.show(t, 60) for t in rets])
    return r


def r05_7(ctx):
    """'a rejection never disturbs receiver state': the per-SSRC context keeps a scratch buffer into which the clear header
    of EVERY arriving packet is re-serialised before authentication - harmless only because the buffer is scratch: its
    length is set to exactly the header length on each packet, so nothing of an earlier (possibly forged) packet
    survives. If the buffer only ever grows, one rejected packet with a longer header (a flipped CSRC-count bit is
    enough) leaves a tail behind, and every later genuine packet whose consumer authenticates the WHOLE buffer (the
    AES-GCM associated data) is rejected for good. Decided: the function that fills the scratch sets its length to the
    encoded header length on every path - or else no consumer passes the buffer on unsliced."""
    r = RuleResult("R05.7", "K4", "the header scratch of a receive context carries nothing over from an earlier packet")
    fn = "srtp::SrtpPacket::marshal_header_into"
    b = ctx.body(fn)
    r.scope.append(fn)
    exact = [bi for bi, t, p in b.calls() if p and p.endswith("::resize") and len(t["a"]) > 1 and
             mir.has(b.term_operand(t["a"][1]), lambda x: x[0] == "call" and x[1].endswith("encoded_len"))]
    exact += [bi for bi, t, p in b.calls() if p and (p.endswith("Vec::<T, A>::clear") or p.endswith("::truncate"))]
    rets = [i for i, blk in enumerate(b.blocks) if blk["t"]["k"] == "ret" and i not in b.cleanup]
    always = bool(exact) and all(core.must_pass(b, rb, exact) for rb in rets)
    whole, n_consumers = [], 0
    for user in ("srtp::SrtpContext::unprotect", "srtp::SrtpContext::protect"):
        ub = ctx.body(user)
        r.scope.append(user)
        for bi, t, p in ub.calls():
            if not p or p.endswith("marshal_header_into") or bi in ub.cleanup:
                continue
            for a in t["a"]:
                ta = ub.term_operand(a)
                if mir.has_field(ta, "auth_scratch") and p.split("::")[-1] in (
                        "update", "decrypt_in_place_detached", "encrypt_in_place_detached", "decrypt", "encrypt", "chain_update"):
                    n_consumers += 1
                    if not mir.has(ta, lambda x: x[0] == "call" and ("::index" in x[1] or "::get" in x[1])):
                        whole.append((ub, bi, p.split("::")[-1]))
    r.need("consumers of the header scratch", n_consumers, 2)
    if always:
        r.ok({"site": b.where(exact[0]), "length": "set to the encoded header length on every path"})
        for ub, bi, m in whole:
            r.ok({"consumer": ub.where(bi), "uses": "whole scratch (exactly this packet's header)"})
    else:
        for ub, bi, m in whole:
            r.violate(ub.name, "scratch:stale-tail:%s" % m, ub.where(bi),
                      "the header scratch is not cut to this packet's header length on every path of %s, yet %s() is given the whole buffer: "
                      "a rejected packet with a longer header leaves bytes behind that are then authenticated as part of every later header" % (fn, m))
    return r


def r05_8(ctx):
    """SrtpContext::unprotect does not authenticate the header bytes it received: it authenticates the header it PARSED,
    serialised again (marshal_header_into -> write_to). That is sound exactly as long as parse-then-write reproduces the
    received header bit for bit; any normalisation in RtpHeader::parse is a set of header bits an attacker may flip for
    free. The one field with an optional presence is the extension block: X = 1 with a zero-length block is legal and
    distinct from X = 0 - if parse reports it as 'no extension', setting the X bit and splicing a 4-byte block into a
    captured packet yields a datagram that differs in five octets and still authenticates. Decided: on the X-bit-set edge
    of RtpHeader::parse the extension is Some(..) on every path to a successful return - never None, never conditional
    on the block's length or contents."""
    r = RuleResult("R05.8", "K4/dataflow", "RtpHeader::parse keeps an extension block whenever the X bit is set (authenticated header = received header)")
    fn = "rtp::RtpHeader::parse"
    b = ctx.body(fn)
    r.scope.append(fn)

    def xbit(term):
        return term[0] == "bin" and term[1] == "Ne" and mir.int_value(term[3]) == 0 and term[2][0] == "bin" and \
            term[2][1] == "BitAnd" and mir.int_value(term[2][3]) == 0x10
    xedges = core.guard_edges(b, lambda term, meaning, *_: meaning is True and (xbit(term) or (term[0] == "var" and len(term) > 2 and any(xbit(d) for d in b.var_def_terms(term[2])))))
    r.need("X-bit test in RtpHeader::parse", len(xedges), 1)
    opt_locals = [i for i, l in enumerate(b.locals) if l["ty"].startswith("std::option::Option<rtp::RtpHeaderExtension")]
    defs = b.defs()
    be = b.back_edges()
    bad, good = [], []
    for sb, tgt in xedges:
        reach = b.reachable([tgt], cut_edges=be)
        for l in opt_locals:
            for d in defs.get(l, []):
                if d[1] not in reach:
                    continue
                t = b._term_def(d, 0, (l,))
                if t[0] == "agg" and t[2] == "Some":
                    good.append(d[1])
                elif t[0] in ("var", "phi") or (t[0] == "agg" and t[2] == "None") or t[0] == "call":
                    # a copy of another Option local is fine if that one is handled; a call (bool::then, filter, ..) or None is not
                    if t[0] == "var":
                        continue
                    bad.append((d[1], mir.show(t, 60)))
    if not good and not bad:
        raise core.CheckerError("R05.8: extension assignment on the X-bit edge not found")
    for bi, what in bad:
        r.violate(fn, "ext:dropped", b.where(bi),
                  "with the X bit set the parsed header may carry no extension (%s): the re-serialised header that is authenticated then lacks "
                  "the X bit and the extension word, so those received octets are not covered by the tag" % what)
    for bi in good[:1] if not bad else []:
        r.ok({"site": b.where(bi), "X=1": "extension is Some(profile, data) whatever the block length"})
    return r


def run(ctx):
    return [r05_1(ctx), r05_2(ctx), r05_3(ctx), r05_4(ctx), r05_5(ctx), r05_6(ctx), r05_7(ctx), r05_8(ctx)]
