"""C01 — reliable ordered channels: structural necessary conditions of exactly-once, in-order delivery."""
from engine import core, mir
from engine.core import RuleResult, suffix
from rules import c12

EXPLANATION = (
    "Static analysis of rustc MIR of transports::sctp; necessary conditions only. R01.1 dedup-before-deliver: in "
    "handle_data every delivery (process_data_payload) is cut by both 'TSN is new' edges (diff != 0 and diff <= 2^31 "
    "with diff = tsn.wrapping_sub(cumulative_ack)); the out-of-order buffer is filled only on the !contains_key edge; "
    "the cumulative ack is stored only after the delivery it accounts for. R01.2 who-may-write the receive point "
    "(cumulative_tsn_ack) and the tags. R01.3 association set-up (INIT / INIT-ACK handlers) must not overwrite "
    "TSN/tag state of an association that is already established: stores must be cut by a test of the association "
    "state (reported as known findings today). R01.4 TSN/SSN values are ordered only with serial arithmetic "
    "(crate-wide lint over transports::sctp; one reviewed exception). R01.5 SSN assignment under the per-channel "
    "send_lock, fragments under one queue guard (shared with C12). Delivery over arbitrary loss/duplication/reordering "
    "histories, retransmission liveness and bounded-time completion are NOT decided.")
ASSUMPTIONS = ["run_loop is the only task driving handle_packet for one association", "unwind edges are not paths"]
TRUSTED_BASE = ["rustc MIR construction", "engine CFG/terms", "tables in rules/c01.py"]

S = "transports::sctp::SctpInner::"
HD = S + "handle_data::{closure#0}"


def r01_1(ctx):
    r = RuleResult("R01.1", "K1+K4", "a TSN is delivered only if new; receive point moves only after delivery")
    b = ctx.body(HD)
    r.scope.append(HD)
    deliveries = [bi for bi, t, p in core.calls_to(b, suffix("SctpInner::process_data_payload"))]
    r.need("process_data_payload calls in handle_data", len(deliveries), 2)

    def is_diff(x):
        return x[0] == "call" and x[1].endswith("wrapping_sub") and mir.has(x[2][1], lambda y: core.is_atomic_load(y, "cumulative_tsn_ack")) \
            and mir.has(x[2][0], lambda y: y[0] == "call" and y[1].endswith("Buf::get_u32"))

    def not_dup(term, meaning, *_):
        return term[0] == "bin" and term[1] == "Eq" and is_diff(term[2]) and mir.int_value(term[3]) == 0 and meaning is False

    def not_old(term, meaning, *_):
        return term[0] == "bin" and term[1] == "Gt" and is_diff(term[2]) and mir.int_value(term[3]) == 0x80000000 and meaning is False
    g1 = core.guard_edges(b, not_dup)
    g2 = core.guard_edges(b, not_old)
    for bi in deliveries:
        miss = []
        if not g1 or core.k1(b, [bi], g1)[bi] is not None:
            miss.append("diff != 0")
        if not g2 or core.k1(b, [bi], g2)[bi] is not None:
            miss.append("diff <= 2^31")
        if miss:
            r.violate(HD, "call:process_data_payload", b.where(bi), "chunk delivered without the duplicate/old-TSN test: missing %s" % miss)
        else:
            r.ok({"site": b.where(bi), "cut_by": ["tsn - cum_ack != 0", "tsn - cum_ack <= 2^31 (serial)"]})
    ins = [(bi, t) for bi, t, p in core.calls_to(b, suffix("BTreeMap::<K, V, A>::insert", "HashMap::<K, V, S, A>::insert"))
           if mir.has(b.term_operand(t["a"][0]), lambda x: x[0] == "field" and x[2] == "received_queue")]
    # `entry(tsn).or_insert(..)` keeps the first copy: as good as the already-buffered test for delivery (not for the
    # window accounting - R01.15)
    keep_first = [(bi, t) for bi, t, p in b.calls() if p and p.split("::")[-1] in ("or_insert", "or_insert_with") and t["a"] and
                  mir.has(b.term_operand(t["a"][0]), lambda x: x[0] == "call" and x[1].endswith("::entry") and mir.has_field(x, "received_queue"))]
    r.need("received_queue insert sites", len(ins) + len(keep_first), 1)
    for bi, t in keep_first:
        if not g1 or core.k1(b, [bi], g1)[bi] is None:
            r.ok({"site": b.where(bi), "buffered": "entry().or_insert keeps the first copy of a TSN"})
        else:
            r.violate(HD, "insert:received_queue", b.where(bi), "out-of-order chunk buffered without the duplicate-TSN test")

    def absent(term, meaning, *_):
        if term[0] == "call" and term[1].endswith("::contains_key") and mir.has_field(term[2][0], "received_queue") and meaning is False:
            return True
        return term[0] == "un" and term[1] == "Not" and term[2][0] == "call" and term[2][1].endswith("::contains_key") and meaning is True
    ga = core.guard_edges(b, absent)
    for bi, t in ins:
        if ga and core.k1(b, [bi], ga)[bi] is None and (not g1 or core.k1(b, [bi], g1)[bi] is None):
            r.ok({"site": b.where(bi), "buffered only when": "TSN new and not already buffered"})
        else:
            r.violate(HD, "insert:received_queue", b.where(bi), "out-of-order chunk buffered without the already-buffered test (duplicates would be delivered twice)")
    # receive point stores are preceded by a delivery and carry the delivered TSN
    stores = core.atomic_sites(b, "cumulative_tsn_ack", "store")
    r.need("cumulative_tsn_ack stores in handle_data", len(stores), 2)
    for bi, t, args in stores:
        if core.must_pass(b, bi, deliveries):
            r.ok({"site": b.where(bi), "after": "process_data_payload of the TSN stored"})
        else:
            r.violate(HD, "store:cumulative_tsn_ack", b.where(bi), "receive point advanced on a path that did not deliver the chunk")
    # on a delivery error the receive point must not move: the store is cut by the Continue edge of the delivery
    return r


WRITERS = {
    "cumulative_tsn_ack": {"handle_data", "handle_forward_tsn", "handle_init", "handle_init_ack"},
    "verification_tag": {"send_init", "handle_init"},
    "remote_verification_tag": {"handle_init", "handle_init_ack"},
}


def r01_2(ctx):
    r = RuleResult("R01.2", "K3", "who may write the receive point and the verification tags")
    n = 0
    for body in ctx.facts.bodies(prefix="transports::sctp::"):
        if "::tests::" in body.name:
            continue
        base = body.name.split("::{closure")[0].split("::")[-1]
        for f, allowed in WRITERS.items():
            for op in ("store", "swap", "fetch_add", "fetch_sub", "compare_exchange", "fetch_max"):
                for bi, t, args in core.atomic_sites(body, f, op):
                    n += 1
                    if base in allowed and op == "store":
                        r.ok({"site": body.where(bi), "field": f, "function": base})
                    else:
                        r.violate(body.name, "%s:%s" % (op, f), body.where(bi), "%s written by %s, which is not one of %s" % (f, base, sorted(allowed)))
    r.need("receive point / tag write sites", n, 9)
    return r


def _reads_assoc_state(t):
    return mir.has(t, lambda x: x[0] == "call" and x[1].endswith("::lock") and x[2] and x[2][0][0] == "field" and x[2][0][2] == "state")


def _not_established_edge(term, meaning):
    """the edge on which the association is known NOT to be established (yet): `<state> == Connected` false,
    `!= Connected` true, `== Connecting / New` true - where <state> is `*self.state.lock()` or the previous value handed
    back by `mem::replace(&mut *self.state.lock(), ..)`"""
    if not (term[0] == "call" and "PartialEq" in term[1] and isinstance(meaning, bool) and len(term[2]) == 2):
        return False
    a, b = term[2]
    if _reads_assoc_state(b) and not _reads_assoc_state(a):
        a, b = b, a
    if not _reads_assoc_state(a) or _reads_assoc_state(b):
        return False
    if not (b[0] == "agg" and b[1].endswith("SctpState")):
        return False
    eq_edge = meaning is term[1].endswith("::eq")
    return (b[2] == "Connected" and not eq_edge) or (b[2] in ("Connecting", "New") and eq_edge)


def r01_3(ctx):
    r = RuleResult("R01.3", "K1", "association set-up must not clobber an established association")
    def state_tested(term, meaning, *_):
        return _not_established_edge(term, meaning)
    for fn in ("handle_init", "handle_init_ack"):
        b = ctx.body(S + fn + "::{closure#0}")
        r.scope.append(b.name)
        g = core.guard_edges(b, state_tested)
        sites = []
        for f in ("cumulative_tsn_ack", "next_tsn", "verification_tag", "remote_verification_tag"):
            for bi, t, args in core.atomic_sites(b, f, "store"):
                sites.append((bi, f))
        if fn == "handle_init" and len(sites) < 4:
            raise core.CheckerError("R01.3: TSN/tag stores not found in handle_init")
        for bi, f in sites:
            if g and core.k1(b, [bi], g)[bi] is None:
                r.ok({"site": b.where(bi), "field": f, "cut_by": "association state test"})
            else:
                r.violate(b.name, "store:%s" % f, b.where(bi),
                          "%s overwrites %s without looking at the association state: a duplicated or late %s resets an established association" % (
                              fn, f, "INIT" if fn == "handle_init" else "INIT-ACK"))
        # (Retired in round 9: a sub-check here demanded that handle_init_ack act in COOKIE-WAIT only - T1 still carrying the
        # INIT. It answered seed C01r7: a duplicated INIT-ACK in COOKIE-ECHOED rewound the receive point behind DATA that had
        # already been taken. Since repair bc09ffa no DATA is taken while T1 runs, so there is nothing to rewind behind: an
        # INIT-ACK handled again in COOKIE-ECHOED stores the same values and repeats the COOKIE ECHO. The sub-check had come
        # to demand more than the property.)
    # a copy of the INIT that is being answered (same initiate tag, association not up yet) must get the SAME INIT-ACK:
    # the values this side chooses - its verification tag and its initial TSN - are fresh random numbers only on the
    # edge where the INIT is not such a copy; otherwise they are the stored ones
    b = ctx.body(S + "handle_init::{closure#0}")
    for f in ("verification_tag", "next_tsn"):
        for bi, t, args in core.atomic_sites(b, f, "store"):
            v = args[1]
            alts = list(v[1]) if v[0] == "phi" and isinstance(v[1], tuple) else (b.var_def_terms(v[2]) if v[0] == "var" and len(v) > 2 else [v])
            reuse = any(core.is_atomic_load(a, f) or mir.has(a, lambda x: core.is_atomic_load(x, f)) for a in alts)
            fresh = any(mir.has(a, lambda x: x[0] == "call" and x[1].endswith("random_u32")) for a in alts)
            if reuse and fresh:
                r.ok({"site": b.where(bi), "field": f, "value": "stored value for a retransmitted INIT, fresh otherwise"})
            else:
                r.violate(b.name, "init-ack:%s" % f, b.where(bi),
                          "every INIT gets a freshly drawn %s: a duplicated INIT datagram (or the peer's T1 retransmission) is answered "
                          "with an INIT-ACK that disagrees with the one the peer may already have acted on" % f)
    return r


SERIAL_EXCEPTIONS = {
    ("transports::sctp::apply_sack_to_sent_queue", "cmp:Le"): "s <= e decides whether a gap-ack block range wraps (then the BTreeMap range is split): intended raw comparison",
}


def r01_4(ctx):
    r = RuleResult("R01.4", "K6", "TSN/SSN values are ordered with serial arithmetic only")
    tmp = RuleResult("tmp", "", "")
    nfn = 0
    for body in ctx.facts.bodies(prefix="transports::sctp::"):
        if "::tests::" in body.name:
            continue
        nfn += 1
        c12.serial_compare_violations(ctx, body.name, tmp)
    for v in tmp.violations:
        exc = SERIAL_EXCEPTIONS.get((v.fn, v.site))
        if exc:
            r.ok({"site": v.where, "exception": exc})
        else:
            r.violate(v.fn, v.site, v.where, v.msg)
    r.ok({"functions scanned": nfn})
    # tsn_gt / ssn_gt themselves are serial
    for fn, bits in (("transports::sctp::tsn_gt", "i32"), ("transports::sctp::ssn_gt", "i16")):
        b = ctx.body(fn)
        t0 = b.var_def_terms(0)
        ok = any(t[0] == "bin" and t[1] == "Gt" and t[2][0] == "cast" and t[2][2] == bits and t[2][1][0] == "call" and t[2][1][1].endswith("wrapping_sub") and mir.int_value(t[3]) == 0 for t in t0)
        if ok:
            r.ok({fn.split("::")[-1]: "(a.wrapping_sub(b) as %s) > 0" % bits})
        else:
            r.violate(fn, "def", b.where(0), "%s is not the serial-number comparison (a - b) as %s > 0" % (fn, bits))
    return r


def r01_5(ctx):
    r = c12.r12_3(ctx)
    r.rule_id = "R01.5"
    r.text = "SSN under the per-channel send_lock; fragments contiguous under one queue guard (shared with R12.3)"
    for v in r.violations:
        v.rule = "R01.5"
    return r


RQ_READ = ("::lock", "::deref", "::deref_mut", "::len", "::is_empty", "::contains_key", "::get", "::keys", "::iter", "::values",
           "::into_iter", "::next", "::cloned", "::collect", "::drop", "::fmt", "::new_debug", "::new_display")
RQ_CLEAR_OK = ()      # no function clears the reorder buffer today


def r01_6(ctx):
    """the receive reorder buffer is a BTreeMap keyed by raw u32 TSNs, whose order is NOT serial-number order
    across the 2^32 roll-over. Exactly-once in-order delivery therefore needs every element to leave it by key:
    remove(&next) with next computed from the cumulative ack with wrapping arithmetic, or retain() under tsn_gt
    (FORWARD-TSN). Any position/order dependent access (first_entry, pop_first, range, split_off, drain ..)
    stalls or reorders delivery when the buffered TSNs straddle the roll-over."""
    r = RuleResult("R01.6", "K3", "chunks leave the receive reorder buffer only by serial-arithmetic key")
    n = 0
    for b in ctx.facts.bodies(prefix="transports::sctp::"):
        if "::tests::" in b.name:
            continue
        for bi, t, p in b.calls():
            if not p or not t["a"]:
                continue
            a0 = b.term_operand(t["a"][0])
            if not mir.has_field(a0, "received_queue"):
                continue
            if p.startswith("transports::sctp::"):
                continue        # passed on to a crate function (taken by shared reference: checked there by type)
            if any(p.endswith(m) for m in RQ_READ) or "core::fmt" in p:
                continue
            n += 1
            m = p.split("::")[-1]
            site = "call:%s" % m
            if m in ("entry", "or_insert", "or_insert_with") and b.name == HD:
                r.ok({"site": b.where(bi), "op": "keyed access (%s)" % m})      # by key, not by position
            elif m == "insert":
                if b.name == HD:
                    r.ok({"site": b.where(bi), "op": "insert(tsn, ..)"})
                else:
                    r.violate(b.name, site, b.where(bi), "reorder buffer filled outside handle_data")
            elif m == "remove" and p.endswith("BTreeMap::<K, V, A>::remove"):
                k = b.term_operand(t["a"][1])
                if mir.has(k, lambda x: x[0] == "call" and x[1].endswith("wrapping_add") and
                           mir.has(x, lambda y: core.is_atomic_load(y, "cumulative_tsn_ack"))):
                    r.ok({"site": b.where(bi), "op": "remove(&cumulative_tsn_ack.wrapping_add(..))"})
                else:
                    r.violate(b.name, site, b.where(bi), "chunk removed from the reorder buffer by a key not derived from the cumulative ack with wrapping arithmetic")
            elif m == "retain":
                cl = b.term_operand(t["a"][1])
                cname = cl[1] if cl[0] == "closure" else None
                okc = False
                if cname and ctx.facts.has_body(cname):
                    okc = any(pp and pp.endswith("sctp::tsn_gt") for _, _, pp in ctx.body(cname).calls())
                if okc:
                    r.ok({"site": b.where(bi), "op": "retain(|tsn| tsn_gt(..))"})
                else:
                    r.violate(b.name, site, b.where(bi), "reorder buffer pruned by a predicate that does not use tsn_gt")
            else:
                r.violate(b.name, site, b.where(bi),
                          "reorder buffer accessed through an order/position dependent API (%s): BTreeMap order is not TSN "
                          "order across the 2^32 roll-over, so in-order delivery stalls or reorders there" % m)
    r.need("reorder buffer mutation sites", n, 3)
    return r


RX_ATOMS = ("cumulative_tsn_ack",)
TX_ATOMS = ("next_tsn", "advanced_peer_ack_tsn", "fast_recovery_exit_tsn")


# TSNs read from the wire belong to a space too: a SACK acknowledges OUR TSNs (cumulative ack, gap blocks), DATA and
# FORWARD-TSN carry the PEER's. Keyed by the handler the 32-bit read happens in / the parameter it is passed as.
WIRE_SPACE = {"handle_sack": "TX", "handle_data": "RX", "handle_forward_tsn": "RX"}
PARAM_SPACE = {("apply_sack_to_sent_queue", "cumulative_tsn_ack"): "TX", ("update_advanced_peer_ack_point", "cumulative_tsn_ack"): "TX"}


def _space_markers(t, fn=""):
    m = set()
    base = fn.split("::{closure")[0].split("::")[-1]
    for x in mir.walk(t):
        if x[0] == "field":
            if x[2] in RX_ATOMS or x[2] == "received_queue":
                m.add("RX")
            elif x[2] in TX_ATOMS or x[2] == "sent_queue":
                m.add("TX")
        elif x[0] == "call" and x[1].endswith("Buf::get_u32") and base in WIRE_SPACE:
            m.add(WIRE_SPACE[base])
        elif x[0] == "arg" and (base, x[1]) in PARAM_SPACE:
            m.add(PARAM_SPACE[(base, x[1])])
    return m


def _space_alts(b, t, depth=0):
    """alternative marker sets of a term: one per combination of definitions of the multiply-defined
    locals ('var' nodes) it mentions (bounded)"""
    base = _space_markers(t, b.name)
    vs = []
    for x in mir.walk(t):
        if x[0] == "var" and len(x) > 2 and x[2] not in [v[2] for v in vs]:
            vs.append(x)
    alts = {frozenset(base)}
    if depth >= 3:
        return alts
    for v in vs[:3]:
        dalts = set()
        for d in b.var_def_terms(v[2])[:6]:
            dalts |= _space_alts(b, d, depth + 1)
        if not dalts:
            continue
        alts = {a | d for a in alts for d in dalts}
        if len(alts) > 32:
            break
    return alts


def r01_7(ctx):
    """an SCTP endpoint handles two unrelated TSN spaces: the TSNs it assigns (next_tsn, sent_queue keys,
    advanced_peer_ack_tsn, fast_recovery_exit_tsn) and the TSNs the peer assigns (cumulative_tsn_ack - the
    receive point -, received_queue keys). Their initial values are independent random numbers, so a comparison
    or difference of a value from one space with a value from the other is meaningless."""
    r = RuleResult("R01.7", "K6/units", "own-TSN and peer-TSN values are never compared with each other")
    n = 0
    for b in ctx.facts.bodies(prefix="transports::sctp::"):
        if "::tests::" in b.name:
            continue
        sites = []
        for bi, t, p in b.calls():
            if p and (p.endswith("sctp::tsn_gt") or p.endswith("::wrapping_sub")) and len(t["a"]) == 2:
                sites.append((bi, None, b.term_operand(t["a"][0]), b.term_operand(t["a"][1]), p.split("::")[-1]))
        for bi, si, st in b.assigns():
            rv = st["rv"]
            if rv["r"] == "bin" and rv["op"] in ("Eq", "Ne", "Lt", "Le", "Gt", "Ge", "Sub", "SubWithOverflow"):
                sites.append((bi, si, b.term_operand(rv["a"]), b.term_operand(rv["b"]), rv["op"]))
        for bi, si, ta, tb, op in sites:
            aa, ab = _space_alts(b, ta), _space_alts(b, tb)
            if not any(aa) or not any(ab):
                continue
            n += 1
            bad = [(x, y) for x in aa for y in ab if (x == {"RX"} and y == {"TX"}) or (x == {"TX"} and y == {"RX"})]
            if bad:
                r.violate(b.name, "mix:%s" % op, b.where(bi, si),
                          "%s(%s, %s) relates a TSN of the peer's space (receive point) to a TSN of our own space" %
                          (op, mir.show(ta, 60), mir.show(tb, 60)))
            else:
                r.ok({"site": b.where(bi, si), "op": op} if n <= 12 else None)
    r.samples = [x for x in r.samples if x]
    r.need("TSN comparisons with a known space on both sides", n, 5)
    return r


def r01_8(ctx):
    """RFC 4960 3.3.4: Gap Ack Block start/end are offsets from the Cumulative TSN Ack *of the same SACK*.
    Adding them to any other base (a clamped / advanced ack point) marks chunks the peer never received as
    acknowledged; they are then never retransmitted and the receiver waits at the hole for ever."""
    r = RuleResult("R01.8", "K6/dataflow", "gap ack block offsets are applied to the SACK's own cumulative TSN ack")
    fn = "transports::sctp::apply_sack_to_sent_queue"
    b = ctx.body(fn)
    r.scope.append(fn)
    n = 0
    for bi, t, p in b.calls():
        if not p or not p.endswith("::wrapping_add") or len(t["a"]) != 2:
            continue
        base, off = b.term_operand(t["a"][0]), b.term_operand(t["a"][1])
        if not mir.has(off, lambda x: x == ("arg", "gap_blocks")):
            continue
        n += 1
        if base == ("arg", "cumulative_tsn_ack"):
            r.ok({"site": b.where(bi), "base": "the cumulative_tsn_ack parameter"})
        else:
            r.violate(fn, "gap:base", b.where(bi),
                      "a gap ack block offset is added to %s, not to the cumulative TSN ack carried by the SACK itself: "
                      "unreceived chunks can be marked acknowledged" % mir.show(base, 80))
    r.need("gap block offset additions", n, 2)
    return r


HT = S + "handle_timeout::{closure#0}"


def r01_9(ctx):
    """T3 expiry (RFC 4960 6.3.3): every outstanding chunk - not acked, not abandoned - is either marked for
    retransmission or (burst limit) gets its timer restarted so that a later T3 marks it; a PR-SCTP chunk may be
    abandoned instead. A chunk that is neither marked, re-timed nor abandoned on some path stays unacked for ever:
    the receiver waits at that hole and nothing later is delivered."""
    r = RuleResult("R01.9", "K4", "T3: every outstanding chunk is marked for retransmission, re-timed, or (PR-SCTP) abandoned")
    b = ctx.body(HT)
    r.scope.append(HT)
    marks = [bi for bi, si, st in core.field_writes(b, lambda f: f == "needs_retransmit")
             if si is not None and b.term_rvalue(st["rv"])[:2] == ("const", 1)]
    retime = [bi for bi, si, st in core.field_writes(b, lambda f: f == "sent_time") if si is not None]
    aband = [bi for bi, si, st in core.field_writes(b, lambda f: f == "abandoned")
             if si is not None and b.term_rvalue(st["rv"])[:2] == ("const", 1)]
    r.need("needs_retransmit = true sites in handle_timeout", len(marks), 1)
    # the sweep over the sent queue that contains the marks
    loops = [(h, blocks) for h, blocks in b.loops() if any(m in blocks for m in marks)]
    if not loops:
        raise core.CheckerError("R01.9: retransmission marks are not inside a sweep over the sent queue")
    hdr, blocks = min(loops, key=lambda x: len(x[1]))
    starts, cut = [], set()
    for sb in blocks:
        if b.blocks[sb]["t"]["k"] != "switch":
            continue
        term, outs = b.switch_info(sb)
        for tgt, _, meaning in outs:
            if term[0] == "discr" and mir.has_call(term[1], "::next") and meaning == "Some":
                starts.append(tgt)
            neg, tt = False, term
            if tt[0] == "un" and tt[1] == "Not":
                neg, tt = True, tt[2]
            if tt[0] == "field" and tt[2] in ("acked", "abandoned") and isinstance(meaning, bool) and (meaning is not neg):
                cut.add((sb, tgt))        # already acknowledged / abandoned: nothing to do
    if not starts:
        raise core.CheckerError("R01.9: cannot find the iterator of the T3 sweep")
    handled = set(marks) | set(retime) | set(aband)
    p = b.path_to(starts, hdr, cut_blocks=handled, cut_edges=cut)
    if p is None:
        r.ok({"sweep": b.where(hdr), "every outstanding chunk": "needs_retransmit = true | sent_time = now | abandoned = true"})
    else:
        r.violate(HT, "t3:skips-chunk", b.where(p[-1] if p else hdr),
                  "an outstanding (unacked, not abandoned) chunk can pass the T3 sweep without being marked for retransmission, "
                  "re-timed or abandoned", core.describe_path(b, p))
    # marking also counts the transmission and restarts the timer
    for m in marks:
        r.ok({"site": b.where(m)})
    return r


FWD = S + "handle_forward_tsn::{closure#0}"


def r01_10(ctx):
    """a FORWARD-TSN moves the receive point without delivering anything. Chunks already buffered beyond the new
    point may now be next in order; the peer has seen them gap-acked and will never send them again, and the
    only other drain runs when new DATA arrives. So the handler itself must drain: after the receive point moves,
    every path to the return tries `received_queue.remove(&receive_point + 1 ..)`."""
    r = RuleResult("R01.10", "K4", "FORWARD-TSN drains the reorder buffer after moving the receive point")
    b = ctx.body(FWD)
    r.scope.append(FWD)
    stores = [x[0] for x in core.atomic_sites(b, "cumulative_tsn_ack", "store")]
    r.need("receive point stores in handle_forward_tsn", len(stores), 1)
    drains = []
    for bi, t, p in b.calls():
        if p and p.endswith("BTreeMap::<K, V, A>::remove") and t["a"] and mir.has_field(b.term_operand(t["a"][0]), "received_queue"):
            k = b.term_operand(t["a"][1])
            if mir.has(k, lambda x: x[0] == "call" and x[1].endswith("wrapping_add") and mir.has(x, lambda y: core.is_atomic_load(y, "cumulative_tsn_ack"))):
                drains.append(bi)
    first = min(stores)
    if drains and core.always_followed_by(b, first, drains):
        r.ok({"store": b.where(first), "then": "received_queue.remove(&cumulative_tsn_ack + 1 ..) on every path"})
    else:
        r.violate(FWD, "no-drain", b.where(first),
                  "after FORWARD-TSN moves the receive point the reorder buffer is not drained: a buffered chunk that became "
                  "in-order stays parked until unrelated DATA arrives (the peer will not resend it)")
    return r


def r01_11(ctx):
    """RFC 3758 3.5 (A5): the Advanced.Peer.Ack.Point may move forward only over chunks marked abandoned. Moving it
    over a chunk that is merely gap-acked makes the FORWARD-TSN cover a chunk of another (possibly reliable) stream:
    the receiver discards it from its reorder buffer, the sender forgets it - the message is lost and the ordered
    stream behind it never advances."""
    r = RuleResult("R01.11", "K1", "the PR-SCTP ack point advances only over abandoned chunks")
    fn = "transports::sctp::SctpInner::update_advanced_peer_ack_point"
    b = ctx.body(fn)
    r.scope.append(fn)
    ls = [i for i, l in enumerate(b.locals) if l.get("n") == "new_advanced"]
    if len(ls) != 1:
        raise core.CheckerError("R01.11: local new_advanced not found")
    l = ls[0]
    loops = b.loops()
    sites = []
    for bi, si, st in b.assigns():
        if st["p"]["l"] == l and "p" not in st["p"] and any(bi in blocks for h, blocks in loops):
            sites.append((bi, si))
    r.need("ack point advances inside the walk", len(sites), 1)

    def abandoned(term, meaning, *_):
        t, neg = term, False
        if t[0] == "un" and t[1] == "Not":
            t, neg = t[2], True
        return t[0] == "field" and t[2] == "abandoned" and isinstance(meaning, bool) and (meaning is not neg)
    g = core.guard_edges(b, abandoned)
    for bi, si in sites:
        if g and core.k1(b, [bi], g, fresh_per_iteration=True)[bi] is None:
            r.ok({"site": b.where(bi, si), "cut_by": "record.abandoned"})
        else:
            r.violate(fn, "advance:not-abandoned", b.where(bi, si),
                      "the advanced peer ack point can move over a chunk that is not abandoned (e.g. only gap-acked): the "
                      "FORWARD-TSN then skips data of other streams, which the receiver discards")
    return r


def r01_12(ctx):
    """an ordered message's SSN is a promise to the receiver: it waits for every SSN in turn. send_data_raw may be
    dropped at any await (a send under tokio::time::timeout, a select! arm that loses) and may fail while it waits for
    buffer credit. If the SSN has been taken by then, it is never sent: the receiver's ordered stream waits for it for
    ever and every later message of the channel sits in its reorder map. So: from the SSN fetch_add to the return, no
    suspension point and no error return - only the (synchronous) queueing of the fragments."""
    r = RuleResult("R01.12", "K4", "the SSN is taken only when nothing can suspend or fail any more before the message is queued")
    fn = S + "send_data_raw::{closure#0}"
    b = ctx.body(fn)
    r.scope.append(fn)
    fa = [bi for bi, t, p in b.calls() if p and p.endswith("::fetch_add") and t["a"] and mir.has_field(b.term_operand(t["a"][0]), "next_ssn")]
    r.need("SSN assignment in send_data_raw", len(fa), 1)
    be = b.back_edges()
    for f0 in fa:
        after = b.reachable([t for t, _ in b.succ_edges(f0)])
        polls = [bi for bi, t, p in b.calls() if bi in after and bi not in b.cleanup and
                 ((p or "").endswith("Future::poll") or (t["f"].get("fn") or "").endswith("Future::poll"))]
        yields = [bi for bi in after if b.blocks[bi]["t"]["k"] == "yield" and bi not in b.cleanup]
        errs = [bi for bi in core.err_return_blocks(b) if bi in after]
        if polls or yields or errs:
            what = "an await point" if (polls or yields) else "an error return"
            where = (polls or yields or errs)[0]
            r.violate(fn, "ssn:before-await", b.where(where),
                      "after the SSN has been taken (%s) the send can still reach %s: a send that is cancelled or fails there "
                      "burns the SSN and the receiver's ordered stream stalls behind the hole" % (b.where(f0), what))
        else:
            r.ok({"site": b.where(f0), "then": "no await point and no error return before the fragments are queued"})
    return r


_CONSUMING = ("::clear", "mem::take", "mem::replace", "::drain", "::truncate", "::pop", "::remove", "::swap_remove", "::retain", "::split_off")


def r01_13(ctx):
    """a FORWARD-TSN is not covered by any retransmission timer: the chunks it stands for have left the sent queue. If
    its datagram is lost, the peer's cumulative TSN stays in front of the abandoned TSNs for ever and nothing behind them
    is delivered - on ANY channel of the association, the reliable ones included. RFC 3758 3.5 C3: whenever a SACK's
    cumulative ack is behind the advanced ack point, FORWARD-TSN is sent again. Decided here: (a) handle_sack compares
    the advanced ack point with the SACK's own cumulative ack and, on the 'behind' edge, always re-arms
    forward_tsn_pending before it transmits; (b) the stream/SSN pairs a repeated FORWARD-TSN must name are consumed
    only by handle_sack on the 'not behind' edge - never by building the chunk."""
    r = RuleResult("R01.13", "K4+K3", "an unacknowledged FORWARD-TSN is repeated, with its stream/SSN pairs")
    fn = S + "handle_sack::{closure#0}"
    b = ctx.body(fn)
    r.scope.append(fn)

    def is_behind(term):
        return (term[0] == "call" and term[1].endswith("::tsn_gt") and len(term[2]) == 2
                and core.is_atomic_load(term[2][0], "advanced_peer_ack_tsn")
                and mir.has(term[2][1], lambda x: x[0] == "call" and x[1].endswith("get_u32"))
                and not mir.has(term[2][1], lambda x: x[0] == "field"))
    behind = core.guard_edges(b, lambda term, meaning, *_: is_behind(term) and meaning is True)
    not_behind = core.guard_edges(b, lambda term, meaning, *_: is_behind(term) and meaning is False)
    arms = [bi for bi, t, args in core.atomic_sites(b, "forward_tsn_pending", "store") if mir.int_value(args[1]) == 1]
    sends = [bi for bi, t, p in b.calls() if p and p.endswith("SctpInner::transmit") and bi not in b.cleanup]
    r.need("transmit call at the end of handle_sack", len(sends), 1)
    if not behind:
        r.violate(fn, "fwd:no-repeat", b.where(0),
                  "handle_sack never compares the advanced ack point with the SACK's cumulative ack: a FORWARD-TSN whose datagram is lost "
                  "is never sent again and the peer stops delivering on every channel")
    for sb, tgt in behind:
        reach = b.reachable([tgt], cut_blocks=set(arms)) if tgt not in arms else set()
        leak = [x for x in reach if x in sends or (b.blocks[x]["t"]["k"] == "ret" and x not in b.cleanup)]
        if leak:
            r.violate(fn, "fwd:not-rearmed", b.where(sb),
                      "the SACK's cumulative ack is behind the advanced ack point, but a path reaches %s without forward_tsn_pending = true: "
                      "the lost FORWARD-TSN is not repeated" % b.where(leak[0]))
        else:
            r.ok({"site": b.where(sb), "behind": "forward_tsn_pending re-armed before transmit on every path"})
    # (b) who consumes the pairs
    n = 0
    for body in ctx.facts.all_bodies():
        if not body.name.startswith("transports::sctp::") or "::tests::" in body.name:
            continue
        for bi, t, p in body.calls():
            if not p or bi in body.cleanup or not t["a"]:
                continue
            if not any(p.endswith(c) or (c + "::") in p for c in _CONSUMING):
                continue
            if not mir.has_field(body.term_operand(t["a"][0]), "forward_tsn_streams"):
                continue
            n += 1
            if body.name == fn and not_behind and core.k1(body, [bi], not_behind)[bi] is None:
                r.ok({"site": body.where(bi), "consumes": "pairs dropped once the peer's cumulative ack has reached the ack point"})
            else:
                r.violate(body.name, "fwd:pairs-consumed", body.where(bi),
                          "the stream/SSN pairs of the outstanding FORWARD-TSN are consumed (%s) although the peer may not have received it: "
                          "the repeated FORWARD-TSN no longer tells the peer's ordered streams which SSNs to skip" % p.split("::")[-1])
        for bi, si, st, v in core.lock_write_sites(body, "forward_tsn_streams"):
            base = body.term_local(st["p"]["l"])
            if not (base[0] == "call" and base[1].endswith("::lock")):
                continue        # an element updated in place (merge), not the list replaced
            n += 1
            r.violate(body.name, "fwd:pairs-replaced", body.where(bi),
                      "the stream/SSN pairs of an outstanding FORWARD-TSN are overwritten; they must be merged until the peer has caught up")
    r.scope.append(S + "create_forward_tsn_chunk")
    return r


def r01_14(ctx):
    """Advanced.Peer.Ack.Point says 'everything up to here is settled'. update_advanced_peer_ack_point drops every chunk
    of the sent queue up to it and FORWARD-TSN tells the peer to skip them. Whoever moves it forward without the chunks
    being acknowledged or abandoned throws reliable data away: a duplicated COOKIE-ACK / COOKIE-ECHO used to re-initialise
    it to next_tsn - 1 on an association that had already sent data. Who may store it: the abandonment walk (R01.11);
    handle_sack, to the SACK's own cumulative ack and only forward; the two handshake completions, only on the edge on
    which this very call established the association."""
    r = RuleResult("R01.14", "K3+K1", "the PR-SCTP ack point is initialised once and otherwise moves only over acknowledged or abandoned chunks")
    n = 0
    for b in ctx.facts.all_bodies():
        if not b.name.startswith("transports::sctp::") or "::tests::" in b.name:
            continue
        for bi, t, args in core.atomic_sites(b, "advanced_peer_ack_tsn", "store"):
            if bi in b.cleanup:
                continue
            n += 1
            short = b.name[len("transports::sctp::"):]
            if short == "SctpInner::update_advanced_peer_ack_point":
                r.ok({"site": b.where(bi), "by": "abandonment walk (R01.11)"})
            elif short in ("SctpInner::handle_cookie_ack::{closure#0}", "SctpInner::handle_cookie_echo::{closure#0}"):
                g = core.guard_edges(b, lambda term, meaning, *_: _not_established_edge(term, meaning))
                if g and core.k1(b, [bi], g)[bi] is None:
                    r.ok({"site": b.where(bi), "cut_by": "this call established the association"})
                else:
                    r.violate(b.name, "ackpoint:reinit", b.where(bi),
                              "the PR-SCTP ack point is set to next_tsn - 1 whenever this chunk arrives: a duplicated or retransmitted copy on an "
                              "association that has sent data moves it past unacknowledged chunks, and the next FORWARD-TSN skips them (reliable ones too)")
            elif short == "SctpInner::handle_sack::{closure#0}":
                v = args[1]
                wire = mir.has(v, lambda x: x[0] == "call" and x[1].endswith("get_u32")) and not mir.has(v, lambda x: x[0] == "field")
                def fwd(term, meaning, *_):
                    return (term[0] == "call" and term[1].endswith("::tsn_gt") and meaning is True and len(term[2]) == 2
                            and term[2][0] == v and core.is_atomic_load(term[2][1], "advanced_peer_ack_tsn"))
                g = core.guard_edges(b, fwd)
                if wire and g and core.k1(b, [bi], g)[bi] is None:
                    r.ok({"site": b.where(bi), "value": "the SACK's cumulative ack, forward only"})
                else:
                    r.violate(b.name, "ackpoint:sack", b.where(bi),
                              "handle_sack moves the PR-SCTP ack point to something other than the SACK's cumulative ack, or backwards")
            else:
                r.violate(b.name, "ackpoint:writer", b.where(bi), "unexpected writer of the PR-SCTP ack point")
    r.need("stores to advanced_peer_ack_tsn", n, 3)
    return r


def r01_15(ctx):
    """receive-window credit is charged when a chunk ENTERS the reorder buffer and given back when it leaves (R13.8). The
    same TSN can arrive many times while it waits there (duplicated datagrams, the sender's T3 / probe retransmissions
    after lost SACKs). If every copy is charged but only the one buffered chunk is ever credited back, the advertised
    window shrinks for good and ends at 0 with an empty buffer; the sender has no zero-window probe, so the channel
    stops: 'the prefix grows to the full submitted sequence' fails. Decided: in handle_data every used_rwnd.fetch_add is
    cut by the edge on which the TSN is not yet in the buffer (contains_key false / a vacant entry)."""
    r = RuleResult("R01.15", "K1", "receive-window credit is charged once per buffered chunk, not once per arriving copy")
    b = ctx.body(HD)
    r.scope.append(HD)
    adds = [bi for bi, t, args in core.atomic_sites(b, "used_rwnd", "fetch_add")]
    r.need("used_rwnd charges in handle_data", len(adds), 1)

    def absent(term, meaning, *_):
        if term[0] == "call" and term[1].endswith("::contains_key") and mir.has_field(term[2][0], "received_queue") and meaning is False:
            return True
        if term[0] == "un" and term[1] == "Not" and term[2][0] == "call" and term[2][1].endswith("::contains_key") and \
                mir.has_field(term[2], "received_queue") and meaning is True:
            return True
        if term[0] == "discr" and mir.has(term[1], lambda x: x[0] == "call" and x[1].endswith("::entry") and mir.has_field(x, "received_queue")) and meaning == "Vacant":
            return True
        # insert() returned None: the key was new
        if term[0] == "discr" and mir.has(term[1], lambda x: x[0] == "call" and x[1].endswith("::insert") and mir.has_field(x, "received_queue")) and meaning == "None":
            return True
        return False
    g = core.guard_edges(b, absent)
    for bi in adds:
        if g and core.k1(b, [bi], g)[bi] is None:
            r.ok({"site": b.where(bi), "cut_by": "TSN not yet in the reorder buffer"})
        else:
            r.violate(HD, "rwnd:charged-per-copy", b.where(bi),
                      "used_rwnd is charged for a chunk whether or not its TSN is already buffered: every duplicate of a buffered chunk leaks its "
                      "length from the advertised window for good (credit is returned once, when the one buffered copy drains)")
    return r


def r01_16(ctx):
    """'late acknowledgement packets': a SACK that was overtaken in the network carries an advertised window that is as
    out of date as its acknowledgements. The late-SACK filter protects the sent queue; the window needs the same
    protection, because for an IDLE sender (everything acknowledged, nothing in flight) no newer SACK will ever arrive to
    correct a stale a_rwnd of 0 - new data then stays in the outbound queue for ever while heartbeats keep the
    association alive. Decided: in handle_sack the wire a_rwnd reaches peer_rwnd only on the edge on which the SACK's
    cumulative ack is not behind what has already been acknowledged (tsn_gt(<own-space ack point>, cum) false)."""
    r = RuleResult("R01.16", "K1", "a SACK older than one already processed does not set the peer's window")
    fn = S + "handle_sack::{closure#0}"
    b = ctx.body(fn)
    r.scope.append(fn)

    def wire(v):
        return mir.has(v, lambda x: x[0] == "call" and x[1].endswith("get_u32")) and not mir.has(v, lambda x: x[0] == "field")
    sets = []
    for op in ("store", "swap"):
        for bi, t, args in core.atomic_sites(b, "peer_rwnd", op):
            if wire(args[1]):
                sets.append(bi)
    r.need("peer_rwnd updates from the SACK in handle_sack", len(sets), 1)

    def fresh(term, meaning, *_):
        return (term[0] == "call" and term[1].endswith("::tsn_gt") and len(term[2]) == 2 and meaning is False
                and wire(term[2][1]) and not wire(term[2][0]))
    g = core.guard_edges(b, fresh)
    for bi in sets:
        if g and core.k1(b, [bi], g)[bi] is None:
            r.ok({"site": b.where(bi), "cut_by": "the SACK's cumulative ack is not behind the acknowledged point"})
        else:
            r.violate(fn, "rwnd:stale-sack", b.where(bi),
                      "the advertised window of ANY SACK is stored, before any freshness test: a delayed SACK carrying a_rwnd = 0 that arrives at an idle "
                      "sender stops it for good (nothing in flight, so nothing will ever correct the window)")
    return r


def _state_connected(term, meaning, *_):
    """edge on which `*self.state.lock() == / != SctpState::Connected` says Connected"""
    if term[0] == "call" and "PartialEq" in term[1] and isinstance(meaning, bool) and \
            mir.has(term, lambda x: x[0] == "call" and x[1].endswith("::lock") and x[2] and mir.has_field(x[2][0], "state")) and \
            mir.has(term, lambda x: x[0] == "agg" and x[2] == "Connected"):
        return meaning is term[1].endswith("::eq")
    return False


def r01_17(ctx):
    """'nothing inside that prefix is lost ... the prefix grows to the full submitted sequence': the receive point
    (cumulative TSN) moves only after process_data_payload returned Ok - handle_data propagates its error with `?` in
    front of the store. A TSN whose payload handler fails is therefore never acknowledged: the peer retransmits it for
    ever, it fails each time, and every later chunk of every channel waits behind it in the reorder buffer. So the payload
    handler must not be able to fail for a chunk that was received (a DCEP message it cannot act on - a repeated OPEN
    after a duplicated COOKIE-ACK, an undecodable label - is dropped, the chunk is still acknowledged). Decided:
    process_data_payload has no error return (callee summaries, depth 4)."""
    r = RuleResult("R01.17", "K2", "a received DATA chunk is acknowledged whatever its payload handler makes of it")
    fn = S + "process_data_payload"
    r.scope.append(fn)
    hd = ctx.body(S + "handle_data::{closure#0}")
    calls = [bi for bi, t, p in hd.calls() if p and p.endswith("::process_data_payload")]
    r.need("process_data_payload calls in handle_data", len(calls), 2)
    if core.can_fail(ctx.facts, fn):
        b = ctx.body(fn + "::{closure#0}")
        errs = core.err_return_blocks(b)
        r.violate(fn, "payload-handler:can-fail", b.where(errs[0]) if errs else b.where(0),
                  "process_data_payload can return an error; handle_data returns it before storing cumulative_tsn_ack: that TSN is never "
                  "acknowledged, is retransmitted for ever, and nothing behind it is delivered on any channel")
    else:
        r.ok({"process_data_payload": "no error return (DCEP handler errors are dropped with the message)"})
    return r


def r01_18(ctx):
    """liveness again: the association's own task (run_loop -> handle_packet / handle_timeout) is the only one that
    processes SACKs, i.e. the only one that frees send-buffer credit and lets a parked application send (which holds its
    channel's send lock) go on. If that task itself waits for credit or for a channel's send lock, nobody is left to
    release it: the association stops for good while heartbeats keep it 'alive'. It does send messages - the DCEP ACK from
    handle_dcep, the DCEP OPEN from handle_cookie_ack / handle_cookie_echo - through send_data_raw. Decided: (a) in
    send_data_raw both waits (flow_control_notify.notified(), send_lock.lock()) are on the `is_dcep == false` edge only;
    (b) every send_data_raw reachable from the handlers is a DCEP send (the callers are send_dcep_open / send_dcep_ack,
    which pass the DCEP PPID)."""
    r = RuleResult("R01.18", "K1+call graph", "the association's task never waits for send-buffer credit or a channel's send lock")
    b = ctx.body(S + "send_data_raw::{closure#0}")
    r.scope.append(b.name)
    waits = []
    for bi, t, p in b.calls():
        if not p or not t["a"]:
            continue
        a0 = b.term_operand(t["a"][0])
        if p.endswith("Notify::notified") and mir.has_field(a0, "flow_control_notify"):
            waits.append((bi, "flow_control_notify.notified()"))
        if p.endswith("Mutex::<T>::lock") and mir.has_field(a0, "send_lock"):
            waits.append((bi, "send_lock.lock()"))
    r.need("waits in send_data_raw", len(waits), 2)

    def not_dcep(term, meaning, *_):
        t, neg = term, False
        while t[0] == "un" and t[1] == "Not":
            t, neg = t[2], not neg
        if not isinstance(meaning, bool):
            return False
        if t[0] == "var" and t[1] == "is_dcep":
            return (meaning != neg) is False
        if t[0] == "bin" and t[1] in ("Eq", "Ne") and any(x[0] == "item" and x[1].endswith("DATA_CHANNEL_PPID_DCEP") for x in (t[2], t[3])) \
                and any(mir.field_path(x) is not None and mir.field_path(x).endswith("ppid") or x == ("arg", "ppid") for x in (t[2], t[3])):
            return (meaning != neg) is (t[1] == "Ne")
        return False
    g = core.lift_guards(b, core.guard_edges(b, not_dcep))
    for bi, what in waits:
        if g and core.k1(b, [bi], g)[bi] is None:
            r.ok({"site": b.where(bi), "wait": what, "cut_by": "is_dcep == false"})
        else:
            r.violate(b.name, "wait:%s" % what.split("(")[0], b.where(bi),
                      "send_data_raw waits at %s for DCEP messages too: the DCEP ACK / OPEN is sent by the association's own task, the only "
                      "one that can free what it waits for - the association deadlocks" % what)
    # (b) call graph from the handlers
    roots = [S + "handle_packet::{closure#0}", S + "handle_timeout::{closure#0}"]
    seen, work, raw_callers = set(), [x for x in roots if ctx.facts.has_body(x)], []
    if len(work) < 2:
        raise core.CheckerError("R01.18: handler roots not found")
    while work:
        n = work.pop()
        if n in seen:
            continue
        seen.add(n)
        nb = ctx.facts.body(n)
        for bi, t, p in nb.calls():
            if not p or not p.startswith("transports::sctp::"):
                continue
            if p.endswith("::send_data_raw") or p.endswith("SctpInner::send_data") or p.endswith("SctpInner::send_text"):
                raw_callers.append((n, bi, p))
                continue
            for cand in (p + "::{closure#0}", p):
                if ctx.facts.has_body(cand) and cand not in seen:
                    work.append(cand)
    r.need("bodies reachable from the SCTP handlers", len(seen), 15)
    r.need("message sends reachable from the handlers", len(raw_callers), 2)
    for n, bi, p in raw_callers:
        nb = ctx.facts.body(n)
        t = nb.blocks[bi]["t"]
        args = [nb.term_operand(a) for a in t["a"]]
        dcep = p.endswith("::send_data_raw") and len(args) >= 3 and \
            mir.has(args[2], lambda x: x[0] == "item" and x[1].endswith("DATA_CHANNEL_PPID_DCEP"))
        if dcep:
            r.ok({"caller": n.split("::")[-2], "site": nb.where(bi), "ppid": "DATA_CHANNEL_PPID_DCEP"})
        else:
            r.violate(n, "handler-sends-data:%s" % p.split("::")[-1], nb.where(bi),
                      "%s, reachable from the association's task, sends a non-DCEP message through %s: that send can wait for credit only "
                      "this task can free" % (n.split("::")[-2], p.split("::")[-1]))
    return r


def r01_19(ctx):
    """'including duplicated or late association-setup ... packets': the side that answers an INIT knows the peer's tag at
    once, but RFC 4960 5.1 lets it send DATA only once the COOKIE ECHO has arrived. DATA sent right after the INIT takes
    TSNs; if that INIT-ACK is lost, the retransmitted INIT is answered with an INIT-ACK naming the (advanced) next_tsn as
    initial TSN, the peer puts its receive point behind the early chunks, takes their retransmissions for duplicates and
    acknowledges them unseen - the messages are lost and the ordered stream waits for their SSNs for ever. Decided:
    (a) in transmit() new data leaves the outbound queue only on the edge `awaiting_cookie_echo == false`;
    (b) handle_init raises that flag on every path that sends the INIT-ACK;
    (c) it is lowered only by handle_cookie_echo, behind the cookie validation."""
    r = RuleResult("R01.19", "K1", "the side answering an INIT sends no DATA before the COOKIE ECHO")
    b = ctx.body(S + "transmit::{closure#0}")
    r.scope.append(b.name)
    pops = [bi for bi, t, p in b.calls() if p and p.endswith("::pop_front") and t["a"] and mir.has_field(b.term_operand(t["a"][0]), "outbound_queue")]
    r.need("dequeues from the outbound queue in transmit", len(pops), 1)

    def not_awaiting(term, meaning, *_):
        t, neg = term, False
        while t[0] == "un" and t[1] == "Not":
            t, neg = t[2], not neg
        if core.is_atomic_load(t, "awaiting_cookie_echo") and isinstance(meaning, bool):
            return (meaning != neg) is False
        return False
    g = core.lift_guards(b, core.guard_edges(b, not_awaiting))
    for bi in pops:
        if g and core.k1(b, [bi], g, fresh_per_iteration=True)[bi] is None:
            r.ok({"site": b.where(bi), "cut_by": "awaiting_cookie_echo == false"})
        else:
            r.violate(b.name, "data:before-cookie-echo", b.where(bi),
                      "new DATA is dequeued as soon as the peer's tag is known: the side answering an INIT sends before the COOKIE ECHO, and a "
                      "repeated INIT-ACK (first one lost) then advertises an initial TSN beyond chunks already sent - they are acknowledged unseen")
    hi = ctx.body(S + "handle_init::{closure#0}")
    r.scope.append(hi.name)
    sends = [bi for bi, t, p in hi.calls() if p and p.endswith("::send_chunk")]
    raises = [bi for bi, t, args in core.atomic_sites(hi, "awaiting_cookie_echo", "store") if mir.int_value(args[1]) == 1 or args[1] == ("const", 1, "true") or mir.show(args[1]) == "true"]
    r.need("INIT-ACK sends in handle_init", len(sends), 1)
    for bi in sends:
        if raises and core.must_pass(hi, bi, raises):
            r.ok({"site": hi.where(bi), "after": "awaiting_cookie_echo = true"})
        else:
            r.violate(hi.name, "init-ack:flag-not-raised", hi.where(bi), "an INIT-ACK is sent on a path that does not raise awaiting_cookie_echo: DATA may follow it before the COOKIE ECHO")
    lowered = 0
    for nb in ctx.facts.bodies(prefix="transports::sctp::"):
        if "::tests::" in nb.name:
            continue
        for bi, t, args in core.atomic_sites(nb, "awaiting_cookie_echo", "store"):
            if bi in raises and nb.name == hi.name:
                continue
            lowered += 1
            ok = nb.name == S + "handle_cookie_echo::{closure#0}"
            if ok:
                def valid(term, meaning, *_):
                    tt, neg = term, False
                    while tt[0] == "un" and tt[1] == "Not":
                        tt, neg = tt[2], not neg
                    return tt[0] == "call" and tt[1].endswith("::validate_cookie") and isinstance(meaning, bool) and (meaning != neg) is True
                gv = core.guard_edges(nb, valid)
                ok = bool(gv) and core.k1(nb, [bi], gv)[bi] is None
            if ok:
                r.ok({"site": nb.where(bi), "lowered": "in handle_cookie_echo behind validate_cookie"})
            else:
                r.violate(nb.name, "flag-lowered", nb.where(bi), "awaiting_cookie_echo is lowered outside handle_cookie_echo / without a valid cookie")
    r.need("sites lowering awaiting_cookie_echo", lowered, 1)
    return r


def r01_20(ctx):
    """'including duplicated or late association-setup ... packets': the side that answered an INIT is not established until
    the COOKIE ECHO arrives. DATA that overtakes a lost or delayed COOKIE ECHO was taken and acknowledged; a late copy of
    the INIT (accepted, because the association is not up) then rewound the receive point behind it and the acknowledged
    chunk never comes again. Decided: everything in handle_data that takes a chunk is on the
    `awaiting_cookie_echo == false` edge (the flag of R01.19)."""
    r = RuleResult("R01.20", "K1", "the side answering an INIT takes no DATA before the COOKIE ECHO")
    b = ctx.body(S + "handle_data::{closure#0}")
    r.scope.append(b.name)
    sites = [(bi, "process_data_payload") for bi, t, p in b.calls() if p and p.endswith("::process_data_payload")]
    sites += [(bi, "cumulative_tsn_ack.store") for bi, t, a in core.atomic_sites(b, "cumulative_tsn_ack", "store")]
    r.need("sites taking a DATA chunk in handle_data", len(sites), 3)

    def not_awaiting(term, meaning, *_):
        t, neg = term, False
        while t[0] == "un" and t[1] == "Not":
            t, neg = t[2], not neg
        if core.is_atomic_load(t, "awaiting_cookie_echo") and isinstance(meaning, bool):
            return (meaning != neg) is False
        return False
    g = core.lift_guards(b, core.guard_edges(b, not_awaiting))
    for bi, what in sites:
        if g and core.k1(b, [bi], g)[bi] is None:
            r.ok({"site": b.where(bi), "what": what, "cut_by": "awaiting_cookie_echo == false"})
        else:
            r.violate(b.name, "data-before-cookie-echo:%s" % what, b.where(bi),
                      "handle_data takes a chunk (%s) although the COOKIE ECHO that establishes the association has not arrived: a late "
                      "copy of the INIT then rewinds the receive point behind acknowledged DATA" % what)
    return r


def r01_21(ctx):
    """'Whenever the network subsequently delivers datagrams reliably ... the prefix grows to the full submitted sequence': a
    T3 expiry takes EVERY outstanding chunk out of flight but marks only a burst of them for retransmission; the others
    (in_flight = false, needs_retransmit = false, not acknowledged) are picked up by the following T3 cycles. So the
    timer must keep running for every chunk that is neither acknowledged nor abandoned - whatever its in_flight /
    needs_retransmit marks say. A predicate that also wants one of those marks leaves such chunks without any timer, and
    with nothing in flight no probe either: the tail is never delivered. Decided: in handle_timeout the tests between the
    sent-queue scan and `t3_expired = true` read only `acked`, `abandoned` and the expiry time - no other field of the
    record, directly or through a method of ChunkRecord."""
    r = RuleResult("R01.21", "K6", "the T3 timer covers every chunk that is neither acknowledged nor abandoned")
    b = ctx.body(S + "handle_timeout::{closure#0}")
    r.scope.append(b.name)
    li = [i for i, l in enumerate(b.locals) if l.get("n") == "t3_expired"]
    sets = [bi for bi, si, st in b.assigns() if st["p"]["l"] in li and "p" not in st["p"] and mir.int_value(b.term_rvalue(st["rv"])) == 1]
    if not sets:
        raise core.CheckerError("R01.21: `t3_expired = true` not found in handle_timeout")
    # `t3_expired = true; break;` leaves the loop, so the store is an exit block of the scan loop, not a member of it
    def near(blocks):
        seen, work = set(), [(x, 0) for x in blocks]
        while work:
            x, d = work.pop()
            for t, _ in b.succ_edges(x):
                if t == sets[0]:
                    return True
                if t not in blocks and t not in seen and d < 3:
                    seen.add(t)
                    work.append((t, d + 1))
        return False
    loops = [set(blocks) for h, blocks in b.loops() if sets[0] in blocks or near(set(blocks))]
    if not loops:
        raise core.CheckerError("R01.21: the scan loop around `t3_expired = true` was not found")
    region = min(loops, key=len)
    other = ("in_flight", "needs_retransmit", "transmit_count", "fast_retransmit", "missing_reports")
    bad = None
    n = 0
    for sb in sorted(region):
        if b.blocks[sb]["t"]["k"] != "switch" or sb in b.cleanup:
            continue
        term, outs = b.switch_info(sb)
        n += 1
        if any(mir.has_field(term, f) for f in other):
            bad = (sb, mir.show(term, 80))
        for x in mir.walk(term):
            if x[0] == "call" and "ChunkRecord::" in x[1] and ctx.facts.has_body(x[1]):
                cb = ctx.facts.body(x[1])
                if any(core.field_writes(cb, lambda f: False) or mir.has_field(cb.term_rvalue(st["rv"]), f)
                       for _bi, _si, st in cb.assigns() for f in other) or \
                        any(cb.blocks[k]["t"]["k"] == "switch" and any(mir.has_field(cb.switch_info(k)[0], f) for f in other) for k in range(len(cb.blocks))):
                    bad = (sb, "%s reads %s" % (x[1].split("::")[-1], "/".join(other[:2])))
    r.need("tests in the T3 expiry scan", n, 2)
    if bad:
        r.violate(b.name, "t3:narrowed", b.where(bad[0]),
                  "the T3 expiry scan skips records by more than acked / abandoned (%s): chunks taken out of flight by an earlier expiry and "
                  "not yet marked for retransmission have no timer any more - with nothing in flight nothing ever retransmits them" % bad[1])
    else:
        r.ok({"scan": "skips acknowledged / abandoned records only"})
    return r


def run(ctx):
    return [r01_17(ctx), r01_18(ctx), r01_19(ctx), r01_1(ctx), r01_2(ctx), r01_3(ctx), r01_4(ctx), r01_5(ctx), r01_6(ctx), r01_7(ctx), r01_8(ctx), r01_9(ctx), r01_10(ctx), r01_11(ctx), r01_12(ctx), r01_13(ctx), r01_14(ctx), r01_15(ctx), r01_16(ctx), r01_20(ctx), r01_21(ctx)]
