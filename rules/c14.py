"""C14 — SRTP-mandatory modes never send or accept cleartext media.
K1 cut-set rules over transports::rtp, K3 who-may-call on IceConn egress, K4 wiring
of the srtp_required flag at the two construction sites."""
from engine import core, mir
from engine.core import RuleResult, suffix

EXPLANATION = (
    "Static analysis of rustc MIR (all paths, hence all inputs/schedules driving the function). "
    "R14.1: every IceConn egress call in transports::rtp is cut (unreachable from entry once guard "
    "edges are removed) by the success edge of SrtpSession::protect_rtp/_rtcp on the very buffer "
    "sent and with the sending transport's session, or by the `srtp_required == false` edge of the "
    "sending transport. R14.2: every delivery site of RtpTransport::receive is cut by the Ok edge "
    "of unprotect_rtp/_rtcp or by srtp_required == false. R14.3: IceConn egress methods are called "
    "only from transports::rtp / transports::dtls / IceConn itself. R14.4: srtp_required at the "
    "construction sites is `transport_mode != Rtp` (start_dtls) or the constant false only on call "
    "chains cut by `transport_mode == Rtp`; start_srtp is called only from setup_sdes/setup_srtp. "
    "Decides the structural gate discipline, not cryptographic protection itself.")
ASSUMPTIONS = [
    "unwind edges and async cancellation are not paths to a send/delivery site",
    "SrtpSession::protect_*/unprotect_* returning Ok means the buffer was protected/authenticated (C05 covers unprotect)",
    "t38 feature code is not part of the analysed build",
]
TRUSTED_BASE = ["rustc MIR construction", "engine value-graph (terms) and CFG reachability", "rule tables in rules/c14.py"]

EGRESS = ("IceConn::send", "IceConn::try_send", "IceConn::send_rtcp", "IceConn::send_dtls_record_batch",
          "IceConn::send_to", "IceConn::try_send_to")
PROTECT = ("srtp::SrtpSession::protect_rtp", "srtp::SrtpSession::protect_rtcp")
UNPROTECT = ("srtp::SrtpSession::unprotect_rtp", "srtp::SrtpSession::unprotect_rtcp")


def _transport_object(term):
    """the RtpTransport whose IceConn is used by an egress call"""
    if term[0] == "field" and term[2] == "transport":
        return term[1]
    if term[0] == "call" and term[1].endswith("RtpTransport::ice_conn") and term[2]:
        return term[2][0]
    return None


def _strip_full_index(t):
    while t[0] == "call" and ("::index" in t[1]) and len(t[2]) == 2 and t[2][1][0] == "agg" and "RangeFull" in t[2][1][1]:
        t = t[2][0]
    return t


def _same_buffer(body, p, b):
    p = _strip_full_index(p)
    b = _strip_full_index(b)
    if p == b:
        return True
    if b[0] == "var" and len(b) > 2:
        if p in [_strip_full_index(x) for x in body.var_def_terms(b[2])]:
            return True
    return False


def _protect_calls_in(term):
    return [t for t in mir.walk(term) if t[0] == "call" and t[1] in PROTECT]


def _success_meaning(term, meaning):
    """does this switch edge mean 'the Result inside term is Ok'?  returns the Result term or None"""
    if term[0] == "discr":
        if meaning in ("Continue", "Ok"):
            return term[1]
        return None
    if term[0] == "call" and term[1].endswith("Result::<T, E>::is_err") and meaning is False:
        return term[2][0]
    if term[0] == "call" and term[1].endswith("Result::<T, E>::is_ok") and meaning is True:
        return term[2][0]
    return None


def r14_1(ctx):
    r = RuleResult("R14.1", "K1", "egress only after protect(Ok) on the sent buffer, or sender's srtp_required==false")
    n = 0
    for body in ctx.facts.bodies(prefix="transports::rtp::"):
        sites = core.calls_to(body, suffix(*EGRESS))
        sites = [s for s in sites if "transports::ice::conn::IceConn::" in s[2]]
        if not sites:
            continue
        r.scope.append(body.name)
        for bi, t, path in sites:
            n += 1
            recv = body.term_operand(t["a"][0])
            obj = _transport_object(recv)
            buf = body.term_operand(t["a"][1]) if len(t["a"]) > 1 else None
            site = "call:%s" % path.split("::")[-1]
            if obj is None or buf is None:
                r.violate(body.name, site, body.where(bi),
                          "cannot identify sending transport/buffer of egress call (receiver %s)" % mir.show(recv, 120))
                continue

            def guard(term, meaning, body, sbi, tgt, obj=obj, buf=buf):
                if term == ("field", obj, "srtp_required") and meaning is False:
                    return True
                res = _success_meaning(term, meaning)
                if res is not None:
                    for pc in _protect_calls_in(res):
                        outbuf = pc[2][-1]
                        sess_ok = mir.has(pc[2][0], lambda x: x == ("field", obj, "srtp_session"))
                        if sess_ok and _same_buffer(body, outbuf, buf):
                            return True
                return False

            g = core.guard_edges(body, guard)
            path_ = core.k1(body, [bi], g)[bi]
            if path_ is None:
                r.ok({"site": "%s %s" % (body.where(bi), site), "function": body.name,
                      "guard_edges": ["%s->bb%d" % (body.where(a), b) for a, b in g]})
            else:
                r.violate(body.name, site, body.where(bi),
                          "egress reachable without protect(Ok)-on-this-buffer or srtp_required==false of the sender",
                          core.describe_path(body, path_))
    r.need("IceConn egress calls in transports::rtp", n, 6)
    return r


DELIVERY = ("RtpTransport::fire_ingress", "RtpTransport::try_bridge_rewrite_rtp", "transports::rtp::try_send_dropping",
            "transports::rtp::try_send_with_fallback", "rtp::parse_rtcp_packets")


def r14_2(ctx):
    r = RuleResult("R14.2", "K1", "ingress delivery only after unprotect(Ok) or srtp_required==false")
    name = "<transports::rtp::RtpTransport as transports::PacketReceiver>::receive"
    n = 0
    for body in ctx.family(name):
        sites = core.calls_to(body, suffix(*DELIVERY))
        # any send on a tokio channel inside receive is a delivery site too
        sites += [s for s in core.calls_to(body, lambda p: "mpsc" in p and (p.endswith("::try_send") or p.endswith("::send")))]
        if not sites:
            continue
        r.scope.append(body.name)

        def guard(term, meaning, body, sbi, tgt):
            fp = mir.field_path(term)
            if fp == "self.srtp_required" and meaning is False:
                return True
            res = _success_meaning(term, meaning)
            if res is not None and mir.has(res, lambda x: x[0] == "call" and x[1] in UNPROTECT):
                return True
            return False

        g = core.guard_edges(body, guard)
        for bi, t, path in sites:
            n += 1
            site = "call:%s" % path.split("::")[-1]
            if body.is_closure and body.name != name + "::{closure#0}":
                r.violate(body.name, site, body.where(bi), "delivery site inside a nested closure is not analysed")
                continue
            p = core.k1(body, [bi], g)[bi]
            if p is None:
                r.ok({"site": "%s %s" % (body.where(bi), site)})
            else:
                r.violate(body.name, site, body.where(bi),
                          "delivery reachable without unprotect(Ok) or srtp_required==false", core.describe_path(body, p))
    r.need("delivery sites in RtpTransport::receive", n, 5)
    return r


ALLOWED_EGRESS_CALLERS = ("transports::rtp::", "transports::dtls::", "transports::ice::conn::IceConn::", "t38::")


def r14_3(ctx):
    r = RuleResult("R14.3", "K3", "IceConn egress methods are called only from rtp/dtls transports")
    n = 0
    for body in ctx.facts.all_bodies():
        for bi, t, path in core.calls_to(body, suffix(*EGRESS)):
            if "transports::ice::conn::IceConn::" not in path:
                continue
            n += 1
            nm = body.name
            if nm.startswith("<"):
                nm = nm[1:]
            if any(nm.startswith(a) for a in ALLOWED_EGRESS_CALLERS):
                r.ok()
            else:
                r.violate(body.name, "call:%s" % path.split("::")[-1], body.where(bi),
                          "IceConn egress called outside the SRTP-gated transports")
    r.need("IceConn egress call sites", n, 16)
    return r


def _find_callers(ctx, target_suffix):
    out = []
    for body in ctx.facts.all_bodies():
        for bi, t, path in core.calls_to(body, suffix(target_suffix)):
            out.append((body, bi, t))
    return out


def _mode_is_rtp_guard(term, meaning, *_):
    """edge on which `transport_mode == TransportMode::Rtp` holds"""
    def is_mode_cmp(x):
        return x[0] == "call" and "PartialEq" in x[1] and x[1].endswith("::eq") or \
            x[0] == "call" and x[1].endswith("::ne")
    if term[0] == "call" and "PartialEq" in term[1] and len(term[2]) == 2:
        a, b = term[2]
        if mir.has_field(a, "transport_mode") or mir.has_field(b, "transport_mode"):
            other = b if mir.has_field(a, "transport_mode") else a
            is_rtp = mir.has(other, lambda x: x[0] == "agg" and x[1].endswith("TransportMode") and x[2] == "Rtp")
            if is_rtp:
                if term[1].endswith("::eq") and meaning is True:
                    return True
                if term[1].endswith("::ne") and meaning is False:
                    return True
    return False


def r14_4(ctx):
    r = RuleResult("R14.4", "K4+K1", "srtp_required wiring at RtpTransport construction; start_srtp callers")
    ctors = [c for c in _find_callers(ctx, "RtpTransport::new_with_ssrc_change") + _find_callers(ctx, "RtpTransport::new")
             if not c[0].name.startswith("transports::rtp::RtpTransport::new")]
    r.need("RtpTransport construction sites", len(ctors), 2)
    for body, bi, t in ctors:
        r.scope.append(body.name)
        arg = body.term_operand(t["a"][1])
        site = "ctor:srtp_required"
        if arg[0] == "call" and "PartialEq" in arg[1] and arg[1].endswith("::ne") and mir.has_field(arg, "transport_mode") \
                and mir.has(arg, lambda x: x[0] == "agg" and x[1].endswith("TransportMode") and x[2] == "Rtp"):
            r.ok({"site": body.where(bi), "srtp_required": mir.show(arg, 160)})
        elif arg[0] == "const" and arg[1] == 0:
            # constant false: every call chain into this function must be cut by transport_mode == Rtp
            fn = body.parent if body.is_closure else body.name
            bad = _unguarded_chain(ctx, fn, depth=0, seen=set())
            if bad is None:
                r.ok({"site": body.where(bi), "srtp_required": "false; all call chains cut by transport_mode == Rtp"})
            else:
                r.violate(body.name, site, body.where(bi),
                          "RtpTransport built with srtp_required=false reachable without a `transport_mode == Rtp` guard", bad)
        else:
            r.violate(body.name, site, body.where(bi), "srtp_required argument is neither `transport_mode != Rtp` nor guarded false: %s" % mir.show(arg, 200))
    # start_srtp callers
    allowed = ("peer_connection::PeerConnection::setup_sdes", "peer_connection::PeerConnection::setup_srtp")
    callers = _find_callers(ctx, "RtpTransport::start_srtp")
    r.need("start_srtp call sites", len(callers), 2)
    for body, bi, t in callers:
        base = body.name.split("::{closure")[0]
        if base in allowed:
            # the session passed must come from a successful SrtpSession::new (Ok/Continue edge)
            sess = body.term_operand(t["a"][1])
            okflow = mir.has(sess, lambda x: x[0] == "call" and x[1].endswith("SrtpSession::new"))
            if okflow:
                r.ok({"site": body.where(bi), "session": mir.show(sess, 160)})
            else:
                r.violate(body.name, "call:start_srtp", body.where(bi), "session argument does not flow from SrtpSession::new: %s" % mir.show(sess, 200))
        else:
            r.violate(body.name, "call:start_srtp", body.where(bi), "start_srtp called outside setup_sdes/setup_srtp")
    return r


def _unguarded_chain(ctx, fn, depth, seen):
    """returns a description of a call chain into fn not cut by transport_mode==Rtp within 3 levels, else None"""
    if fn in seen:
        return None
    seen = seen | {fn}
    callers = []
    short = fn.split("::")[-1]
    for body in ctx.facts.all_bodies():
        for bi, t, path in body.calls():
            if path == fn:
                callers.append((body, bi))
    if not callers:
        return "public entry %s has no in-crate caller and no guard" % fn if depth else "no caller found for %s" % fn
    for body, bi in callers:
        g = core.guard_edges(body, _mode_is_rtp_guard)
        p = core.k1(body, [bi], g)[bi]
        if p is None:
            continue
        if depth >= 3:
            return "chain deeper than 3 levels without guard at %s" % body.where(bi)
        up = body.parent if body.is_closure else body.name
        # closures nested deeper: climb to the defining fn
        while "::{closure" in up:
            up = up.rsplit("::{closure", 1)[0]
        sub = _unguarded_chain(ctx, up, depth + 1, seen)
        if sub is not None:
            return "%s (call at %s) <- %s" % (short, body.where(bi), sub)
    return None


CIPHER_CALLS = ("apply_keystream", "encrypt_in_place_detached", "decrypt_in_place_detached", "::encrypt", "::decrypt", "cipher_rtcp")
ENCRYPTING = {"Aes128Sha1_80", "Aes128Sha1_32", "AeadAes128Gcm"}


class _ProfileEval:
    """reachability under the assumption `self._profile == V`: discriminant tests of the profile take only the edge for V,
    bool values computed from the profile (a `matches!` local, `!x`, a crate predicate called on the profile) are
    evaluated, everything else is followed both ways."""

    def __init__(self, facts):
        self.facts = facts

    def _is_profile(self, t):
        return (t[0] == "field" and t[2] == "_profile") or t == ("arg", "self") and False

    def _edge_ok(self, meaning, v):
        if isinstance(meaning, str):
            return meaning == v
        if isinstance(meaning, tuple) and meaning and meaning[0] == "not":
            return v not in meaning[1]
        return True

    def value(self, b, t, v, profile_pred, depth=0):
        """True / False / None for a bool term under profile v"""
        if depth > 6:
            return None
        iv = mir.int_value(t)
        if iv in (0, 1) and t[0] in ("const",):
            return bool(iv)
        if t[0] == "un" and t[1] == "Not":
            x = self.value(b, t[2], v, profile_pred, depth + 1)
            return None if x is None else (not x)
        if t[0] == "var" and len(t) > 2:
            reach = self.reach(b, v, profile_pred)
            vals = set()
            for d in b.defs().get(t[2], []):
                if d[1] in reach:
                    vals.add(self.value(b, b._term_def(d, 0, (t[2],)), v, profile_pred, depth + 1))
            return vals.pop() if len(vals) == 1 else None
        if t[0] == "call" and self.facts.has_body(t[1]) and t[2] and profile_pred(t[2][0]):
            cb = self.facts.body(t[1])
            pp = lambda x: x == ("arg", "self") or (x[0] == "deref" and x[1] == ("arg", "self"))
            reach = self.reach(cb, v, pp)
            vals = set()
            for d in cb.defs().get(0, []):
                if d[1] in reach:
                    vals.add(self.value(cb, cb._term_def(d, 0, (0,)), v, pp, depth + 1))
            return vals.pop() if len(vals) == 1 else None
        return None

    def reach(self, b, v, profile_pred):
        seen, stack = set(), [0]
        while stack:
            bi = stack.pop()
            if bi in seen or bi in b.cleanup:
                continue
            seen.add(bi)
            blk = b.blocks[bi]
            if blk["t"]["k"] == "switch":
                term, outs = b.switch_info(bi)
                if term[0] == "discr" and profile_pred(term[1]):
                    stack += [tgt for tgt, _, m in outs if self._edge_ok(m, v)]
                    continue
                if not (term[0] == "discr"):
                    # careful: evaluating a var needs reach() of the same body: only for non-discriminant bools, and the
                    # recursion is bounded because value() is called on smaller terms
                    pass
                stack += [tgt for tgt, _, _ in outs]
            else:
                stack += [tgt for tgt, _ in b.succ_edges(bi)]
        return seen

    def reach_full(self, b, v, profile_pred):
        """second pass: also prune bool switches whose value under v is known"""
        base = self.reach(b, v, profile_pred)
        seen, stack = set(), [0]
        while stack:
            bi = stack.pop()
            if bi in seen or bi in b.cleanup:
                continue
            seen.add(bi)
            blk = b.blocks[bi]
            if blk["t"]["k"] == "switch":
                term, outs = b.switch_info(bi)
                if term[0] == "discr" and profile_pred(term[1]):
                    stack += [tgt for tgt, _, m in outs if self._edge_ok(m, v)]
                    continue
                val = self.value(b, term, v, profile_pred) if term[0] != "discr" else None
                if val is None:
                    stack += [tgt for tgt, _, _ in outs]
                else:
                    stack += [tgt for tgt, _, m in outs if m is val]
            else:
                stack += [tgt for tgt, _ in b.succ_edges(bi)]
        return seen & base | (seen - base)


def r14_5(ctx):
    """'never send cleartext': being inside protect() is not enough - protect() must encrypt. SrtpContext::protect /
    unprotect (and the RTCP pair) transform the payload for every negotiable profile; the only profile that leaves the
    payload as it is is the explicit NullCipherHmac (never negotiated: R14.4 / the profile tables). A rewritten
    predicate that forgets a profile (a positive list without Aes128Sha1_32) sends that profile's media in clear
    with a valid authentication tag, and rustrtc-to-rustrtc calls keep working."""
    r = RuleResult("R14.5", "K6/eval", "protect / unprotect apply the cipher for every profile except NullCipherHmac")
    ev = _ProfileEval(ctx.facts)
    pp = lambda x: x[0] == "field" and x[2] == "_profile"
    adt = [a for n, a in ctx.facts.adts.items() if n.endswith("srtp::SrtpProfile")]
    if not adt:
        raise core.CheckerError("R14.5: SrtpProfile not found")
    variants = [v["name"] for v in adt[0]["variants"]]
    n = 0
    for fn in ("srtp::SrtpContext::protect", "srtp::SrtpContext::unprotect", "srtp::SrtpContext::protect_rtcp", "srtp::SrtpContext::unprotect_rtcp"):
        b = ctx.body(fn)
        r.scope.append(fn)
        cipher = [bi for bi, t, p in b.calls() if p and p.endswith(CIPHER_CALLS) and bi not in b.cleanup]
        if not cipher:
            raise core.CheckerError("R14.5: no cipher call found in %s" % fn)
        for v in variants:
            if v not in ENCRYPTING:
                continue
            n += 1
            reach = ev.reach_full(b, v, pp)
            if any(c in reach for c in cipher):
                r.ok({"function": fn.split("::")[-1], "profile": v, "cipher": "applied"} if n <= 16 else None)
            else:
                r.violate(fn, "cipher:%s" % v, b.where(cipher[0]),
                          "with profile %s no cipher call is reachable in %s: the payload goes out (comes in) as it is, under a valid "
                          "authentication tag" % (v, fn.split("::")[-1]))
    r.samples = [x for x in r.samples if x]
    r.need("profile x function combinations", n, 12)
    return r


def r14_6(ctx):
    """the cut-set rules accept `protect_rtcp(..) == Ok` as 'this buffer is now SRTCP'. That is only true if protect_rtcp
    cannot say Ok without having done the work: an SRTCP packet always carries the index word (E bit + 31-bit index) and
    an authentication tag behind the payload, whatever the payload length - an 8-byte RTCP packet (empty receiver report,
    BYE without reason) has nothing to ENCRYPT but everything to AUTHENTICATE. Decided: every Ok return of protect_rtcp
    has passed an append of the index word to the packet, and the index was advanced."""
    r = RuleResult("R14.6", "K4", "protect_rtcp says Ok only for a packet that carries its SRTCP index word and tag")
    fn = "srtp::SrtpContext::protect_rtcp"
    b = ctx.body(fn)
    r.scope.append(fn)
    appends = [bi for bi, t, p in b.calls() if p and p.endswith("::extend_from_slice") and len(t["a"]) > 1 and
               b.term_operand(t["a"][0]) == ("arg", "packet") and mir.has_field(b.term_operand(t["a"][1]), "rtcp_index")]
    r.need("index-word appends in protect_rtcp", len(appends), 2)
    oks = core.ok_return_blocks(b)
    r.need("Ok returns of protect_rtcp", len(oks), 1)
    for ob in oks:
        if core.must_pass(b, ob, appends):
            r.ok({"return": b.where(ob), "after": "index word appended to the packet"})
        else:
            path = b.path_to([0], ob, cut_blocks=set(appends))
            r.violate(fn, "ok:unprotected", b.where(ob),
                      "protect_rtcp can return Ok without having appended the SRTCP index word (and tag): the callers put the untouched RTCP "
                      "packet on the wire of an SRTP-mandatory transport", core.describe_path(b, path) if path else "")
    return r


def r14_7(ctx):
    """'Inbound cleartext or unauthenticated RTP/RTCP is never delivered': the cut-set rules accept `unprotect(..) == Ok` as
    'this datagram was authenticated'. For the HMAC profiles that rests on the tag comparator: if some bytes of the tag
    are never compared - or, for the 4-byte tag of the SHA1_32 profile, none at all - every datagram authenticates and
    cleartext is decrypted and delivered. This is rule R05.6 of C05 (same function, same obligations: every view of one
    operand is paired with the same view of the other, and the views cover the operands for every length), claimed here
    for the inbound clause of C14."""
    r = RuleResult("R14.7", "K6", "the SRTP/SRTCP tag comparison covers the whole tag, for every tag length")
    from rules import c05
    rr = c05.r05_6(ctx)
    r.scope = rr.scope
    r.obligations, r.discharged = rr.obligations, rr.discharged
    r.sites, r.floor = rr.sites, rr.floor
    r.samples = rr.samples
    for v in rr.violations:
        r.violate(v.fn, v.site, v.where, v.msg, v.path)
        r.obligations -= 1
    return r


def r14_8(ctx):
    """'Inbound ... unauthenticated RTP/RTCP is never delivered': R14.2 shows delivery only behind `unprotect*(..) == Ok`;
    this is the other half - `Ok` is returned only past an authentication edge (tag comparison true, or the AEAD open's Ok
    edge), for every profile branch of SrtpContext::unprotect and unprotect_rtcp. An E-flag special case in the GCM SRTCP
    branch that skips the AEAD open skips the only authentication that profile has. This is rule R05.2 of C05 (same
    functions, same obligations), claimed here for the inbound clause of C14."""
    r = RuleResult("R14.8", "K1", "unprotect / unprotect_rtcp return Ok only past an authentication edge")
    from rules import c05
    rr = c05.r05_2(ctx)
    r.scope = rr.scope
    r.obligations, r.discharged = rr.obligations, rr.discharged
    r.sites, r.floor = rr.sites, rr.floor
    r.samples = rr.samples
    for v in rr.violations:
        r.violate(v.fn, v.site, v.where, v.msg, v.path)
        r.obligations -= 1
    return r


def r14_9(ctx):
    """'every RTP and RTCP datagram emitted - by normal send, raw send ... - is SRTP/SRTCP-protected under the session keys':
    protected means protected with the transform of its kind. RtpTransport::send takes a raw buffer of either kind; it
    used to parse whatever it got as RTP and run the SRTP (RTP) transform. For an RTCP buffer that leaves the first 12+
    bytes (reportee SSRC, loss counters) in the clear, uses the constant length field / reportee SSRC as packet index
    (two reports share one keystream) and yields something the peer's SRTCP unprotect rejects. Decided: in
    RtpTransport::send the protect_rtp call is on the `is_rtcp(buf) == false` edge, and a protect_rtcp call exists on the
    other one (that each egress follows a successful protect of the sent buffer is R14.1)."""
    r = RuleResult("R14.9", "K1", "raw send picks the transform by the kind of the buffer (SRTP for RTP, SRTCP for RTCP)")
    b = ctx.body("transports::rtp::RtpTransport::send::{closure#0}")
    r.scope.append(b.name)
    prtp = [bi for bi, t, p in b.calls() if p and p.endswith("::protect_rtp")]
    prtcp = [bi for bi, t, p in b.calls() if p and p.endswith("::protect_rtcp")]
    r.need("protect_rtp calls in RtpTransport::send", len(prtp), 1)

    def kind_edge(want):
        def pred(term, meaning, *_):
            t, neg = term, False
            while t[0] == "un" and t[1] == "Not":
                t, neg = t[2], not neg
            if t[0] == "call" and t[1].endswith("rtp::is_rtcp") and isinstance(meaning, bool):
                return (meaning != neg) is want
            return False
        return pred
    g_rtp = core.guard_edges(b, kind_edge(False))
    g_rtcp = core.guard_edges(b, kind_edge(True))
    for bi in prtp:
        if g_rtp and core.k1(b, [bi], g_rtp)[bi] is None:
            r.ok({"site": b.where(bi), "protect_rtp": "only for buffers that are not RTCP"})
        else:
            r.violate(b.name, "raw-send:rtcp-through-rtp-transform", b.where(bi),
                      "send() runs the RTP transform on whatever buffer it is given: a raw RTCP packet leaves with its report body's first "
                      "bytes in the clear and under a keystream shared between reports; the peer cannot open it as SRTCP")
    if prtcp and g_rtcp and all(core.k1(b, [bi], g_rtcp)[bi] is None for bi in prtcp):
        r.ok({"site": b.where(prtcp[0]), "protect_rtcp": "for buffers classified as RTCP"})
    else:
        r.violate(b.name, "raw-send:no-srtcp-path", b.where(0), "send() has no SRTCP path for a raw RTCP buffer")
    return r


def r14_10(ctx):
    """'protected under the session keys': an SrtpSession holds two keying materials - what WE protect with (tx) and what the
    peer protects with (rx). A transmit context derived from the receive keying (one wrong argument in a shared helper)
    still protects, under the wrong key; the peer cannot authenticate it - and since RTP and RTCP of one SSRC share the
    context, whichever packet kind comes first decides for both. Decided: protect_rtp / protect_rtcp (and what they hand to
    helpers) mention tx_keying and never rx_keying; unprotect_rtp / unprotect_rtcp the other way round."""
    r = RuleResult("R14.10", "K6", "transmit contexts are derived from the transmit keying, receive contexts from the receive keying")
    n = 0
    for fn, good, wrong in (("protect_rtp", "tx_keying", "rx_keying"), ("protect_rtcp", "tx_keying", "rx_keying"),
                            ("unprotect_rtp", "rx_keying", "tx_keying"), ("unprotect_rtcp", "rx_keying", "tx_keying")):
        name = "srtp::SrtpSession::" + fn
        fam = [nb for nb in ctx.facts.all_bodies() if nb.name == name or nb.name.startswith(name + "::{closure")]
        if not fam:
            raise core.CheckerError("R14.10: %s not found" % name)
        r.scope.append(name)
        uses = {good: [], wrong: []}
        for nb in fam:
            for bi, t, p in nb.calls():
                tc = nb.term_call(t)
                for f in (good, wrong):
                    if mir.has_field(tc, f):
                        uses[f].append(nb.where(bi))
            for bi, si, st in nb.assigns():
                for f in (good, wrong):
                    if mir.has_field(nb.term_rvalue(st["rv"]), f):
                        uses[f].append(nb.where(bi, si))
        n += 1
        if uses[wrong]:
            r.violate(name, "keying:%s" % wrong, uses[wrong][0],
                      "%s derives a context from %s: the packets are protected / opened under the other direction's key" % (fn, wrong))
        elif uses[good]:
            r.ok({"function": fn, "keying": good})
        else:
            r.violate(name, "keying:none", ctx.facts.body(name).where(0), "%s no longer names the keying material it derives contexts from" % fn)
    r.need("SrtpSession protect / unprotect functions", n, 4)
    return r


def run(ctx):
    return [r14_1(ctx), r14_2(ctx), r14_3(ctx), r14_4(ctx), r14_5(ctx), r14_6(ctx), r14_7(ctx), r14_8(ctx), r14_9(ctx), r14_10(ctx)]
