#!/usr/bin/env python3
"""Run checks against a scratch copy of /repo with one edit applied.
usage: tools/mut.py [--patch file.diff | --file F --find S --replace R [--count N]] -- C14 C05 ...
The scratch copy lives under $TMPDIR and is removed afterwards."""
import os, shutil, subprocess, sys, tempfile
VERIF = os.path.dirname(os.path.dirname(os.path.abspath(__file__)))

def make_scratch(repo="/repo"):
    d = tempfile.mkdtemp(prefix="vmut.")
    shutil.copytree(os.path.join(repo, "src"), os.path.join(d, "src"))
    for f in ("Cargo.toml", "Cargo.lock"):
        shutil.copy(os.path.join(repo, f), os.path.join(d, f))
    return d

def main():
    a = sys.argv[1:]
    ids = a[a.index("--") + 1:]
    a = a[:a.index("--")]
    opt = dict(zip(a[::2], a[1::2]))
    d = make_scratch()
    try:
        if "--patch" in opt:
            subprocess.check_call(["git", "apply", "--include=src/*", "--include=Cargo.*", os.path.abspath(opt["--patch"])], cwd=d)
        else:
            p = os.path.join(d, opt["--file"])
            s = open(p).read()
            n = s.count(opt["--find"])
            if n == 0:
                print("MUT: pattern not found"); return 3
            s = s.replace(opt["--find"], opt["--replace"], int(opt.get("--count", "1")))
            open(p, "w").write(s)
        env = dict(os.environ, VERIF_REPO=d, VERIF_EVIDENCE_DIR=os.path.join(d, "evidence"))
        rc = 0
        for i in ids:
            r = subprocess.call([os.path.join(VERIF, "check"), i], env=env)
            print("MUT %s rc=%d" % (i, r)); rc = rc or r
        return rc
    finally:
        shutil.rmtree(d, ignore_errors=True)
sys.exit(main())
