#!/usr/bin/env python3
"""Generate MANIFEST.json from the registry below (kept in one place so the manifest stays valid)."""
import json, os
VERIF = os.path.dirname(os.path.dirname(os.path.abspath(__file__)))

TECH = "static analysis: custom rustc_private MIR fact driver + repository-specific CFG/dataflow rules (cut-set guards, who-may, must-pass pairing, lock-held, table and byte-layout agreement, units, length abstract interpretation)"
NOTE = ("Trusted: rustc's MIR construction, the fact driver's place/field-name resolution, the python CFG/value-graph engine, "
        "the frozen rule tables (one line of reason per exception). Unwind edges and async cancellation are not treated as paths. "
        "Dependencies are opaque. Decides the named structural clauses for every path (hence every input/schedule/history driving "
        "the analysed functions); behaviour over values/histories that is not a function of code shape is explicitly not decided (see DESIGN.md).")

CLAIMED = {
    "C01": ("§4 C01", "Necessary conditions only: dedup-before-deliver cut-set in handle_data; who-may-write the receive point/tags; association set-up must not clobber a live association and answers a retransmitted INIT with the same values; serial-number-arithmetic lint and a units rule keeping own-TSN and peer-TSN values apart; chunks leave the reorder buffer only by serial key; gap ack offsets applied to the SACK's own cumulative ack; the T3 sweep marks, re-times or abandons every outstanding chunk; FORWARD-TSN drains what became in order; the PR-SCTP ack point advances only over abandoned chunks; SSN/fragment lock discipline, nothing can suspend or fail between drawing a stream sequence number and queueing its fragments; INIT-ACK is taken in COOKIE-WAIT only; the PR-SCTP ack point is initialised once and otherwise moves only over acknowledged or abandoned chunks; a FORWARD-TSN the peer has not acknowledged is re-armed by every SACK that is behind it and keeps its stream/SSN pairs. Delivery over arbitrary loss/dup/reorder histories and bounded-time completion are not decided."),
    "C02": ("§4 C02", "Assume/guarantee chain over the DTLS handshake context (Connected => Finished verified => keys after verified key exchange => signature by the fingerprinted certificate => fingerprint from remote SDP), each link a cut-set/who-may rule over all CFG paths; the ServerKeyExchange signature input is the RFC 4492 5.4 byte sequence in verifier and signer; application data is handed up only from records authenticated under the negotiated keys; the server-role gap is reported as a known finding."),
    "C03": ("§4 C03", "Cut-set rules: no upward effect from an unauthenticated record (application data, alerts and, once keys exist, handshake messages); only the sealed buffer is sent, only under Connected, bounded record size; every AEAD seal consumes a fresh sequence number (atomic RMW or counter advanced on every path), the counter being chosen by the hand-over to the write epoch, not by the connection state; the AEAD additional data is built from the record header fields as received (dataflow)."),
    "C05": ("§4 C05", "Cut-set rules: replay/rollover state (incl. writes through &mut borrows and callees), Ok returns and per-SSRC table changes (transitively through session helpers) in the SRTP receive path are reachable only past an authentication-success edge; the SRTCP AEAD input contains the received header, body and index word unmodified; the HMAC tag comparator pairs every byte of one operand with the same byte of the other over their whole (equal) length; transport drops on unprotect error."),
    "C06": ("§4 C06", "Cut-set: every ICE state effect of the inbound Binding-request handlers is cut by the verification-succeeded edge (USERNAME names the local ufrag, MESSAGE-INTEGRITY valid under the local password) or by transport_mode != WebRtc (the inbound-TCP nomination helper by assume/guarantee: every call site cut by verification, not-WebRtc or membership of the stream's peer in the set that only the authenticated path fills); responses are dispatched only on the Some edge of pending_transactions.remove(id) and a binding check succeeds only past id/method/class tests; the mux demultiplexer routes a request that names a ufrag by that ufrag only; the set of message fields the unauthenticated request handlers read is frozen (a new attacker-chosen input to the ICE state is reported); the MESSAGE-INTEGRITY comparison covers all 20 bytes of both operands; no attribute behind MESSAGE-INTEGRITY is interpreted."),
    "C07": ("§4 C07", "Site census with proof-or-table over the network-facing entry points and their whole crate call closure (about 1540 bodies, 1276 potential panic sites): every bounds/overflow/div-by-zero Assert, every call of a modelled panicking std/bytes API and every call of any std/bytes function whose documentation has a '# Panics' section is either PROVEN by a forward length analysis (difference constraints over integer locals and buffer lengths with cursor accounting, slicing, branch refinement, iterator ranges, range-argument ordering and callee preconditions checked at every call site) or listed in a reviewed table with its reason. Every loop in scope makes progress or suspends on every trip (lower bounds from the same analysis, decoder consumption summaries). Every explicit allocation request is sized by a constant, a <= 16-bit value, something linear in existing buffer lengths, or a guarded value. Decides panic-freedom of those sites, per-trip progress of those loops and boundedness of those allocation requests relative to the library model; growth of long-lived tables across packets is not decided."),
    "C09": ("§4 C09", "Table agreement: (SDP type, required state, next state) triples extracted from the CFG of the four JSEP entry points equal the JSEP table; who-may-send on the signaling state; no Ok return of an entry point bypasses the state dispatch; no-effect-before-failure: no feasible CFG path (SDP type and signaling state tracked as correlated predicates, infallible callees pruned by summary) from an effect to an error return. Errors that only propagate a transport start-up failure are listed as not decided."),
    "C11": ("§4 C11", "Necessary conditions of RFC 6347 4.2.4 retransmission: every handshake record sent flows into the stored flight, the stored flight is only ever replaced (never consumed), the retransmit tick re-sends it while Handshaking on every path (no other early return) and the deadline ends in Failed, a duplicate client Finished re-sends the final flight in the server role, a duplicated HelloVerifyRequest is not mistaken for the server's restarted flight, epoch-0 records are never rejected by the record layer, the retransmission tick always re-sends and inbound traffic never resets its interval, in post-HVR mode only a ServerHello re-synchronises the receive sequence, fragments are placed by offset and a first fragment always restarts reassembly; encoder and decoder of record / handshake headers agree on byte positions; client and server copies of the key derivation feed identical PRF calls. Convergence over loss histories and key agreement are not decided."),
    "C12": ("§4 C12", "Open announced only by the call performing Connecting->Open, Close only by the call performing ->Closed, Closed terminal; fragments under one queue guard with B/E flags on the first/last-fragment edges; receiver reassembly discipline (clear on B, append only to a message in progress, deliver the whole buffer on E only, ordered messages through the SSN queue released by next_ssn only); FORWARD-TSN discards the message in progress; only chunks with a partial-reliability policy of their own are abandoned; the DCEP parser is fed complete messages only; stream id picked and channel registered under one lock; id parity from a defaulted DTLS role (known finding); RE-CONFIG parameter values exclude padding; DCEP type table/PPIDs equal RFC 8832 and OPEN marshal/unmarshal agree on byte positions; FORWARD-TSN serial comparison; a negotiated channel created after the association is up is announced Open (after registration). No-merge/no-split over arbitrary loss histories is not decided."),
    "C13": ("§4 C13", "Single wire exit with CRC32c over the finished packet stored little-endian at bytes 8..12; evaluated size constants, the packet-length accumulator and their use in batching/fragmentation; TSNs only from next_tsn.fetch_add(1) under the sent_queue lock; verification-tag argument flow with a 3-entry RFC exception table; dequeue loop bounded by a budget derived from rwnd/cwnd/flight read after the retransmission phase (no stale snapshot); no map-order dependent access to the TSN-keyed sent queue outside a reviewed list; a gap-acked chunk cannot be retransmitted; receive-window credit returned on every removal from the reorder buffer; SACK handling never relates own-space and peer-space TSNs (units rule incl. wire-read values); the peer's advertised window enters the send budget unmodified. Window arithmetic correctness and quiescence are not decided."),
    "C14": ("§4 C14", "Negative property over every path = cut-set: every RTP/RTCP egress is cut by protect(Ok)-on-the-sent-buffer or the sender's srtp_required==false; every ingress delivery by unprotect(Ok) or srtp_required==false; who-may-call IceConn egress; srtp_required wiring at construction; protect / unprotect apply the cipher for every profile except the null cipher (the profile predicates are evaluated per profile)."),
    "C15": ("§4 C15", "Table and layout agreement: RTCP (packet type, FMT) pairs written per variant equal the RFC numbers and the parser dispatch is their inverse; RTP version, header bit masks and header-extension profile ids; parser and marshaller agree on the byte positions of every fixed-offset RTP/RTCP field (27 fields); SDES chunks end with the end-of-list octet; the NACK parser reads all 16 BLP bits; one-byte header-extension packing, RTX wrap/unwrap positions, sign extension of the 24-bit loss counter; element-fits guards of the walkers accept an element ending exactly at the buffer end; NACK code never walks or orders sequence numbers with non-wrapping u16 ranges / comparisons; reserved one-byte extension IDs are applied in the one-byte form only. Inverse laws over all packets are value-level and not decided."),
    "C16": ("§4 C16", "Table agreement, ordering and provenance: STUN method/class bit tables and attribute type codes of encoder and decoder agree with each other and with RFC 5389/5766/IANA; magic cookie / FINGERPRINT constants; padding on every append path; MESSAGE-INTEGRITY before FINGERPRINT, each computed over (current length - 20) + 24 / + 8; the cached TURN long-term key is recomputed after every change of username/realm/password; candidate and pair priority formulas have the RFC 8445/6544 shape and constants; attribute walkers accept a last attribute that ends exactly at the message end; hmac_sha1 keys the MAC with the whole key through the variable-length constructor; text attributes are written whole. XOR algebra, HMAC/CRC values and candidate round trips are not decided."),
    "C17": ("§4 C17", "Spawn census (every JoinHandle flows into track_task / LoopsGuard / the caller, or the detached task is in a reviewed table with a machine-checked termination witness), close-path completeness derived from the transport-typed fields of PeerConnectionInner, cleanup guard armed before the first await and alive at every later one, IceTransport::stop releases every socket/listener/TURN/registration holder on every path, connection tasks hold the PeerConnection only weakly while they wait in a loop, close and the run-loop cleanup guard wake parked senders and waiters re-test Closed, the DTLS handshake loop never ends without publishing a terminal state, the state close() tests as its 'already closed' flag is set to Closed by the teardown only, close publishes gathering = Complete unconditionally, PeerConnection::recv() watches the closed state next to its event channel, close() ends every registered data channel with Close sent only by the call that made the transition, every chunk type by which the peer ends the SCTP association (ABORT, SHUTDOWN ACK, SHUTDOWN COMPLETE) closes ours with a reason, the monitoring task publishes a state when the transport loops end on their own, and close() itself aborts the tracked tasks and gives every connection-owned detached loop of the table its stop signal. Bounded time, descriptor counts and racing terminating events are not decided."),
    "C18": ("§4 C18", "Who-may-write the latch state plus cut-set rules for stickiness and legitimacy (each destination write cut separately by unlatched / expected-SSRC / not-RTCP / latching-enabled) for all packet histories; a reset discards every undecided probation observation; the latch is set only when the destination provably equals the selected source (stale-snapshot dataflow), and it IS set on every path that accepts a packet with no probation pending or names a probation winner, an exhausted probation window always names one, and a newly known expected SSRC discards the candidates recorded under another one. Rule precedence among candidates is not decided."),
    "C19": ("§4 C19", "State discipline of RewriteBridge::rewrite_packet that stream continuity rests on (stable per-source output SSRC keyed by the source SSRC read before the rewrite, sequence counter advanced by exactly one per packet, timestamp offset changed only at discontinuities), single delivery in RtpTransport::receive, demux stages tried in the order RID, MID, SSRC, unique PT, provisional with fall-through, payload-type lists replaced on re-registration, route pruning removes closed receivers only. Wraparound arithmetic is not decided."),
    "C20": ("§4 C20", "Ownership/lock discipline of the SPSC ring: every push under one producer lock and every pop under one consumer lock that is the same instance for all handle types sharing the ring (guard-liveness dataflow), atomic ordering table, occupancy decided on the free-running counters only, Send/Sync bounds, sender accounting, end-of-stream only after a closed flag read BEFORE the emptiness observation, waiter registered before the last closed check."),
}

NOT_APPLICABLE = {
    "C04": "round-trip equality, interop with another SRTP implementation and rollover estimation over all sequence pairs are statements about computed values (keystreams, MACs, 48-bit indices); no CFG-shape/ownership fact implies them and checking them means executing the code (different technique family).",
    "C08": "validity of a generated answer is a relation between the contents of two SDP documents and a configuration, computed by data-dependent loops over attribute strings; no structural necessary condition survives a behaviour-preserving rewrite.",
    "C10": "'every compatible configuration pair connects within timeouts' is end-to-end liveness across two processes, sockets and timers; not a function of code shape.",
}

PENDING = {}


def main():
    props = [json.loads(l) for l in open(os.path.join(VERIF, "properties.jsonl"))]
    checks = []
    for p in props:
        pid = p["id"]
        if pid in CLAIMED:
            ref, text = CLAIMED[pid]
            checks.append({
                "property_id": pid,
                "quick_cmd": "./check %s --tier quick" % pid,
                "thorough_cmd": "./check %s --tier thorough" % pid,
                "evidence_file": "/verif/evidence/%s.json" % pid,
                "replay_cmd_template": "./check %s --replay {path}" % pid,
                "engine": "mirfacts",
                "level_claimed": {"category": "other", "text": text, "design_ref": ref},
                "level_note": NOTE,
                "technique": TECH,
            })
    na = []
    for p in props:
        pid = p["id"]
        if pid in CLAIMED:
            continue
        reason = NOT_APPLICABLE.get(pid) or PENDING.get(pid)
        if reason is None:
            reason = "no static rule built yet for this property in the committed state; not claimed (work in progress, see DESIGN.md §9)"
        na.append({"property_id": pid, "reason": reason})
    m = {
        "version": 1,
        "setup_cmd": "cd /verif/driver && cargo build --release --offline && cd /verif && python3 engine/factsrun.py default",
        "hooks": {
            "guard": "rustrtc_verif",
            "enable": "no hooks are needed: the checks read the compiler's MIR of the unmodified sources (cargo +nightly check with the fact driver as RUSTC_WORKSPACE_WRAPPER)",
            "baseline_off_cmd": "cd /repo && cargo nextest run --workspace --no-fail-fast --tool-config-file pb:/w/lib/nextest.toml --profile pb --test-threads 8 --offline",
            "source_commits": [],
            "add_only": True,
        },
        "engines": [{
            "name": "mirfacts",
            "path": "/verif/driver (rustc_private fact dump) + /verif/engine (python3 CFG/value graph/rule kinds) + /verif/rules (per-property rules)",
            "serves_properties": sorted(CLAIMED),
            "kind_free_text": "static analysis over type-checked MIR; no execution of the code under analysis",
        }],
        "checks": checks,
        "not_applicable": na,
        "notes": "Fixes of genuine defects found by the checks are separate 'fix:' commits in /repo, listed in /verif/KNOWN_FINDINGS.txt. Exit codes: 0 held (KNOWN-FINDING lines for listed findings), 1 VIOLATION, 2 CHECKER-ERROR (anchor missing / build failed; fail closed).",
    }
    with open(os.path.join(VERIF, "MANIFEST.json"), "w") as fh:
        json.dump(m, fh, indent=1)
    print("MANIFEST.json: %d checks, %d not_applicable" % (len(checks), len(na)))

main()
