import json,sys,subprocess,os
"""usage: addvar.py batch.json  -> tests each variant via tools/mut.py, appends the ones that fire the expected rule"""
vp='/verif/selfcheck/variants.json'
vs=json.load(open(vp))
ids={v['id'] for v in vs}
batch=json.load(open(sys.argv[1]))
for b in batch:
    if b['id'] in ids: print("dup",b['id']); continue
    src=open('/repo/'+b['file']).read()
    if src.count(b['find'])<1: print("NOTFOUND",b['id']); continue
    p=subprocess.run(['/verif/tools/mut.py','--file',b['file'],'--find',b['find'],'--replace',b['replace'],'--',b['property']],capture_output=True,text=True)
    out=p.stdout+p.stderr
    fired=('['+b['expect_rule']+'|') in out
    viol=[l for l in out.splitlines() if '[R' in l][:4]
    print(b['id'],'rc=',p.returncode,'FIRED' if fired else 'MISSED', 'count=',src.count(b['find']))
    for l in viol: print('    ',l[:220])
    if not fired:
        print('\n'.join(out.splitlines()[-6:]))
    else:
        vs.append(b)
json.dump(vs,open(vp,'w'),indent=1)
