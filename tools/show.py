#!/usr/bin/env python3
"""debug helper: print the CFG of a body with value-graph terms.
usage: tools/show.py <def-path-substring> [--all] [--macro]"""
import sys, os
sys.path.insert(0, os.path.join(os.path.dirname(os.path.abspath(__file__)), ".."))
from engine import factsrun, mir

def main():
    pat = sys.argv[1]
    show_macro = "--macro" in sys.argv
    path, key, info = factsrun.ensure_facts("default")
    F = mir.Facts(path)
    names = [n for n in F.order if pat in n]
    if "--list" in sys.argv:
        for n in names: print(n)
        return
    exact = [n for n in names if n == pat]
    if exact and "--all" not in sys.argv: names = exact
    for n in names:
        b = F.body(n)
        print("=" * 100)
        print(n, b.file, b.line, "parent=", b.parent, "coroutine=", b.coroutine, "blocks=", len(b.blocks))
        for bi, blk in enumerate(b.blocks):
            if bi in b.cleanup: continue
            t = blk["t"]
            x = t["sp"]["x"]
            if x.startswith("m:") and not show_macro and t["k"] not in ("switch",):
                # still print succ
                print("  bb%d [%s L%d] -> %s" % (bi, x, t["sp"]["l"], [s for s, _ in b.succ_edges(bi)]))
                continue
            print("  bb%d L%d %s" % (bi, t["sp"]["l"], x))
            for si, s in enumerate(blk["s"]):
                if s["k"] == "as":
                    if "p" in s["p"] or b.locals[s["p"]["l"]].get("u"):
                        print("      %s = %s" % (mir.show(b.term_place(s["p"])) if "p" in s["p"] else b.local_name(s["p"]["l"]), mir.show(b.term_rvalue(s["rv"]))))
            k = t["k"]
            if k == "call":
                print("      CALL %s -> _%s%s  to bb%s   [%s]" % (mir.show(b.term_call(t)), t["dst"]["l"], "(proj)" if "p" in t["dst"] else "", t["to"], t.get("src")))
            elif k == "switch":
                term, outs = b.switch_info(bi)
                print("      SWITCH %s : %s" % (mir.show(term), ", ".join("%s->bb%d" % (m, tgt) for tgt, _, m in outs)))
            elif k == "assert":
                print("      ASSERT %s %s -> bb%d [%s]" % (t["mk"], mir.show(b.term_operand(t["c"])), t["to"], t.get("src")))
            elif k == "drop":
                print("      DROP %s -> bb%d" % (mir.show(b.term_place(t["p"])), t["to"]))
            elif k == "yield":
                print("      YIELD -> bb%d" % t["to"])
            else:
                print("      %s %s" % (k.upper(), t.get("to", "")))
main()
