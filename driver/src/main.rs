// rtcfacts: rustc_private driver that dumps type-checked MIR facts of the crate
// under analysis as JSON lines.  Used as RUSTC_WORKSPACE_WRAPPER (argv[1] is the
// real rustc and is dropped).  Output file: $VERIF_FACTS_OUT (written only for
// the crate named $VERIF_CRATE, default "rustrtc", lib target).
#![feature(rustc_private)]
#![allow(clippy::all)]

extern crate rustc_abi;
extern crate rustc_data_structures;
extern crate rustc_driver;
extern crate rustc_hir;
extern crate rustc_interface;
extern crate rustc_middle;
extern crate rustc_span;

use rustc_driver::{Callbacks, Compilation};
use rustc_hir::def::DefKind;
use rustc_hir::def_id::{DefId, LocalDefId};
use rustc_interface::interface::Compiler;
use rustc_middle::mir::*;
use rustc_middle::ty::{self, Ty, TyCtxt, TypingEnv};
use rustc_span::Span;
use std::fmt::Write as _;
use std::io::Write as _;

fn esc(s: &str) -> String {
    let mut o = String::with_capacity(s.len() + 2);
    o.push('"');
    for c in s.chars() {
        match c {
            '"' => o.push_str("\\\""),
            '\\' => o.push_str("\\\\"),
            '\n' => o.push_str("\\n"),
            '\r' => o.push_str("\\r"),
            '\t' => o.push_str("\\t"),
            c if (c as u32) < 0x20 => {
                let _ = write!(o, "\\u{:04x}", c as u32);
            }
            c => o.push(c),
        }
    }
    o.push('"');
    o
}

fn trunc(s: &str, n: usize) -> String {
    if s.len() <= n {
        return s.to_string();
    }
    let mut end = n;
    while !s.is_char_boundary(end) {
        end -= 1;
    }
    format!("{}…", &s[..end])
}

struct Cx<'tcx> {
    tcx: TyCtxt<'tcx>,
}

impl<'tcx> Cx<'tcx> {
    fn span_json(&self, sp: Span) -> String {
        // position of the outermost call site (so macro bodies map to user code)
        let sm = self.tcx.sess.source_map();
        let cs = sp.source_callsite();
        let lo = sm.lookup_char_pos(cs.lo());
        let file = match &lo.file.name {
            rustc_span::FileName::Real(r) => match r.local_path() {
                Some(p) => p.to_string_lossy().to_string(),
                None => format!("{:?}", r),
            },
            other => format!("{:?}", other),
        };
        let exp = if sp.from_expansion() {
            let d = sp.ctxt().outer_expn_data();
            match d.kind {
                rustc_span::ExpnKind::Macro(_, name) => format!("m:{}", name),
                rustc_span::ExpnKind::Desugaring(k) => format!("d:{:?}", k),
                rustc_span::ExpnKind::AstPass(k) => format!("a:{:?}", k),
                rustc_span::ExpnKind::Root => "root".to_string(),
            }
        } else {
            String::new()
        };
        format!(
            "{{\"f\":{},\"l\":{},\"c\":{},\"x\":{}}}",
            esc(&file),
            lo.line,
            lo.col.0 + 1,
            esc(&exp)
        )
    }

    fn snippet(&self, sp: Span) -> String {
        let sm = self.tcx.sess.source_map();
        match sm.span_to_snippet(sp) {
            Ok(s) => {
                let one: String = s.split_whitespace().collect::<Vec<_>>().join(" ");
                trunc(&one, 200)
            }
            Err(_) => String::new(),
        }
    }

    fn ty_str(&self, t: Ty<'tcx>) -> String {
        trunc(&format!("{}", t), 300)
    }

    fn field_name(&self, pty: rustc_middle::mir::PlaceTy<'tcx>, f: rustc_abi::FieldIdx) -> String {
        match pty.ty.kind() {
            ty::Adt(def, _) => {
                let v = match pty.variant_index {
                    Some(v) => v,
                    None => rustc_abi::FIRST_VARIANT,
                };
                if def.is_enum() && pty.variant_index.is_none() {
                    return format!("{}", f.as_usize());
                }
                let var = def.variant(v);
                match var.fields.get(f) {
                    Some(fd) => fd.name.to_string(),
                    None => format!("{}", f.as_usize()),
                }
            }
            ty::Closure(def_id, _) | ty::Coroutine(def_id, _) | ty::CoroutineClosure(def_id, _) => {
                let names = self.tcx.closure_saved_names_of_captured_variables(*def_id);
                match names.get(f) {
                    Some(n) => n.to_string(),
                    None => format!("{}", f.as_usize()),
                }
            }
            _ => format!("{}", f.as_usize()),
        }
    }

    fn place_json(&self, body: &Body<'tcx>, p: &Place<'tcx>) -> String {
        let mut s = format!("{{\"l\":{}", p.local.as_usize());
        if !p.projection.is_empty() {
            s.push_str(",\"p\":[");
            let mut pty = rustc_middle::mir::PlaceTy::from_ty(body.local_decls[p.local].ty);
            let mut first = true;
            for elem in p.projection.iter() {
                if !first {
                    s.push(',');
                }
                first = false;
                match elem {
                    ProjectionElem::Deref => s.push_str("\"*\""),
                    ProjectionElem::Field(f, _) => {
                        let n = self.field_name(pty, f);
                        let _ = write!(s, "{{\"f\":{}}}", esc(&n));
                    }
                    ProjectionElem::Index(l) => {
                        let _ = write!(s, "{{\"ix\":{}}}", l.as_usize());
                    }
                    ProjectionElem::ConstantIndex { offset, min_length, from_end } => {
                        let _ = write!(
                            s,
                            "{{\"cix\":{},\"min\":{},\"end\":{}}}",
                            offset, min_length, from_end
                        );
                    }
                    ProjectionElem::Subslice { from, to, from_end } => {
                        let _ = write!(s, "{{\"sub\":[{},{}],\"end\":{}}}", from, to, from_end);
                    }
                    ProjectionElem::Downcast(name, vi) => {
                        let n = match name {
                            Some(n) => n.to_string(),
                            None => format!("{}", vi.as_usize()),
                        };
                        let _ = write!(s, "{{\"v\":{}}}", esc(&n));
                    }
                    _ => s.push_str("\"?\""),
                }
                pty = pty.projection_ty(self.tcx, elem);
            }
            s.push(']');
        }
        s.push('}');
        s
    }

    fn const_json(&self, owner: LocalDefId, c: &ConstOperand<'tcx>) -> String {
        let tcx = self.tcx;
        let ty = c.const_.ty();
        let mut s = String::from("{\"k\":\"c\"");
        if !matches!(ty.kind(), ty::FnDef(..)) {
            let _ = write!(s, ",\"ty\":{}", esc(&self.ty_str(ty)));
        }
        if let ty::FnDef(def_id, args) = ty.kind() {
            let _ = write!(s, ",\"fn\":{}", esc(&tcx.def_path_str(*def_id)));
            let _ = write!(
                s,
                ",\"fnfull\":{}",
                esc(&trunc(&tcx.def_path_str_with_args(*def_id, args), 400))
            );
            // try to resolve trait method calls to the impl
            let env = TypingEnv::post_analysis(tcx, owner.to_def_id());
            if let Ok(Some(inst)) = ty::Instance::try_resolve(tcx, env, *def_id, args) {
                let rd = inst.def_id();
                if rd != *def_id {
                    let _ = write!(s, ",\"res\":{}", esc(&tcx.def_path_str(rd)));
                }
            }
            if def_id.is_local() {
                s.push_str(",\"loc\":true");
            }
        } else {
            if let Const::Unevaluated(uv, _) = c.const_ {
                if let Some(p) = uv.promoted {
                    let _ = write!(s, ",\"prom\":{}", p.as_usize());
                } else {
                    let _ = write!(s, ",\"item\":{}", esc(&tcx.def_path_str(uv.def)));
                }
            }
            let env = TypingEnv::post_analysis(tcx, owner.to_def_id());
            let is_scalar = ty.is_integral() || ty.is_bool() || ty.is_char();
            if is_scalar {
                if let Some(si) = c.const_.try_eval_scalar_int(tcx, env) {
                    let bits = si.to_bits_unchecked();
                    if ty.is_signed() {
                        let size = si.size();
                        let v = size.sign_extend(bits);
                        let _ = write!(s, ",\"v\":{}", v);
                    } else {
                        let _ = write!(s, ",\"v\":{}", bits);
                    }
                }
            }
            let _ = write!(s, ",\"t\":{}", esc(&trunc(&format!("{}", c.const_), 200)));
        }
        s.push('}');
        s
    }

    fn operand_json(&self, owner: LocalDefId, body: &Body<'tcx>, o: &Operand<'tcx>) -> String {
        match o {
            Operand::Copy(p) => format!("{{\"k\":\"cp\",\"p\":{}}}", self.place_json(body, p)),
            Operand::Move(p) => format!("{{\"k\":\"mv\",\"p\":{}}}", self.place_json(body, p)),
            Operand::Constant(c) => self.const_json(owner, c),
            #[allow(unreachable_patterns)]
            _ => format!("{{\"k\":\"?\",\"t\":{}}}", esc(&format!("{:?}", o))),
        }
    }

    fn rvalue_json(&self, owner: LocalDefId, body: &Body<'tcx>, rv: &Rvalue<'tcx>) -> String {
        let tcx = self.tcx;
        match rv {
            Rvalue::Use(o, ..) => format!("{{\"r\":\"use\",\"o\":{}}}", self.operand_json(owner, body, o)),
            Rvalue::Repeat(o, n) => format!(
                "{{\"r\":\"repeat\",\"o\":{},\"n\":{}}}",
                self.operand_json(owner, body, o),
                esc(&format!("{}", n))
            ),
            Rvalue::Ref(_, bk, p) => format!(
                "{{\"r\":\"ref\",\"mut\":{},\"p\":{}}}",
                matches!(bk, BorrowKind::Mut { .. }),
                self.place_json(body, p)
            ),
            Rvalue::RawPtr(_, p) => format!("{{\"r\":\"rawptr\",\"p\":{}}}", self.place_json(body, p)),
            Rvalue::ThreadLocalRef(d) => format!("{{\"r\":\"tls\",\"d\":{}}}", esc(&tcx.def_path_str(*d))),
            Rvalue::Cast(kind, o, t) => format!(
                "{{\"r\":\"cast\",\"ck\":{},\"o\":{},\"ty\":{}}}",
                esc(&trunc(&format!("{:?}", kind), 60)),
                self.operand_json(owner, body, o),
                esc(&self.ty_str(*t))
            ),
            Rvalue::BinaryOp(op, ab) => format!(
                "{{\"r\":\"bin\",\"op\":{},\"a\":{},\"b\":{}}}",
                esc(&format!("{:?}", op)),
                self.operand_json(owner, body, &ab.0),
                self.operand_json(owner, body, &ab.1)
            ),
            Rvalue::UnaryOp(op, o) => format!(
                "{{\"r\":\"un\",\"op\":{},\"o\":{}}}",
                esc(&format!("{:?}", op)),
                self.operand_json(owner, body, o)
            ),
            Rvalue::Discriminant(p) => {
                let pt = p.ty(&body.local_decls, tcx).ty;
                let mut vars = String::from("{");
                let mut adt_name = String::new();
                if let ty::Adt(def, _) = pt.kind() {
                    adt_name = tcx.def_path_str(def.did());
                    if def.is_enum() {
                        for (i, (vi, d)) in def.discriminants(tcx).enumerate() {
                            if i > 0 {
                                vars.push(',');
                            }
                            let _ = write!(vars, "\"{}\":{}", d.val, esc(&def.variant(vi).name.to_string()));
                        }
                    }
                }
                vars.push('}');
                format!(
                    "{{\"r\":\"discr\",\"p\":{},\"adt\":{},\"vars\":{}}}",
                    self.place_json(body, p),
                    esc(&adt_name),
                    vars
                )
            }
            Rvalue::Aggregate(kind, ops) => {
                let mut s = String::from("{\"r\":\"agg\"");
                match &**kind {
                    AggregateKind::Array(_) => s.push_str(",\"ak\":\"array\""),
                    AggregateKind::Tuple => s.push_str(",\"ak\":\"tuple\""),
                    AggregateKind::Adt(def_id, vi, _, _, _) => {
                        let adt = tcx.adt_def(*def_id);
                        let var = adt.variant(*vi);
                        let _ = write!(
                            s,
                            ",\"ak\":\"adt\",\"adt\":{},\"variant\":{},\"fields\":[",
                            esc(&tcx.def_path_str(*def_id)),
                            esc(&var.name.to_string())
                        );
                        let mut first = true;
                        for f in var.fields.iter() {
                            if !first {
                                s.push(',');
                            }
                            first = false;
                            s.push_str(&esc(&f.name.to_string()));
                        }
                        s.push(']');
                    }
                    AggregateKind::Closure(d, _) => {
                        let _ = write!(s, ",\"ak\":\"closure\",\"def\":{}", esc(&tcx.def_path_str(*d)));
                    }
                    AggregateKind::Coroutine(d, _) => {
                        let _ = write!(s, ",\"ak\":\"coroutine\",\"def\":{}", esc(&tcx.def_path_str(*d)));
                    }
                    AggregateKind::CoroutineClosure(d, _) => {
                        let _ = write!(s, ",\"ak\":\"coroutine_closure\",\"def\":{}", esc(&tcx.def_path_str(*d)));
                    }
                    AggregateKind::RawPtr(..) => s.push_str(",\"ak\":\"rawptr\""),
                }
                s.push_str(",\"ops\":[");
                let mut first = true;
                for o in ops.iter() {
                    if !first {
                        s.push(',');
                    }
                    first = false;
                    s.push_str(&self.operand_json(owner, body, o));
                }
                s.push_str("]}");
                s
            }
            Rvalue::CopyForDeref(p) => format!(
                "{{\"r\":\"use\",\"o\":{{\"k\":\"cp\",\"p\":{}}}}}",
                self.place_json(body, p)
            ),
            other => format!("{{\"r\":\"other\",\"t\":{}}}", esc(&trunc(&format!("{:?}", other), 200))),
        }
    }

    fn body_json(&self, owner: LocalDefId, body: &Body<'tcx>, out: &mut String) {
        // locals
        out.push_str("\"argc\":");
        let _ = write!(out, "{}", body.arg_count);
        out.push_str(",\"locals\":[");
        let mut names: Vec<Option<String>> = vec![None; body.local_decls.len()];
        let mut upvar_names: Vec<(String, String)> = Vec::new();
        for vdi in body.var_debug_info.iter() {
            if let VarDebugInfoContents::Place(p) = &vdi.value {
                if p.projection.is_empty() {
                    if names[p.local.as_usize()].is_none() {
                        names[p.local.as_usize()] = Some(vdi.name.to_string());
                    }
                } else {
                    upvar_names.push((vdi.name.to_string(), self.place_json(body, p)));
                }
            }
        }
        for (i, (_l, d)) in body.local_decls.iter_enumerated().enumerate() {
            if i > 0 {
                out.push(',');
            }
            let _ = write!(out, "{{\"ty\":{}", esc(&self.ty_str(d.ty)));
            if let Some(n) = &names[i] {
                let _ = write!(out, ",\"n\":{}", esc(n));
            }
            if d.is_user_variable() {
                out.push_str(",\"u\":true");
            }
            out.push('}');
        }
        out.push_str("],\"dbg\":[");
        for (i, (n, p)) in upvar_names.iter().enumerate() {
            if i > 0 {
                out.push(',');
            }
            let _ = write!(out, "{{\"n\":{},\"p\":{}}}", esc(n), p);
        }
        out.push_str("],\"blocks\":[");
        for (bi, (_bb, data)) in body.basic_blocks.iter_enumerated().enumerate() {
            if bi > 0 {
                out.push(',');
            }
            out.push_str("{\"s\":[");
            let mut first = true;
            for st in data.statements.iter() {
                let js = match &st.kind {
                    StatementKind::Assign(b) => {
                        let (p, rv) = &**b;
                        Some(format!(
                            "{{\"k\":\"as\",\"p\":{},\"rv\":{},\"l\":{}}}",
                            self.place_json(body, p),
                            self.rvalue_json(owner, body, rv),
                            self.line_of(st.source_info.span)
                        ))
                    }
                    StatementKind::SetDiscriminant { place, variant_index } => Some(format!(
                        "{{\"k\":\"setd\",\"p\":{},\"v\":{}}}",
                        self.place_json(body, place),
                        variant_index.as_usize()
                    )),
                    StatementKind::StorageDead(l) => Some(format!("{{\"k\":\"sd\",\"l\":{}}}", l.as_usize())),
                    StatementKind::StorageLive(l) => Some(format!("{{\"k\":\"sl\",\"l\":{}}}", l.as_usize())),
                    _ => None,
                };
                if let Some(js) = js {
                    if !first {
                        out.push(',');
                    }
                    first = false;
                    out.push_str(&js);
                }
            }
            out.push_str("],\"t\":");
            let term = data.terminator();
            let tj = self.term_json(owner, body, term);
            out.push_str(&tj);
            if data.is_cleanup {
                out.push_str(",\"cl\":true");
            }
            out.push('}');
        }
        out.push(']');
    }

    fn line_of(&self, sp: Span) -> usize {
        let sm = self.tcx.sess.source_map();
        sm.lookup_char_pos(sp.source_callsite().lo()).line
    }

    fn term_json(&self, owner: LocalDefId, body: &Body<'tcx>, term: &Terminator<'tcx>) -> String {
        let sp = term.source_info.span;
        let mut s = String::from("{");
        match &term.kind {
            TerminatorKind::Goto { target } => {
                let _ = write!(s, "\"k\":\"goto\",\"to\":{}", target.as_usize());
            }
            TerminatorKind::SwitchInt { discr, targets } => {
                let _ = write!(s, "\"k\":\"switch\",\"d\":{},\"ts\":[", self.operand_json(owner, body, discr));
                let mut first = true;
                for (v, t) in targets.iter() {
                    if !first {
                        s.push(',');
                    }
                    first = false;
                    let _ = write!(s, "[{},{}]", v, t.as_usize());
                }
                let _ = write!(s, "],\"else\":{}", targets.otherwise().as_usize());
            }
            TerminatorKind::Return => s.push_str("\"k\":\"ret\""),
            TerminatorKind::Unreachable => s.push_str("\"k\":\"unreachable\""),
            TerminatorKind::UnwindResume => s.push_str("\"k\":\"resume\""),
            TerminatorKind::UnwindTerminate(_) => s.push_str("\"k\":\"abort\""),
            TerminatorKind::CoroutineDrop => s.push_str("\"k\":\"codrop\""),
            TerminatorKind::Drop { place, target, .. } => {
                let _ = write!(
                    s,
                    "\"k\":\"drop\",\"p\":{},\"to\":{}",
                    self.place_json(body, place),
                    target.as_usize()
                );
            }
            TerminatorKind::Call { func, args, destination, target, fn_span, .. } => {
                let _ = write!(s, "\"k\":\"call\",\"f\":{},\"a\":[", self.operand_json(owner, body, func));
                let mut first = true;
                for a in args.iter() {
                    if !first {
                        s.push(',');
                    }
                    first = false;
                    s.push_str(&self.operand_json(owner, body, &a.node));
                }
                let _ = write!(s, "],\"dst\":{}", self.place_json(body, destination));
                match target {
                    Some(t) => {
                        let _ = write!(s, ",\"to\":{}", t.as_usize());
                    }
                    None => s.push_str(",\"to\":null"),
                }
                let _ = write!(s, ",\"src\":{}", esc(&self.snippet(*fn_span)));
            }
            TerminatorKind::TailCall { func, .. } => {
                let _ = write!(s, "\"k\":\"tailcall\",\"f\":{}", self.operand_json(owner, body, func));
            }
            TerminatorKind::Assert { cond, expected, msg, target, .. } => {
                let _ = write!(
                    s,
                    "\"k\":\"assert\",\"c\":{},\"exp\":{},\"to\":{}",
                    self.operand_json(owner, body, cond),
                    expected,
                    target.as_usize()
                );
                let (mk, extra) = match &**msg {
                    AssertKind::BoundsCheck { len, index } => (
                        "bounds".to_string(),
                        format!(
                            ",\"len\":{},\"idx\":{}",
                            self.operand_json(owner, body, len),
                            self.operand_json(owner, body, index)
                        ),
                    ),
                    AssertKind::Overflow(op, a, b) => (
                        format!("overflow:{:?}", op),
                        format!(
                            ",\"oa\":{},\"ob\":{},\"oty\":{}",
                            self.operand_json(owner, body, a),
                            self.operand_json(owner, body, b),
                            esc(&self.ty_str(a.ty(&body.local_decls, self.tcx)))
                        ),
                    ),
                    AssertKind::OverflowNeg(a) => (
                        "overflow:Neg".to_string(),
                        format!(",\"oa\":{}", self.operand_json(owner, body, a)),
                    ),
                    AssertKind::DivisionByZero(a) => (
                        "divzero".to_string(),
                        format!(",\"oa\":{}", self.operand_json(owner, body, a)),
                    ),
                    AssertKind::RemainderByZero(a) => (
                        "remzero".to_string(),
                        format!(",\"oa\":{}", self.operand_json(owner, body, a)),
                    ),
                    other => (trunc(&format!("other:{:?}", other), 80), String::new()),
                };
                let _ = write!(s, ",\"mk\":{}{}", esc(&mk), extra);
                let _ = write!(s, ",\"src\":{}", esc(&self.snippet(sp)));
            }
            TerminatorKind::Yield { value, resume, drop, .. } => {
                let _ = write!(
                    s,
                    "\"k\":\"yield\",\"v\":{},\"to\":{}",
                    self.operand_json(owner, body, value),
                    resume.as_usize()
                );
                if let Some(d) = drop {
                    let _ = write!(s, ",\"drop\":{}", d.as_usize());
                }
            }
            TerminatorKind::FalseEdge { real_target, .. } => {
                let _ = write!(s, "\"k\":\"goto\",\"to\":{},\"false\":true", real_target.as_usize());
            }
            TerminatorKind::FalseUnwind { real_target, .. } => {
                let _ = write!(s, "\"k\":\"goto\",\"to\":{},\"false\":true", real_target.as_usize());
            }
            TerminatorKind::InlineAsm { .. } => s.push_str("\"k\":\"asm\""),
        }
        let _ = write!(s, ",\"sp\":{}}}", self.span_json(sp));
        s
    }
}

struct Dump;

impl Callbacks for Dump {
    fn after_expansion<'tcx>(&mut self, _c: &Compiler, tcx: TyCtxt<'tcx>) -> Compilation {
        let want = std::env::var("VERIF_CRATE").unwrap_or_else(|_| "rustrtc".to_string());
        let name = tcx.crate_name(rustc_span::def_id::LOCAL_CRATE).to_string();
        let out_path = match std::env::var("VERIF_FACTS_OUT") {
            Ok(p) => p,
            Err(_) => return Compilation::Continue,
        };
        if name != want {
            return Compilation::Continue;
        }
        // only the lib target (crate type rlib/lib); tests/examples have other crate names anyway
        let cx = Cx { tcx };
        let mut buf: Vec<u8> = Vec::with_capacity(64 << 20);
        rustc_middle::ty::print::with_no_trimmed_paths!({
            // ---- bodies
            let mut n_bodies = 0usize;
            for ldid in tcx.mir_keys(()).iter() {
                let ldid: LocalDefId = *ldid;
                let did: DefId = ldid.to_def_id();
                let dk = tcx.def_kind(did);
                match dk {
                    DefKind::Fn | DefKind::AssocFn | DefKind::Closure => {}
                    _ => continue,
                }
                let (bsteal, psteal) = tcx.mir_promoted(ldid);
                let body = bsteal.borrow();
                let proms = psteal.borrow();
                let mut line = String::with_capacity(16 << 10);
                let _ = write!(line, "{{\"def\":{}", esc(&tcx.def_path_str(did)));
                let _ = write!(line, ",\"rec\":\"body\",\"dk\":{}", esc(&format!("{:?}", dk)));
                if dk == DefKind::Closure {
                    let parent = tcx.local_parent(ldid);
                    let _ = write!(line, ",\"parent\":{}", esc(&tcx.def_path_str(parent.to_def_id())));
                    if tcx.is_coroutine(did) {
                        let ck = tcx.coroutine_kind(did);
                        let _ = write!(line, ",\"coroutine\":{}", esc(&format!("{:?}", ck)));
                    }
                } else {
                    let vis = tcx.visibility(did);
                    let _ = write!(line, ",\"vis\":{}", esc(&format!("{:?}", vis)));
                    if tcx.asyncness(did).is_async() {
                        line.push_str(",\"async\":true");
                    }
                    if let Some(impl_did) = tcx.impl_of_assoc(did) {
                        let st = tcx.type_of(impl_did).instantiate_identity().skip_norm_wip();
                        let _ = write!(line, ",\"impl_self\":{}", esc(&cx.ty_str(st)));
                        if let Some(tr) = tcx.impl_opt_trait_ref(impl_did) {
                            let tr = tr.instantiate_identity().skip_norm_wip();
                            let _ = write!(line, ",\"impl_trait\":{}", esc(&tcx.def_path_str(tr.def_id)));
                        }
                    }
                }
                let _ = write!(line, ",\"sp\":{},", cx.span_json(tcx.def_span(did)));
                cx.body_json(ldid, &body, &mut line);
                line.push_str(",\"promoted\":[");
                for (pi, (_p, pb)) in proms.iter_enumerated().enumerate() {
                    if pi > 0 {
                        line.push(',');
                    }
                    line.push('{');
                    cx.body_json(ldid, pb, &mut line);
                    line.push('}');
                }
                line.push_str("]}\n");
                buf.extend_from_slice(line.as_bytes());
                n_bodies += 1;
            }
            // ---- ADTs, consts, impls
            for id in tcx.hir_crate_items(()).definitions() {
                let did = id.to_def_id();
                let dk = tcx.def_kind(did);
                match dk {
                    DefKind::Struct | DefKind::Enum | DefKind::Union => {
                        let adt = tcx.adt_def(did);
                        let mut line = String::new();
                        let _ = write!(
                            line,
                            "{{\"def\":{},\"rec\":\"adt\",\"dk\":{},\"sp\":{},\"variants\":[",
                            esc(&tcx.def_path_str(did)),
                            esc(&format!("{:?}", dk)),
                            cx.span_json(tcx.def_span(did))
                        );
                        let discrs: Vec<(rustc_abi::VariantIdx, ty::util::Discr<'tcx>)> =
                            if adt.is_enum() { adt.discriminants(tcx).collect() } else { Vec::new() };
                        for (vi, var) in adt.variants().iter_enumerated() {
                            if vi.as_usize() > 0 {
                                line.push(',');
                            }
                            let dv: String = discrs
                                .iter()
                                .find(|(i, _)| *i == vi)
                                .map(|(_, d)| format!("{}", d.val))
                                .unwrap_or_else(|| "null".to_string());
                            let _ = write!(line, "{{\"name\":{},\"discr\":{},\"fields\":[", esc(&var.name.to_string()), dv);
                            for (fi, f) in var.fields.iter().enumerate() {
                                if fi > 0 {
                                    line.push(',');
                                }
                                let fty = tcx.type_of(f.did).instantiate_identity().skip_norm_wip();
                                let _ = write!(
                                    line,
                                    "{{\"n\":{},\"ty\":{}}}",
                                    esc(&f.name.to_string()),
                                    esc(&cx.ty_str(fty))
                                );
                            }
                            line.push_str("]}");
                        }
                        line.push_str("]}\n");
                        buf.extend_from_slice(line.as_bytes());
                    }
                    DefKind::Const { .. } | DefKind::AssocConst { .. } => {
                        let ty = tcx.type_of(did).instantiate_identity().skip_norm_wip();
                        let mut line = String::new();
                        let _ = write!(
                            line,
                            "{{\"def\":{},\"rec\":\"const\",\"ty\":{},\"sp\":{}",
                            esc(&tcx.def_path_str(did)),
                            esc(&cx.ty_str(ty)),
                            cx.span_json(tcx.def_span(did))
                        );
                        if ty.is_integral() || ty.is_bool() {
                            let generics = tcx.generics_of(did);
                            if generics.is_empty() && tcx.generics_of(tcx.parent(did)).is_empty() {
                                if let Ok(val) = tcx.const_eval_poly(did) {
                                    if let Some(si) = val.try_to_scalar_int() {
                                        let bits = si.to_bits_unchecked();
                                        if ty.is_signed() {
                                            let _ = write!(line, ",\"v\":{}", si.size().sign_extend(bits));
                                        } else {
                                            let _ = write!(line, ",\"v\":{}", bits);
                                        }
                                    }
                                }
                            }
                        }
                        line.push_str("}\n");
                        buf.extend_from_slice(line.as_bytes());
                    }
                    DefKind::Impl { .. } => {
                        let st = tcx.type_of(did).instantiate_identity().skip_norm_wip();
                        let mut line = String::new();
                        let _ = write!(
                            line,
                            "{{\"def\":{},\"rec\":\"impl\",\"self\":{},\"sp\":{}",
                            esc(&tcx.def_path_str(did)),
                            esc(&cx.ty_str(st)),
                            cx.span_json(tcx.def_span(did))
                        );
                        if let Some(tr) = tcx.impl_opt_trait_ref(did) {
                            let tr = tr.instantiate_identity().skip_norm_wip();
                            let _ = write!(line, ",\"trait\":{}", esc(&tcx.def_path_str(tr.def_id)));
                            let _ = write!(line, ",\"trait_full\":{}", esc(&trunc(&format!("{}", tr), 300)));
                        }
                        // where clauses / predicates (for unsafe impl Send/Sync bounds)
                        let preds = tcx.predicates_of(did);
                        line.push_str(",\"preds\":[");
                        for (i, (p, _)) in preds.predicates.iter().enumerate() {
                            if i > 0 {
                                line.push(',');
                            }
                            line.push_str(&esc(&trunc(&format!("{}", p), 200)));
                        }
                        line.push_str("],\"items\":[");
                        for (i, it) in tcx.associated_item_def_ids(did).iter().enumerate() {
                            if i > 0 {
                                line.push(',');
                            }
                            line.push_str(&esc(&tcx.def_path_str(*it)));
                        }
                        line.push_str("]}\n");
                        buf.extend_from_slice(line.as_bytes());
                    }
                    _ => {}
                }
            }
            let _ = writeln!(
                &mut buf,
                "{{\"rec\":\"meta\",\"crate\":{},\"bodies\":{}}}",
                esc(&name),
                n_bodies
            );
        });
        let tmp = format!("{}.tmp.{}", out_path, std::process::id());
        std::fs::write(&tmp, &buf).expect("write facts");
        std::fs::rename(&tmp, &out_path).expect("rename facts");
        Compilation::Continue
    }
}

fn main() {
    let mut args: Vec<String> = std::env::args().collect();
    // RUSTC_WORKSPACE_WRAPPER: argv[1] is the path of the real rustc
    if args.len() > 1 && (args[1].ends_with("rustc") || args[1].contains("/rustc")) {
        args.remove(1);
    }
    let mut cb = Dump;
    rustc_driver::run_compiler(&args, &mut cb);
}
