"""entry point: python3 -m engine.main <property> [--tier quick|thorough]"""
import importlib
import os
import sys
import traceback

sys.path.insert(0, os.path.dirname(os.path.dirname(os.path.abspath(__file__))))
from engine import core, factsrun  # noqa: E402


def main(argv):
    if not argv:
        print("usage: check <property-id> [--tier quick|thorough] [--replay path]")
        return 2
    prop = argv[0].upper()
    tier = os.environ.get("VERIF_TIER", "quick")
    if "--tier" in argv:
        tier = argv[argv.index("--tier") + 1]
    if "--replay" in argv:
        p = argv[argv.index("--replay") + 1]
        print(open(p).read())
        # a replay re-runs the rule on the current tree (static: no input to replay)
    try:
        mod = importlib.import_module("rules.%s" % prop.lower())
    except ImportError as e:
        print("CHECKER-ERROR no rules for %s (%s)" % (prop, e))
        return 2
    try:
        ctx = core.Ctx(prop, tier, force=(tier == "thorough"))
        results = mod.run(ctx)
        extra = 0
        if tier == "thorough":
            from engine import thorough
            extra = thorough.run(ctx, mod, results)
        rc = core.finish(ctx, results, mod.EXPLANATION, mod.ASSUMPTIONS, mod.TRUSTED_BASE)
        return rc or extra
    except factsrun.CheckerError as e:
        print("CHECKER-ERROR %s: %s" % (prop, e))
        return 2
    except Exception:
        traceback.print_exc()
        print("CHECKER-ERROR %s: internal error" % prop)
        return 2


if __name__ == "__main__":
    sys.exit(main(sys.argv[1:]))
