"""C03 — only authenticated DTLS records are acted on; nothing leaves in clear."""
from engine import core, mir
from engine.core import RuleResult, suffix

EXPLANATION = (
    "Static analysis of rustc MIR of transports::dtls. R03.1a: in try_decrypt_record every Ok return is cut by the "
    "`record.epoch == 0` edge or by the Ok edge of decrypt_record*/decrypt_record_with_cipher. R03.1b: in the record "
    "dispatcher every upward effect (application data handed to the upper layer, state set to Closed by an alert) is "
    "cut by an edge proving the record was authenticated (epoch != 0), for alerts alternatively by 'no keys "
    "negotiated yet'. R03.2: send path - the datagram handed to IceConn::send in send_record is the buffer sealed by "
    "the Ok edge of encrypt_in_place_detached; send() reaches send_record only under DtlsState::Connected and splits "
    "by a constant <= 1200. R03.3: every AEAD seal site takes its sequence number from the atomic write_seq.fetch_add "
    "(unique under any number of concurrent senders by atomicity of the RMW) or from a counter place that is "
    "incremented on every path after the use. Does not decide AES-GCM itself nor receive-side replay protection.")
ASSUMPTIONS = ["aes-gcm crate is correct", "unwind edges are not paths",
               "epoch != 0 records only reach the dispatcher through try_decrypt_record's decrypt arms (R03.1a)"]
TRUSTED_BASE = ["rustc MIR construction", "engine CFG/terms", "rule tables in rules/c03.py"]

DEC = ("transports::dtls::decrypt_record", "transports::dtls::decrypt_record_with_cipher")
TRY = "transports::dtls::DtlsInner::try_decrypt_record"
DISPATCH = "transports::dtls::DtlsInner::handle_decrypted_record::{closure#0}"
INCOMING = "transports::dtls::DtlsInner::handle_incoming_packet::{closure#0}"


def _mentions_epoch(t):
    return mir.has(t, lambda x: (x[0] in ("arg", "var") and x[1] in ("epoch", "record_epoch")) or
                   (x[0] == "field" and x[2] in ("epoch", "record_epoch")))


def authenticated_edge(term, meaning, *_):
    """edge on which the record is known to have epoch != 0 / be authenticated"""
    if term[0] == "bin" and term[1] in ("Ne", "Eq", "Gt", "Lt") and _mentions_epoch(term):
        other = term[3] if _mentions_epoch(term[2]) else term[2]
        if other[0] == "const" and other[1] == 0:
            if term[1] == "Ne" and meaning is True:
                return True
            if term[1] == "Eq" and meaning is False:
                return True
            if term[1] == "Gt" and _mentions_epoch(term[2]) and meaning is True:
                return True
            if term[1] == "Lt" and _mentions_epoch(term[3]) and meaning is True:
                return True
    if term[0] in ("arg", "var", "field") and (term[1] if term[0] != "field" else term[2]) in ("authenticated", "is_authenticated", "encrypted"):
        return meaning is True
    if term[0] == "un" and term[1] == "Not" and term[2][0] in ("arg", "var", "field") and \
            (term[2][1] if term[2][0] != "field" else term[2][2]) in ("authenticated", "is_authenticated", "encrypted"):
        return meaning is False
    return False


def no_keys_edge(term, meaning, *_):
    def is_keys(x):
        fp = mir.field_path(x)
        return fp is not None and fp.split(".")[-1] in ("session_keys", "session_crypto")
    if term[0] == "discr" and is_keys(term[1]) and meaning == "None":
        return True
    if term[0] == "call" and term[1].endswith("Option::<T>::is_some") and is_keys(term[2][0]) and meaning is False:
        return True
    if term[0] == "call" and term[1].endswith("Option::<T>::is_none") and is_keys(term[2][0]) and meaning is True:
        return True
    return False


def r03_1(ctx):
    r = RuleResult("R03.1", "K1", "receive side: only authenticated records are acted on")
    body = ctx.body(TRY)
    r.scope.append(TRY)

    def g_a(term, meaning, *_):
        if term[0] == "bin" and term[1] == "Eq" and mir.has_field(term[2], "epoch") and term[3][0] == "const" and term[3][1] == 0 and meaning is True:
            return True
        if term[0] == "discr" and meaning == "Ok" and mir.has(term[1], lambda x: x[0] == "call" and x[1] in DEC):
            return True
        return False
    g = core.guard_edges(body, g_a)
    oks = core.ok_return_blocks(body)
    r.need("Ok returns in try_decrypt_record", len(oks), 3)
    for bi in oks:
        p = core.k1(body, [bi], g)[bi]
        if p is None:
            r.ok({"site": "%s Ok return" % body.where(bi)})
        else:
            r.violate(TRY, "return:Ok", body.where(bi), "record payload released without decryption and not epoch 0", core.describe_path(body, p))
    # the two decrypt helpers return Ok only on the AEAD success edge
    for fn in DEC:
        b = ctx.body(fn)
        r.scope.append(fn)

        def g_dec(term, meaning, *_):
            return term[0] == "discr" and meaning in ("Ok", "Continue") and \
                mir.has(term[1], lambda x: x[0] == "call" and (x[1].endswith("::decrypt") or x[1].endswith("::decrypt_in_place_detached")))
        gd = core.guard_edges(b, g_dec)
        for bi in core.ok_return_blocks(b):
            if core.k1(b, [bi], gd)[bi] is None:
                r.ok({"site": "%s Ok return of %s" % (b.where(bi), fn.split("::")[-1])})
            else:
                r.violate(fn, "return:Ok", b.where(bi), "decrypt helper returns Ok without AEAD open succeeding")
    # (b) dispatcher effects
    d = ctx.body(DISPATCH)
    r.scope.append(DISPATCH)
    ga = core.guard_edges(d, authenticated_edge)
    gk = core.guard_edges(d, no_keys_edge)
    deliver = [(bi, t) for bi, t, p in core.calls_to(d, lambda p: "mpsc" in p and p.endswith("::send"))]
    r.need("application-data delivery sites", len(deliver), 1)
    for bi, t in deliver:
        p = core.k1(d, [bi], ga)[bi]
        if p is None:
            r.ok({"site": "%s incoming_data_tx.send" % d.where(bi), "cut_by": "epoch != 0"})
        else:
            r.violate(DISPATCH, "deliver:ApplicationData", d.where(bi),
                      "application data handed to the upper layer without the record being authenticated (epoch 0 accepted)",
                      core.describe_path(d, p))
    closed = []
    for bi, si, s, val in core.lock_write_sites(d, "state", methods=("::lock",)):
        if val[0] == "agg" and val[2] == "Closed":
            closed.append((bi, "store:state=Closed", d.where(bi, si)))
    for bi, t, p in core.calls_to(d, lambda p: "watch" in p and p.endswith("::send")):
        a = d.term_operand(t["a"][1])
        if a[0] == "agg" and a[2] == "Closed":
            closed.append((bi, "send:state_tx=Closed", d.where(bi)))
    r.need("alert-driven Closed effects", len(closed), 2)
    for bi, site, where in closed:
        p = core.k1(d, [bi], ga + gk)[bi]
        if p is None:
            r.ok({"site": "%s %s" % (where, site), "cut_by": "epoch != 0 or no keys negotiated"})
        else:
            r.violate(DISPATCH, site, where, "close_notify honoured from an unauthenticated record although keys exist",
                      core.describe_path(d, p))
    # handshake records: the same gate as for alerts. Once keys are negotiated the peer's next messages are protected;
    # a plaintext handshake record taken for the next message (a forged Finished that fails verification) lets anyone
    # tear the connection down
    hs = [bi for bi, t, p in core.calls_to(d, suffix("DtlsInner::process_handshake_payload"))]
    r.need("handshake dispatch sites", len(hs), 1)
    for bi in hs:
        p = core.k1(d, [bi], ga + gk)[bi]
        if p is None:
            r.ok({"site": "%s process_handshake_payload" % d.where(bi), "cut_by": "epoch != 0 or no keys negotiated"})
        else:
            r.violate(DISPATCH, "dispatch:Handshake", d.where(bi),
                      "a plaintext (epoch 0) handshake record is processed although keys exist: a forged Finished fails verification and moves an "
                      "established connection to Failed", core.describe_path(d, p))
    # the dispatcher's epoch must be the record's epoch: call-site wiring in handle_incoming_packet
    inc = ctx.body(INCOMING)
    calls = core.calls_to(inc, suffix("DtlsInner::handle_decrypted_record"))
    r.need("dispatcher call sites", len(calls), 1)
    for bi, t, p in calls:
        args = [inc.term_operand(a) for a in t["a"]]
        payload_ok = any(mir.has(a, lambda x: x[0] == "call" and x[1] == TRY) for a in args)
        if payload_ok:
            r.ok({"site": inc.where(bi), "payload": "flows from try_decrypt_record Ok"})
        else:
            r.violate(INCOMING, "call:handle_decrypted_record", inc.where(bi), "dispatched payload does not come from try_decrypt_record")
        if ga:
            ep = [a for a in args if _mentions_epoch(a) or mir.has(a, lambda x: x[0] == "bin" and _mentions_epoch(x))]
            rec_ep = [a for a in ep if mir.has(a, lambda x: x[0] == "field" and x[2] == "epoch" and mir.has(x[1], lambda y: y[0] == "call" and y[1].endswith("DtlsRecord::decode") or (y[0] in ("var", "arg") and y[1] == "record")))]
            if rec_ep:
                r.ok({"site": inc.where(bi), "epoch argument": mir.show(rec_ep[0], 120)})
            else:
                r.violate(INCOMING, "arg:epoch", inc.where(bi), "the dispatcher's authentication flag/epoch does not flow from the decoded record's epoch")
    return r


def r03_2(ctx):
    r = RuleResult("R03.2", "K1+K6", "send side: sealed buffer only, under Connected, bounded record size")
    sr = ctx.body("transports::dtls::DtlsTransport::send_record::{closure#0}")
    r.scope.append(sr.name)
    sends = core.calls_to(sr, suffix("IceConn::send"))
    r.need("IceConn::send in send_record", len(sends), 1)
    for bi, t, p in sends:
        buf = sr.term_operand(t["a"][1])

        def g(term, meaning, *_, buf=buf):
            if term[0] == "discr" and meaning in ("Continue", "Ok"):
                for c in mir.walk(term[1]):
                    if c[0] == "call" and c[1].endswith("::encrypt_in_place_detached"):
                        target = c[2][3] if len(c[2]) > 3 else None
                        if target is not None and mir.has(target, lambda x: x == buf):
                            return True
            return False
        ge = core.guard_edges(sr, g)
        if ge and core.k1(sr, [bi], ge)[bi] is None:
            r.ok({"site": sr.where(bi), "buffer": mir.show(buf, 60), "cut_by": "encrypt_in_place_detached(.., &mut buf[..]) Ok"})
        else:
            r.violate(sr.name, "call:send", sr.where(bi), "datagram sent without the same buffer having been sealed")
    snd = ctx.body("transports::dtls::DtlsTransport::send::{closure#0}")
    r.scope.append(snd.name)
    calls = core.calls_to(snd, suffix("DtlsTransport::send_record"))
    r.need("send_record call sites", len(calls), 1)

    def connected(term, meaning, *_):
        return term[0] == "discr" and meaning == "Connected"
    gc = core.guard_edges(snd, connected)
    for bi, t, p in calls:
        if gc and core.k1(snd, [bi], gc)[bi] is None:
            r.ok({"site": snd.where(bi), "cut_by": "DtlsState::Connected"})
        else:
            r.violate(snd.name, "call:send_record", snd.where(bi), "application data can be sent while not Connected")
    # only caller
    callers = set()
    for b in ctx.facts.all_bodies():
        if core.calls_to(b, suffix("DtlsTransport::send_record")):
            callers.add(b.name)
    if callers == {snd.name}:
        r.ok({"send_record callers": sorted(callers)})
    else:
        r.violate("transports::dtls", "callers:send_record", snd.where(0), "send_record has other callers: %s" % sorted(callers))
    # chunking constant
    ch = core.calls_to(snd, suffix("::chunks"))
    c = ctx.facts.consts.get("transports::dtls::MAX_APP_DATA_RECORD_SIZE")
    if c is None or c.get("v") is None:
        raise core.CheckerError("R03.2: const MAX_APP_DATA_RECORD_SIZE not found")
    ok_chunk = False
    for bi, t, p in ch:
        a = snd.term_operand(t["a"][1])
        if a[0] == "item" and a[1].endswith("MAX_APP_DATA_RECORD_SIZE"):
            ok_chunk = True
    if ok_chunk and 0 < c["v"] <= 1200:
        r.ok({"chunks": "data.chunks(MAX_APP_DATA_RECORD_SIZE=%d)" % c["v"]})
    else:
        r.violate(snd.name, "chunks", snd.where(0), "payload is not split by MAX_APP_DATA_RECORD_SIZE <= 1200 (value %s)" % c.get("v"))
    return r


SEAL = ("transports::dtls::encrypt_record", "::encrypt_in_place_detached", "::encrypt_in_place", "::encrypt")


def r03_3(ctx):
    r = RuleResult("R03.3", "K4", "one counter per key: every AEAD seal consumes a fresh sequence number")
    n = 0
    for body in ctx.facts.bodies(prefix="transports::dtls::"):
        if body.name.startswith("transports::dtls::encrypt_record") or "::tests::" in body.name:
            continue
        for bi, t, path in body.calls():
            if not path or not any(path == s or path.endswith(s) for s in SEAL):
                continue
            if not ("aes_gcm" in path or "aead" in path or path.endswith("encrypt_record")):
                continue
            n += 1
            args = []
            for a in t["a"]:
                args += core.expand_vars(body, body.term_operand(a), depth=3)
            site = "seal:%s" % path.split("::")[-1]
            if any(mir.has(a, lambda x: x[0] == "call" and x[1].endswith("::fetch_add") and mir.has_field(x, "write_seq")) for a in args):
                r.ok({"site": body.where(bi), "sequence": "write_seq.fetch_add(1)"})
                continue
            # find the counter place the nonce is built from
            ctr = None
            for a in args:
                for x in mir.walk(a):
                    fp = mir.field_path(x) if x[0] in ("field", "arg", "var") else None
                    if fp and fp.split(".")[-1] == "sequence_number":
                        ctr = fp
            if ctr is None:
                r.violate(body.name, site, body.where(bi), "cannot find the sequence number this seal uses")
                continue
            incs = []
            for b2, si, s in body.assigns():
                pt = body.term_place(s["p"])
                if mir.field_path(pt) == ctr:
                    v = body.term_rvalue(s["rv"])
                    if v[0] == "bin" and v[1] in ("Add",) and v[3][0] == "const" and v[3][1] == 1:
                        incs.append(b2)
                    elif v[0] == "field" and v[1][0] == "bin" and v[1][1] == "AddWithOverflow":
                        incs.append(b2)
            # also fetch_add on write_seq after the seal counts as consumption
            if incs and core.always_followed_by(body, bi, incs, cut_edges=core.failure_edges_of(body, bi)):
                r.ok({"site": body.where(bi), "sequence": "%s, incremented on every path after use" % ctr})
            else:
                r.violate(body.name, site, body.where(bi),
                          "record sealed with %s which is not advanced afterwards: the same (epoch, sequence) nonce can be used again" % ctr)
    r.need("AEAD seal sites", n, 3)
    return r


def r03_4(ctx):
    """RFC 6347 4.1.2.1 / RFC 5288: the additional data of every AEAD open is seq_num (epoch||sequence of the
    RECORD HEADER) || type || version || length. If the receiver rebuilds any of these from somewhere else (e.g.
    the explicit nonce inside the payload), the corresponding header bits are not authenticated and a record with
    a flipped epoch / sequence bit is still accepted."""
    r = RuleResult("R03.4", "K4/dataflow", "the AEAD additional data is built from the record header fields as received")
    D = "transports::dtls::"
    aad = ctx.body(D + "make_aad")
    # make_aad writes all four parameters into the 13 bytes
    from engine import layout
    wl = layout.writer_layout(aad)
    want = {"seq": set(range(0, 8)), "content_type": {8}, "length": {11, 12}}
    for k, v in want.items():
        if wl.get(k) == v:
            r.ok({"make_aad": "%s -> bytes %s" % (k, sorted(v))})
        else:
            r.violate(aad.name, "aad:%s" % k, aad.where(0), "make_aad writes %s to bytes %s, expected %s" % (k, sorted(wl.get(k, ())), sorted(v)))
    n = 0
    for fn in (D + "decrypt_record_with_cipher", D + "decrypt_record"):
        if not ctx.facts.has_body(fn):
            continue
        b = ctx.body(fn)
        r.scope.append(fn)
        for bi, t, p in core.calls_to(b, suffix("dtls::make_aad")):
            n += 1
            a = [b.term_operand(x) for x in t["a"]]
            ok = a[0] == ("arg", "seq") and a[1] == ("arg", "content_type") and a[2] == ("arg", "version") and \
                mir.has(a[3], lambda x: x[0] == "call" and x[1].endswith("::len") and mir.has(x, lambda y: y == ("arg", "payload")))
            if ok:
                r.ok({"site": b.where(bi), "aad": "make_aad(seq, content_type, version, ciphertext length) from the caller's header values"})
            else:
                r.violate(fn, "aad:args", b.where(bi),
                          "the additional data is built from %s instead of the sequence number / type / version of the record header"
                          % ", ".join(mir.show(x, 40) for x in a[:3]))
    tb = ctx.body(D + "DtlsInner::try_decrypt_record")
    r.scope.append(tb.name)
    for bi, t, p in core.calls_to(tb, suffix("dtls::decrypt_record_with_cipher", "dtls::decrypt_record")):
        n += 1
        a = [tb.term_operand(x) for x in t["a"]]
        names = [mir.field_path(a[0]) or "", mir.field_path(a[1]) or ""]
        seq_ok = len(a) >= 4 and mir.has_field(a[2], "epoch") and mir.has_field(a[2], "sequence_number") and \
            mir.has(a[2], lambda x: x[0] == "bin" and x[1] == "Shl" and mir.int_value(x[3]) == 48)
        if names[0].endswith("record.content_type") and names[1].endswith("record.version") and seq_ok and \
                (mir.field_path(a[3]) or "").endswith("record.payload"):
            r.ok({"site": tb.where(bi), "passes": "record.content_type, record.version, (record.epoch << 48) | record.sequence_number, record.payload"})
        else:
            r.violate(tb.name, "open:args", tb.where(bi),
                      "the record opener is not given the header's type, version and (epoch << 48 | sequence_number): "
                      "those header bits are not covered by the AEAD tag")
    r.need("AEAD additional-data construction / use sites", n, 3)
    return r


def r03_5(ctx):
    """two counters exist for one key: `ctx.sequence_number` numbers the records of the handshake, and when the
    handshake finishes it is handed over to `write_seq` (handle_finished stores it there together with write_epoch),
    from which every application record draws. After the hand-over `ctx.sequence_number` is stale: sealing with it
    repeats the (epoch, sequence) nonce of the first application records. Wherever a seal can take its number from
    either counter, the choice must be made by asking whether the hand-over has happened (write_epoch == this epoch) -
    not by the current connection state, which also leaves Connected when the PEER's close_notify arrives first."""
    r = RuleResult("R03.5", "K1", "a seal that can use either sequence counter chooses by the hand-over (write_epoch), not by the state")
    n = 0
    for b in ctx.facts.bodies(prefix="transports::dtls::"):
        if "::tests::" in b.name:
            continue
        fa = [bi for bi, t, p in b.calls() if p and p.endswith("::fetch_add") and t["a"] and mir.has_field(b.term_operand(t["a"][0]), "write_seq")]
        if not fa:
            continue
        ctx_reads = []
        for bi, si, st in b.assigns():
            rv = st["rv"]
            if rv["r"] == "use" and "p" in rv["o"] and isinstance(rv["o"]["p"].get("p"), list):
                names = [e.get("f") for e in rv["o"]["p"]["p"] if isinstance(e, dict)]
                if names and names[-1] == "sequence_number" and "p" not in st["p"] and b.locals[st["p"]["l"]]["ty"] == "u64":
                    ctx_reads.append(bi)
        if not ctx_reads:
            continue
        be = b.back_edges()
        for f_blk in fa:
            for c_blk in ctx_reads:
                decider = None
                for sb in range(len(b.blocks)):
                    if sb in b.cleanup or b.blocks[sb]["t"]["k"] != "switch":
                        continue
                    term, outs = b.switch_info(sb)
                    tg = [t for t, _, _ in outs]
                    if len(tg) != 2:
                        continue
                    r0, r1 = b.reachable([tg[0]], cut_edges=be), b.reachable([tg[1]], cut_edges=be)
                    if (f_blk in r0 and c_blk in r1 and f_blk not in r1 and c_blk not in r0) or \
                            (f_blk in r1 and c_blk in r0 and f_blk not in r0 and c_blk not in r1):
                        if decider is None or sb in b.reachable([decider], cut_edges=be):
                            decider = sb
                if decider is None:
                    continue
                n += 1
                term, _ = b.switch_info(decider)
                if any(mir.has(tt, lambda x: core.is_atomic_load(x, "write_epoch")) for tt in core.expand_vars(b, term, depth=2)):
                    r.ok({"site": b.where(decider), "function": b.name.split("::")[-2], "chooses by": mir.show(term, 90)})
                else:
                    r.violate(b.name, "seq:choice", b.where(decider),
                              "whether a record is numbered from write_seq or from the handshake's own counter is decided by %s: once the "
                              "state has left Connected without this side having closed (peer close_notify first) the stale handshake counter is "
                              "used again and an (epoch, sequence) nonce is repeated" % mir.show(term, 80))
    r.need("seals that can use either counter", n, 1)
    return r


def r03_6(ctx):
    """'no two records sent under one key reuse a sequence number/nonce, for any number of concurrent senders': send() runs
    on the application's tasks and looks at ONE thing to decide that it may seal under the session keys - the state
    being Connected; then it loads write_epoch and draws write_seq.fetch_add(1). The handshake task hands its own epoch
    and next sequence number over to those two atomics. If it publishes Connected FIRST, a sender that sees the state in
    between seals under epoch 0 (the record is thrown away by the peer) or draws numbers that the hand-over then resets:
    a later record repeats an (epoch, sequence number) pair - the nonce of the Finished included (reproduced: 600
    loopback handshakes with senders spinning on send()). Decided: on every path of handle_finished, the publication of
    Connected (the state store and the watch send) comes after the stores to write_epoch and write_seq."""
    r = RuleResult("R03.6", "K4", "the write counters are handed over before Connected is published")
    fn = "transports::dtls::DtlsInner::handle_finished::{closure#0}"
    b = ctx.body(fn)
    r.scope.append(fn)
    seq = [bi for bi, t, args in core.atomic_sites(b, "write_seq", "store")]
    epo = [bi for bi, t, args in core.atomic_sites(b, "write_epoch", "store")]
    r.need("hand-over stores (write_seq) in handle_finished", len(seq), 2)

    def connected(v):
        return mir.has(v, lambda x: x[0] == "agg" and x[2] == "Connected")
    pubs = []
    for bi, si, st, v in core.lock_write_sites(b, "state", methods=("::lock",)):
        if connected(v) or (v[0] == "call" and v[1].endswith("::clone") and connected(v)):
            pubs.append((bi, "state = Connected"))
    for bi, t, p in b.calls():
        if p and "watch::Sender" in p and p.split("::")[-1] in ("send", "send_replace") and t["a"] and \
                mir.has_field(b.term_operand(t["a"][0]), "state_tx") and len(t["a"]) > 1 and connected(b.term_operand(t["a"][1])):
            pubs.append((bi, "state_tx.send(Connected)"))
    r.need("publications of Connected in handle_finished", len(pubs), 4)
    for bi, what in pubs:
        if core.must_pass(b, bi, seq) and core.must_pass(b, bi, epo):
            r.ok({"site": b.where(bi), "publishes": what, "after": "write_epoch and write_seq hold the handshake's counters"})
        else:
            r.violate(fn, "handover:published-first", b.where(bi),
                      "%s can be reached before the write counters were handed over: a concurrent send() that sees Connected seals under epoch 0 "
                      "or draws a sequence number that the hand-over then resets (nonce reuse under the session key)" % what)
    return r


def r03_7(ctx):
    """same clause, the other reader of the pair: the close path of the handshake loop decides by `write_epoch == ctx.epoch`
    whether the counters have been handed over (then the close_notify draws its number from write_seq, else from the
    handshake's own counter). That test is only right if write_epoch and write_seq move TOGETHER: a write_epoch stored at
    ChangeCipherSpec time - while write_seq still holds 0 and the Finished has just used (epoch 1, sequence 0) - makes a
    close() in that window seal the alert under the Finished's nonce. Decided: in every function, each store to
    write_epoch is followed on every path by a store to write_seq before the function can suspend or return."""
    r = RuleResult("R03.7", "K4", "write_epoch and write_seq are handed over together")
    n = 0
    for b in ctx.facts.bodies(prefix="transports::dtls::"):
        if "::tests::" in b.name or "security_tests" in b.name:
            continue
        epo = [bi for bi, t, args in core.atomic_sites(b, "write_epoch", "store")]
        if not epo:
            continue
        r.scope.append(b.name)
        seq = [bi for bi, t, args in core.atomic_sites(b, "write_seq", "store")]
        stops = {bi for bi, blk in enumerate(b.blocks) if blk["t"]["k"] in ("yield", "ret") and bi not in b.cleanup}
        for e in epo:
            n += 1
            # blocks reachable from e without passing a write_seq store
            seen, work, bad = set(), [t for t, _ in b.succ_edges(e)], None
            while work:
                x = work.pop()
                if x in seen or x in b.cleanup:
                    continue
                seen.add(x)
                if x in seq:
                    continue
                if x in stops:
                    bad = x
                    break
                work += [t for t, _ in b.succ_edges(x)]
            if bad is None and seq:
                r.ok({"site": b.where(e), "followed_by": "write_seq.store before any suspension / return"})
            else:
                r.violate(b.name, "handover:epoch-without-seq", b.where(e),
                          "write_epoch is stored here but the function can suspend or return (%s) before write_seq is: in between, "
                          "`write_epoch == ctx.epoch` claims the counters were handed over and the close path draws sequence numbers the "
                          "handshake has already used (nonce reuse with the Finished)" % (b.where(bad) if bad is not None else "-"))
    r.need("write_epoch stores", n, 2)
    return r


def r03_8(ctx):
    """'any plaintext record from any source is discarded without changing connection state': a ChangeCipherSpec travels in
    the clear, so its arm in handle_decrypted_record runs for anybody's datagram at any time. It used to increment
    ctx.read_epoch on every such record - unobservable only as long as nothing reads read_epoch (a later 'hardening' that
    compares a record's epoch with it turns one forged 14-byte datagram into a permanent black hole for the genuine
    peer's records). Decided: every write to read_epoch is a constant store on the `read_epoch == 0` edge (the one epoch
    change of a handshake without renegotiation), so a repeated or forged ChangeCipherSpec changes nothing."""
    r = RuleResult("R03.8", "K1", "an unauthenticated ChangeCipherSpec moves the read epoch at most once")
    n = 0
    for b in ctx.facts.bodies(prefix="transports::dtls::"):
        if "::tests::" in b.name or "security_tests" in b.name:
            continue
        ws = [w for w in core.field_writes(b, lambda f: f == "read_epoch", deep=True) if w[1] is not None]
        # initialisation inside a struct literal is not a field write; only real stores count
        if not ws:
            continue
        r.scope.append(b.name)

        def first_time(term, meaning, *_):
            t, neg = term, False
            while t[0] == "un" and t[1] == "Not":
                t, neg = t[2], not neg
            if t[0] == "bin" and t[1] in ("Eq", "Ne") and isinstance(meaning, bool) and mir.has_field(t, "read_epoch") and \
                    any(mir.int_value(x) == 0 for x in (t[2], t[3])):
                return (meaning != neg) is (t[1] == "Eq")
            return False
        g = core.guard_edges(b, first_time)
        for bi, si, st in ws:
            n += 1
            v = b.term_rvalue(st["rv"])
            const = isinstance(mir.int_value(v), int)
            if const and g and core.k1(b, [bi], g)[bi] is None:
                r.ok({"site": b.where(bi, si), "read_epoch := ": mir.show(v), "only when": "read_epoch == 0"})
            else:
                r.violate(b.name, "write:read_epoch", b.where(bi, si),
                          "read_epoch is %s here for every ChangeCipherSpec record, authenticated or not: a forged plaintext datagram changes "
                          "connection state after the handshake" % ("set" if const else "advanced (" + mir.show(v, 50) + ")"))
    r.need("stores to read_epoch", n, 1)
    return r


def run(ctx):
    return [r03_1(ctx), r03_2(ctx), r03_3(ctx), r03_4(ctx), r03_5(ctx), r03_6(ctx), r03_7(ctx), r03_8(ctx)]
