"""C06 — only authenticated STUN connectivity checks can influence ICE state."""
from engine import core, mir
from engine.core import RuleResult, suffix

EXPLANATION = (
    "Static analysis of rustc MIR of transports::ice. R06.1 request authentication: in handle_stun_request (and the "
    "TCP nomination helper it calls) every state effect - remote candidate learnt, selected pair stored/notified/"
    "published, transport state set Connected, nomination completed, check run triggered - must be cut by the success "
    "edge of a MESSAGE-INTEGRITY/USERNAME verification (a branch whose condition involves an HMAC keyed by the local "
    "ICE password, or a decoder-provided integrity verdict). No such branch exists today: each effect site is a known "
    "finding; a new unauthenticated effect site is still reported. R06.2 responses: in handle_packet a response is "
    "forwarded only on the Some edge of pending_transactions.remove(transaction_id); perform_binding_check returns Ok "
    "only past transaction-id == tx_id, method == Binding, class == SuccessResponse. MESSAGE-INTEGRITY of responses "
    "is not part of the statement and not decided.")
ASSUMPTIONS = ["effects are the listed ICE state fields/channels; deeper callees are summarised by name", "unwind edges are not paths"]
TRUSTED_BASE = ["rustc MIR construction", "engine CFG/terms", "effect list in rules/c06.py"]

REQ = "transports::ice::handle_stun_request::{closure#0}"
TCPNOM = "transports::ice::complete_controlled_inbound_tcp_nomination::{closure#0}"


def _authenticated_edge(term, meaning, *_):
    """edge proving the request carried valid credentials"""
    def auth_call(x):
        if x[0] != "call":
            return False
        n = x[1].lower()
        return ("hmac" in n or "message_integrity" in n or "verify_integrity" in n or "check_integrity" in n or "verify_message" in n
                or "constant_time_eq" in n or "valid_integrity" in n)
    def auth_field(x):
        return (x[0] == "field" and x[2] in ("integrity_ok", "integrity_verified", "message_integrity_valid", "authenticated")) or \
               (x[0] in ("var", "arg") and x[1] in ("authenticated", "integrity_ok"))
    if mir.has(term, auth_call):
        # the edge on which the verification SUCCEEDED (`!has_valid_integrity(..)` false, `has_valid_integrity(..)` true)
        t, neg = term, False
        while t[0] == "un" and t[1] == "Not":
            t, neg = t[2], not neg
        if isinstance(meaning, bool):
            return meaning != neg
        return meaning in ("Ok", "Some")
    return mir.has(term, auth_field) and (meaning is True or not isinstance(meaning, bool))


def _not_webrtc_edge(term, meaning, *_):
    """C06 speaks about WebRTC mode: the edge on which transport_mode is known NOT to be WebRtc (RTP-mode peers probe
    and latch with bare Binding requests by design)"""
    if term[0] == "call" and "PartialEq" in term[1] and isinstance(meaning, bool) and mir.has_field(term, "transport_mode") and \
            mir.has(term, lambda x: x[0] == "agg" and x[2] == "WebRtc"):
        return meaning is term[1].endswith("::ne")
    return False


def _effects(body):
    out = []
    for bi, t, p in core.calls_to(body, suffix("Vec::<T, A>::push")):
        if mir.has(body.term_operand(t["a"][0]), lambda x: x[0] == "field" and x[2] == "remote_candidates"):
            out.append((bi, "push:remote_candidates"))
    for bi, si, s, v in core.lock_write_sites(body, "selected_pair", methods=("::lock",)):
        out.append((bi, "store:selected_pair"))
    for bi, t, p in core.calls_to(body, lambda p: "watch::Sender" in p and p.endswith("::send")):
        a0 = body.term_operand(t["a"][0])
        if a0[0] == "field" and a0[2] in ("selected_pair_notifier", "state", "nomination_complete"):
            out.append((bi, "send:%s" % a0[2]))
    for bi, t, p in core.calls_to(body, lambda p: "mpsc" in p and p.endswith("::send")):
        a0 = body.term_operand(t["a"][0])
        if a0[0] == "field" and a0[2] == "cmd_tx":
            out.append((bi, "send:cmd_tx"))
    for bi, t, p in core.calls_to(body, suffix("ice::publish_selected_socket", "ice::complete_controlled_inbound_tcp_nomination")):
        out.append((bi, "call:%s" % p.split("::")[-1]))
    return out


AUTH_SET = "authenticated_tcp_peers"


def _member_edge(term, meaning, *_):
    """`authenticated_tcp_peers.contains(peer)` is true"""
    t, neg = term, False
    while t[0] == "un" and t[1] == "Not":
        t, neg = t[2], not neg
    if t[0] == "call" and t[1].endswith("::contains") and mir.has_field(t, AUTH_SET) and isinstance(meaning, bool):
        return meaning != neg
    return False


def _helper_callers_authenticated(ctx):
    """assume/guarantee for the inbound-TCP nomination helper, which has no credential check of its own: every call of
    it is cut by the verification-succeeded edge, the not-WebRtc edge, or membership of the stream's peer in
    `authenticated_tcp_peers`; and that set is only ever filled by the request handler at a point cut by the same
    edges. -> (ok, description)"""
    helper = TCPNOM.split("::{closure")[0]
    n_calls = 0
    for b in ctx.facts.all_bodies():
        if "::tests::" in b.name:
            continue
        calls = [bi for bi, t, p in b.calls() if p == helper or (t["f"].get("fn") or "") == helper]
        if not calls:
            continue
        g = core.guard_edges(b, _authenticated_edge) + core.guard_edges(b, _not_webrtc_edge) + core.guard_edges(b, _member_edge)
        for bi in calls:
            n_calls += 1
            if not g or core.k1(b, [bi], g)[bi] is not None:
                return False, "call at %s is not cut by an authentication edge" % b.where(bi)
    if n_calls == 0:
        return False, "no call site found"
    n_ins = 0
    for b in ctx.facts.all_bodies():
        if "::tests::" in b.name:
            continue
        ins = [bi for bi, t, p in b.calls() if p and p.endswith(("::insert", "::extend")) and t["a"] and mir.has_field(b.term_operand(t["a"][0]), AUTH_SET)]
        if not ins:
            continue
        g = core.guard_edges(b, _authenticated_edge) + core.guard_edges(b, _not_webrtc_edge)
        for bi in ins:
            n_ins += 1
            if b.name != REQ or not g or core.k1(b, [bi], g)[bi] is not None:
                return False, "%s filled at %s without a credential check" % (AUTH_SET, b.where(bi))
    if n_ins == 0:
        return False, "%s is never filled" % AUTH_SET
    return True, "all %d call sites of the helper are cut by verification / not-WebRtc / %s.contains(peer); the set is filled only past the credential check" % (n_calls, AUTH_SET)


def r06_1(ctx):
    r = RuleResult("R06.1", "K1", "inbound Binding requests change ICE state only after credential verification")
    total = 0
    helper_ok, helper_why = _helper_callers_authenticated(ctx)
    for name in (REQ, TCPNOM):
        b = ctx.body(name)
        r.scope.append(name)
        g = core.guard_edges(b, _authenticated_edge) + core.guard_edges(b, _not_webrtc_edge)
        for bi, site in _effects(b):
            total += 1
            if name == TCPNOM and helper_ok:
                r.ok({"site": "%s %s" % (b.where(bi), site), "cut_by": helper_why})
            elif g and core.k1(b, [bi], g)[bi] is None:
                r.ok({"site": "%s %s" % (b.where(bi), site), "cut_by": "message-integrity verification"})
            else:
                r.violate(name, site, b.where(bi),
                          "ICE state changed by a Binding request whose USERNAME / MESSAGE-INTEGRITY were never verified")
    r.need("state effect sites of inbound requests", total, 11)
    # the decoder must expose what is needed to verify (documented gap): reported once as part of the same finding set
    return r


R06_2_PROBE_STRICT = True


def r06_2(ctx):
    r = RuleResult("R06.2", "K1", "responses are honoured only for outstanding transactions")
    hp = ctx.body("transports::ice::handle_packet::{closure#0}")
    r.scope.append(hp.name)
    sends = [(bi, t) for bi, t, p in core.calls_to(hp, lambda p: "oneshot" in p and p.endswith("::send"))]
    r.need("response dispatch sites in handle_packet", len(sends), 2)

    def matched(term, meaning, *_):
        return term[0] == "discr" and meaning == "Some" and mir.has(term[1], lambda x: x[0] == "call" and x[1].endswith("::remove") and
                                                                   mir.has_field(x, "pending_transactions") and mir.has_field(x, "transaction_id"))
    g = core.guard_edges(hp, matched)
    for bi, t in sends:
        chan = hp.term_operand(t["a"][0])
        from_map = mir.has(chan, lambda x: x[0] == "call" and x[1].endswith("::remove") and mir.has_field(x, "pending_transactions"))
        if g and core.k1(hp, [bi], g)[bi] is None and from_map:
            r.ok({"site": hp.where(bi), "cut_by": "pending_transactions.remove(&msg.transaction_id) is Some"})
        else:
            r.violate(hp.name, "dispatch:response", hp.where(bi), "STUN response forwarded without matching an outstanding transaction")
    # the gathering probe reads its response by hand (it runs before any read loop exists): same obligation
    if R06_2_PROBE_STRICT:
        pb = ctx.body("transports::ice::IceGatherer::probe_stun::{closure#0}")
        r.scope.append(pb.name)

        def same_tx(term, meaning, *_):
            if term[0] == "call" and "PartialEq" in term[1] and isinstance(meaning, bool) and mir.has_field(term, "transaction_id"):
                return meaning is term[1].endswith("::eq")
            return False
        pg = core.guard_edges(pb, same_tx)
        uses = [sb for sb in range(len(pb.blocks)) if pb.blocks[sb]["t"]["k"] == "switch" and sb not in pb.cleanup and
                mir.has_field(pb.switch_info(sb)[0], "xor_mapped_address")]
        r.need("uses of the probe response's mapped address", len(uses), 1)
        for sb in uses:
            if pg and core.k1(pb, [sb], pg)[sb] is None:
                r.ok({"site": pb.where(sb), "cut_by": "response.transaction_id == the id of the request just sent"})
            else:
                r.violate(pb.name, "probe:unmatched-response", pb.where(sb),
                          "the gathering probe takes the mapped address from any datagram that arrives from the server's IP: a response that "
                          "matches no outstanding transaction creates a server-reflexive candidate with an address of the sender's choice")
    # no other effect in the response arms: state effects in handle_packet itself
    eff = _effects(hp)
    if eff:
        for bi, site in eff:
            r.violate(hp.name, site, hp.where(bi), "handle_packet changes ICE state directly")
    else:
        r.ok({"handle_packet direct ICE state effects": 0})
    pb = ctx.body("transports::ice::perform_binding_check::{closure#0}")
    r.scope.append(pb.name)
    oks = core.ok_return_blocks(pb)
    # Ok returns after awaiting the transaction channel (the non-TCP path): those reachable from the oneshot receive
    def cond(name):
        def pred(term, meaning, *_):
            if name == "txid":
                return term[0] == "call" and (term[1].endswith("::ne") or term[1].endswith("::eq")) and mir.has_field(term, "transaction_id") and \
                    mir.has(term, lambda x: x[0] == "var" and x[1] == "tx_id" or (x[0] == "call" and x[1].endswith("random_bytes"))) and \
                    meaning is term[1].endswith("::eq")
            if name == "method":
                return term[0] == "call" and "PartialEq" in term[1] and mir.has_field(term, "method") and \
                    mir.has(term, lambda x: x[0] == "agg" and x[2] == "Binding") and meaning is term[1].endswith("::eq")
            if name == "class":
                return term[0] == "call" and "PartialEq" in term[1] and mir.has_field(term, "class") and \
                    mir.has(term, lambda x: x[0] == "agg" and x[2] == "SuccessResponse") and meaning is term[1].endswith("::eq")
        return pred
    gs = {n: core.guard_edges(pb, cond(n)) for n in ("txid", "method", "class")}
    checked = 0
    for bi in oks:
        # only the UDP path's Ok (cut by class==Success at least)
        miss = [n for n, g in gs.items() if not g or core.k1(pb, [bi], g)[bi] is not None]
        if not miss:
            checked += 1
            r.ok({"site": pb.where(bi), "Ok only after": ["transaction_id == tx_id", "method == Binding", "class == SuccessResponse"]})
        elif miss == ["txid", "method"] or miss == ["method", "txid"]:
            # TCP framed path: one request per connection; response matched by class only (reviewed: stream is point-to-point)
            r.ok({"site": pb.where(bi), "note": "TCP stream path: response read from the dedicated connection, class == SuccessResponse"})
        elif "class" in miss:
            # delegated paths (TCP helper / early returns) are not success-of-check returns
            t = pb.var_def_terms(0)
            r.notes.append("Ok return at %s is not a response acceptance (delegation/early path)" % pb.where(bi))
    if checked < 1:
        r.violate(pb.name, "return:Ok", pb.where(0), "binding check success is not cut by transaction id / method / class tests")
    return r


DISPATCH = "transports::ice::shared_udp::SharedUdpPort::dispatch"


def r06_3(ctx):
    """on a shared (mux) UDP port a Binding request is routed by the ufrag in its USERNAME and by nothing else:
    the by-source-address fallback exists for packets that carry no ufrag (responses, DTLS, RTP). A request that
    names a ufrag must never reach that fallback, or it is handed to whichever session owns the source address
    although it was not addressed to it."""
    r = RuleResult("R06.3", "K1", "mux demultiplexer: a request naming a ufrag is routed by that ufrag only")
    b = ctx.body(DISPATCH)
    r.scope.append(DISPATCH)
    calls = [(bi, t) for bi, t, p in core.calls_to(b, suffix("peer_ufrag_from_binding_request"))]
    r.need("peer_ufrag_from_binding_request call in dispatch", len(calls), 1)
    fallback = [bi for bi, t, p in core.calls_to(b, suffix("HashMap::<K, V, S, A>::get"))
                if t["a"] and mir.has_field(b.term_operand(t["a"][0]), "peers")]
    r.need("by-address fallback lookups", len(fallback), 1)
    for cbi, ct in calls:
        cterm = b.term_call(ct)

        def only_call_or_none(x, depth=0):
            if x == cterm:
                return True
            if x[0] == "agg" and x[2] == "None":
                return True
            if x[0] == "phi":
                return all(only_call_or_none(y, depth + 1) for y in x[1])
            if x[0] == "var" and depth < 3 and len(x) > 2:
                ds = b.var_def_terms(x[2])
                return bool(ds) and all(only_call_or_none(y, depth + 1) for y in ds)
            return False

        def none_edge(term, meaning, *_):
            return term[0] == "discr" and meaning == "None" and only_call_or_none(term[1])
        g = core.guard_edges(b, none_edge)
        for fb in fallback:
            p = b.path_to([ct["to"]], fb, cut_edges=set(g))
            if p is None and g:
                r.ok({"site": b.where(fb), "cut_by": "None edge of peer_ufrag_from_binding_request(packet) itself"})
            else:
                r.violate(DISPATCH, "fallback:peers.get", b.where(fb),
                          "a Binding request that names a ufrag can fall through to the by-source-address lookup and be delivered "
                          "to a session it was not addressed to", core.describe_path(b, p) if p else "")
    return r


UNAUTH_READS_OK = {
    "username": "read in order to authenticate the request (first half must be the local ufrag)",
    "integrity": "read by has_valid_integrity in order to authenticate the request",
    "transaction_id": "echoed in the response; selects nothing",
    "use_candidate": "the nomination flag: its effect sites are the R06.1 known findings",
}


def _msg_params(ctx, name):
    """names of the parameters of (the async fn behind) `name` whose type is the decoded STUN message"""
    outer = name.split("::{closure")[0]
    ob = ctx.body(outer)
    return {ob.locals[i].get("n") for i in range(1, ob.argc + 1) if "StunDecoded" in ob.locals[i]["ty"]}


def r06_4(ctx):
    """what an inbound Binding request can influence. The request handlers act before any credential check (R06.1:
    known findings), so every field of the decoded message they read is attacker-chosen input to the ICE state. The
    fields read today are frozen; a handler that starts to read a further attribute (a PRIORITY that ranks the
    learned peer-reflexive candidate, a mapped address, ...) without being cut by a message-integrity verification
    gives a stranger a new lever - e.g. a priority that lets a forged USE-CANDIDATE displace the nominated pair."""
    r = RuleResult("R06.4", "K3", "the unauthenticated request handlers read only the listed message fields")
    adt = [a for n, a in ctx.facts.adts.items() if n.endswith("stun::StunDecoded")]
    if not adt:
        raise core.CheckerError("R06.4: StunDecoded type not found")
    fields = {x["n"] for x in adt[0]["variants"][0]["fields"]}
    n = 0
    for name in (REQ, TCPNOM):
        b = ctx.body(name)
        r.scope.append(name)
        params = _msg_params(ctx, name)
        g = core.guard_edges(b, _authenticated_edge) + core.guard_edges(b, _not_webrtc_edge)

        def from_msg(x):
            return x[0] == "field" and x[2] in fields and mir.has(x[1], lambda y: (y[0] in ("arg", "var") and y[1] in params) or
                                                                   (y[0] == "field" and y[2] in params))
        seen = {}
        for bi, blk in enumerate(b.blocks):
            if bi in b.cleanup:
                continue
            terms = []
            if blk["t"]["k"] == "switch":
                terms.append(b.switch_info(bi)[0])
            elif blk["t"]["k"] == "call":
                terms += [b.term_operand(a) for a in blk["t"]["a"]]
            for s_ in blk["s"]:
                if s_["k"] == "as":
                    terms.append(b.term_rvalue(s_["rv"]))
            for t in terms:
                for x in mir.walk(t):
                    if from_msg(x):
                        seen.setdefault(x[2], bi)
        for fld, bi in sorted(seen.items()):
            n += 1
            if fld in UNAUTH_READS_OK:
                r.ok({"handler": name.split("::")[-2], "field": fld, "why": UNAUTH_READS_OK[fld]})
            elif g and core.k1(b, [bi], g)[bi] is None:
                r.ok({"handler": name.split("::")[-2], "field": fld, "cut_by": "message-integrity verification"})
            else:
                r.violate(name, "read:msg.%s" % fld, b.where(bi),
                          "the request handler now reads `%s` of a Binding request whose USERNAME / MESSAGE-INTEGRITY were never verified: "
                          "a value chosen by any sender reaches the ICE state" % fld)
    r.need("message fields read by the request handlers", n, 2)
    return r


import re as _re

HVI = "transports::ice::stun::StunDecoded::has_valid_integrity"


def _unsized_array_len(b, op):
    """the operand of an `.iter()` call: if it is the unsize coercion of a reference to a fixed-size byte array, its length"""
    if not (isinstance(op, dict) and "p" in op and "p" not in op["p"]):
        return None
    l = op["p"]["l"]
    for bi, si, st in b.assigns():
        if st["p"]["l"] == l and "p" not in st["p"] and st["rv"]["r"] == "cast" and str(st["rv"].get("ck", "")).startswith("PointerCoercion(Unsize"):
            o = st["rv"]["o"]
            if "p" in o and "p" not in o["p"]:
                m = _re.search(r"\[u8; (\d+)\]", b.locals[o["p"]["l"]]["ty"])
                if m:
                    return int(m.group(1))
    return None


def r06_5(ctx):
    """the credential check itself: has_valid_integrity compares the received MESSAGE-INTEGRITY value with the HMAC it
    computes. `zip` stops at the shorter operand, so the comparison is only a comparison if both operands have the
    same length: two fixed-size arrays of equal size, or an explicit length test. A received value kept 'as is'
    (a Vec of whatever length the attribute had) makes a zero-length MESSAGE-INTEGRITY equal to every HMAC."""
    r = RuleResult("R06.5", "K6", "the MESSAGE-INTEGRITY comparison covers all 20 bytes of both operands")
    b = ctx.body(HVI)
    r.scope.append(HVI)
    zips = [(bi, t) for bi, t, p in b.calls() if p and p.endswith("Iterator::zip") and bi not in b.cleanup]
    if not zips:
        raise core.CheckerError("R06.5: has_valid_integrity has no zip pairing - comparison shape not recognised")
    iters = {}
    for bi, t, p in b.calls():
        if p and p.endswith("::iter") and t["a"] and "p" not in t["dst"]:
            iters[t["dst"]["l"]] = t["a"][0]
    for bi, t in zips:
        ta, tb = b.term_operand(t["a"][0]), b.term_operand(t["a"][1])
        computed = [x for x in (ta, tb) if mir.has(x, lambda y: y[0] == "call" and y[1].endswith("stun::hmac_sha1"))]
        received = [x for x in (ta, tb) if mir.has(x, lambda y: y[0] == "field" and y[2] == "integrity")
                    and not mir.has(x, lambda y: y[0] == "call" and y[1].endswith("stun::hmac_sha1"))]
        if len(computed) != 1 or len(received) != 1 or computed[0] is received[0]:
            r.violate(HVI, "mi:pairing", b.where(bi), "the comparison does not pair the computed HMAC with the received MESSAGE-INTEGRITY value")
            continue
        lens = []
        for a in t["a"][:2]:
            src = iters.get(a["p"]["l"]) if "p" in a and "p" not in a["p"] else None
            lens.append(_unsized_array_len(b, src) if src is not None else None)
        def len_test(term, meaning, *_):
            return term[0] == "bin" and term[1] in ("Eq", "Ne") and all(x[0] == "call" and x[1].endswith("::len") for x in (term[2], term[3])) \
                and isinstance(meaning, bool) and (meaning is (term[1] == "Eq"))
        g = core.guard_edges(b, len_test)
        if lens[0] is not None and lens[0] == lens[1]:
            r.ok({"site": b.where(bi), "operands": "two [u8; %d] arrays" % lens[0]})
        elif g and core.k1(b, [bi], g)[bi] is None:
            r.ok({"site": b.where(bi), "operands": "lengths compared before the bytewise comparison"})
        else:
            r.violate(HVI, "mi:length", b.where(bi),
                      "the bytewise comparison runs over operands of lengths %s without a length test: zip stops at the shorter one, so a "
                      "truncated (even empty) MESSAGE-INTEGRITY value equals any HMAC" % lens)
    rets = b.var_def_terms(0)
    if all((t[0] == "bin" and t[1] == "Eq" and mir.int_value(t[3]) == 0) or mir.int_value(t) == 0 for t in rets):
        r.ok({"verdict": "false, or accumulated difference == 0"})
    else:
        r.violate(HVI, "mi:verdict", b.where(0), "has_valid_integrity can return true other than through `difference == 0`")
    return r


DEC_STUN = "transports::ice::stun::decode_stun_message"


def r06_6(ctx):
    """RFC 5389 15.4: attributes that follow MESSAGE-INTEGRITY (other than FINGERPRINT) are not covered by it and
    MUST be ignored. If the decoder keeps interpreting them, anyone can append USE-CANDIDATE (or a different USERNAME)
    to a captured genuine check, fix the length field, and have an 'authenticated' request do something its sender
    never signed. So: the attribute dispatch of decode_stun_message interprets an attribute only while no
    MESSAGE-INTEGRITY has been seen - the dispatch is cut by the `integrity is None` edge, or its discriminant is the
    wire type only on that edge and otherwise a constant that no arm handles."""
    r = RuleResult("R06.6", "K1", "the STUN decoder interprets no attribute that follows MESSAGE-INTEGRITY")
    d = ctx.body(DEC_STUN)
    r.scope.append(DEC_STUN)

    def none_yet(term, meaning, *_):
        t, neg = term, False
        while t[0] == "un" and t[1] == "Not":
            t, neg = t[2], not neg
        if t[0] == "call" and t[1].endswith(("Option::<T>::is_some", "Option::<T>::is_none")) and isinstance(meaning, bool) and \
                mir.has(t, lambda x: x[0] == "var" and x[1] == "integrity"):
            return (meaning != neg) == t[1].endswith("is_none")
        if t[0] == "discr" and meaning == "None" and mir.has(t[1], lambda x: x[0] == "var" and x[1] == "integrity"):
            return True
        return False
    g = core.guard_edges(d, none_yet)
    sw = None
    for bi, blk in enumerate(d.blocks):
        if bi in d.cleanup or blk["t"]["k"] != "switch":
            continue
        term, regions = core.arm_regions(d, bi)
        vals = {k for k in regions if isinstance(k, int)}
        if {0x0020, 0x0025} <= vals:
            sw = (bi, term, vals)
    if sw is None:
        raise core.CheckerError("R06.6: attribute dispatch of decode_stun_message not found")
    bi, term, vals = sw
    if not g:
        r.violate(DEC_STUN, "after-mi", d.where(bi), "the decoder never asks whether MESSAGE-INTEGRITY was already seen: attributes appended behind it are interpreted")
        return r
    if core.k1(d, [bi], g)[bi] is None:
        r.ok({"dispatch": d.where(bi), "cut_by": "integrity is None"})
        return r
    alts = d.var_def_terms(term[2]) if term[0] == "var" and len(term) > 2 else [term]
    defs = d.defs().get(term[2], []) if term[0] == "var" and len(term) > 2 else []
    bad = None
    for dd, dt in zip(defs, alts):
        iv = mir.int_value(dt)
        if iv is not None:
            if iv in vals:
                bad = "after MESSAGE-INTEGRITY the dispatch value is the constant %s, which an arm handles" % hex(iv)
        else:
            if core.k1(d, [dd[1]], g)[dd[1]] is not None:
                bad = "the wire attribute type reaches the dispatch also after MESSAGE-INTEGRITY was seen"
    if not defs:
        bad = "the dispatch switches on the wire attribute type on every path"
    if bad:
        r.violate(DEC_STUN, "after-mi", d.where(bi), bad + ": attributes appended behind MESSAGE-INTEGRITY (USE-CANDIDATE, USERNAME ...) are interpreted although nothing authenticates them")
    else:
        r.ok({"dispatch": d.where(bi), "discriminant": "wire type only while integrity is None, otherwise a constant no arm handles"})
    return r


def r06_7(ctx):
    """'... or moves the transport to Connected, whatever ... the ICE state': in WebRTC mode the keepalive tick moves a
    Disconnected transport back to Connected (and keeps a Connected one from ever reaching Disconnected / Failed) on
    the strength of ONE value: the time of the last inbound datagram. Whatever refreshes that timestamp influences the
    ICE state like any other effect. DTLS and media refresh it as they arrive (they are authenticated further up and
    are not STUN); a STUN message may refresh it only once it has proved that it belongs to this session - a request past
    the credential check, a response that matches a transaction of ours. Decided: every refresh of the liveness
    timestamp on the inbound path is cut by one of: first byte >= 2 (not STUN), the Some edge of
    pending_transactions.remove(id), the verification-succeeded / not-WebRTC edges of the request handler."""
    r = RuleResult("R06.7", "K1", "only session traffic refreshes the liveness timestamp that moves the transport (back) to Connected")
    field = "last_received_nanos"
    # functions that refresh the timestamp themselves
    direct = {}
    for b in ctx.facts.bodies(prefix="transports::ice::"):
        if "::tests::" in b.name:
            continue
        st = [bi for bi, t, args in core.atomic_sites(b, field, "store")]
        if st:
            direct[b.name] = st
    if not direct:
        raise core.CheckerError("R06.7: no writer of the liveness timestamp found")
    HP = "transports::ice::handle_packet::{closure#0}"
    n = 0
    for name in (HP, REQ):
        b = ctx.body(name)
        r.scope.append(name)
        sites = list(direct.get(name, [])) + [bi for bi, t, p in b.calls() if p in direct and bi not in b.cleanup]
        if name == HP:
            def not_stun(term, meaning, *_):
                if term[0] == "bin" and isinstance(meaning, bool) and mir.int_value(term[3]) == 2 and \
                        mir.has(term[2], lambda x: x[0] == "index" or (x[0] == "field" and x[2] == "packet") or x == ("arg", "packet")):
                    return meaning is (term[1] in ("Ge", "Gt")) if term[1] in ("Ge", "Lt") else False
                return False

            def matched(term, meaning, *_):
                return term[0] == "discr" and meaning == "Some" and mir.has(term[1], lambda x: x[0] == "call" and x[1].endswith("::remove") and
                                                                           mir.has_field(x, "pending_transactions"))
            g = core.guard_edges(b, not_stun) + core.guard_edges(b, matched)
            why = "not STUN (first byte >= 2), or a response matching an outstanding transaction"
        else:
            g = core.guard_edges(b, _authenticated_edge) + core.guard_edges(b, _not_webrtc_edge)
            why = "credential verification succeeded / not WebRTC mode"
        for bi in sites:
            n += 1
            if g and core.k1(b, [bi], g, fresh_per_iteration=True)[bi] is None:
                r.ok({"site": b.where(bi), "cut_by": why})
            else:
                r.violate(name, "alive:unauthenticated", b.where(bi),
                          "the liveness timestamp is refreshed by a datagram that has proved nothing: anybody's bare Binding request brings a "
                          "Disconnected transport back to Connected and keeps a dead one from ever failing")
    r.need("liveness refresh sites on the inbound path", n, 1)
    return r


def r06_8(ctx):
    """'does not carry this session's username': the ICE USERNAME is "<local ufrag>:<remote ufrag>". R06.1 shows the
    MESSAGE-INTEGRITY half of the gate; this rule is the USERNAME half, both fragments. Every state effect of
    handle_stun_request is cut (a) by the edge on which the first half equals the local fragment, and (b) by an edge on
    which the second half equals the remote parameters' fragment - or the remote parameters are not known yet (checks
    can arrive before the answer). A request that names another peer fragment (forked offer, earlier generation of the
    peer) passed the old gate as long as it was keyed with the local password."""
    r = RuleResult("R06.8", "K1", "both halves of USERNAME are this session's before a request changes ICE state")
    b = ctx.body(REQ)
    r.scope.append(REQ)
    nw = core.guard_edges(b, _not_webrtc_edge)

    def cmp_edge(term, meaning, what):
        t, neg = term, False
        while t[0] == "un" and t[1] == "Not":
            t, neg = t[2], not neg
        if t[0] == "call" and "PartialEq" in t[1] and isinstance(meaning, bool) and mir.has(t, what) and \
                mir.has(t, lambda x: x[0] == "field" and x[2] == "username"):
            return (meaning != neg) is t[1].endswith("::eq")
        return False

    def local_half(term, meaning, *_):
        return cmp_edge(term, meaning, lambda x: (x[0] == "var" and x[1] == "local_ufrag") or (x[0] == "field" and x[2] == "local_parameters"))

    def is_remote(x):
        return (x[0] == "var" and x[1] in ("remote_ufrag", "expected")) or (x[0] == "field" and x[2] == "remote_parameters")

    def peer_half(term, meaning, *_):
        if cmp_edge(term, meaning, is_remote):
            return True
        # remote parameters unknown: the None edge of `remote_ufrag.as_deref()` / `remote_parameters.lock().as_ref()`
        return term[0] == "discr" and meaning == "None" and mir.has(term[1], is_remote) and \
            not mir.has(term[1], lambda x: x[0] == "field" and x[2] == "username")
    gl = core.guard_edges(b, local_half)
    bare = []
    # `let for_us = match username { Some(u) => <u's first half> == local_ufrag, None => false }; if !for_us .. return`:
    # the comparison is stored in a temporary; its true edge is the guard when every definition of the temporary is either
    # the constant false or such a comparison
    for sb in range(len(b.blocks)):
        if sb in b.cleanup or b.blocks[sb]["t"]["k"] != "switch":
            continue
        term, outs = b.switch_info(sb)
        t, neg = term, False
        while t[0] == "un" and t[1] == "Not":
            t, neg = t[2], not neg
        if t[0] != "var" or len(t) < 3:
            continue
        defs_ = b.var_def_terms(t[2])
        if not defs_:
            continue
        ok = True
        some_cmp = False
        for d in defs_:
            if mir.int_value(d) == 0 or d == ("const", 0, "false"):
                continue
            if d[0] == "call" and "PartialEq" in d[1] and d[1].endswith("::eq") and \
                    mir.has(d, lambda x: (x[0] == "var" and x[1] == "local_ufrag") or (x[0] == "field" and x[2] == "local_parameters")) and \
                    mir.has(d, lambda x: x[0] == "field" and x[2] == "username"):
                # the compared half has to come from a split that REQUIRES the ':' (split_once): `split(':').next()` also
                # accepts a bare local fragment, which is not an ICE username - and passes while the peer's is unknown
                if mir.has(d, lambda x: x[0] == "call" and x[1].endswith("::split_once")):
                    some_cmp = True
                    continue
                bare.append(sb)
                some_cmp = True
                continue
            ok = False
        if ok and some_cmp:
            gl += [(sb, tgt) for tgt, _, m in outs if isinstance(m, bool) and (m != neg) is True]
    gl = core.lift_guards(b, gl)
    gp = core.lift_guards(b, core.guard_edges(b, peer_half))
    n = 0
    for bi, site in _effects(b):
        n += 1
        for g, half, msg in ((gl, "local", "its first half was never compared with the local fragment"),
                             (gp, "peer", "its second half is never compared with the peer's fragment: a request keyed with the local password but "
                              "naming another peer fragment adds candidates / nominates")):
            if g and core.k1(b, [bi], g + nw)[bi] is None:
                r.ok({"site": "%s %s" % (b.where(bi), site), "cut_by": "USERNAME %s half" % half})
            else:
                r.violate(REQ, "username:%s-half:%s" % (half, site), b.where(bi), "ICE state changed by a Binding request whose USERNAME is not this session's: " + msg)
    r.need("state effect sites of inbound requests", n, 8)
    if bare:
        r.violate(REQ, "username:bare-fragment", b.where(bare[0]),
                  "the local half is taken with a split that does not require the ':' separator: a USERNAME consisting of the local fragment "
                  "alone passes (and, while the peer's parameters are unknown, nothing else looks at it)")
    else:
        r.ok({"username": "split_once(':') - both halves must be present"})
    return r


def run(ctx):
    return [r06_1(ctx), r06_2(ctx), r06_3(ctx), r06_4(ctx), r06_5(ctx), r06_6(ctx), r06_7(ctx), r06_8(ctx)]
