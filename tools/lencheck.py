#!/usr/bin/env python3
"""debug: run the length analysis on one function and print every site with its verdict"""
import sys, os
sys.path.insert(0, os.path.join(os.path.dirname(os.path.abspath(__file__)), ".."))
from engine import core, mir, lenana
c = core.Ctx("C07", "quick")
for name in sys.argv[1:]:
    b = c.body(name)
    a = lenana.Analyzer(b)
    sites = a.run()
    print("==", name, len(sites), "sites,", sum(1 for s in sites if s.proven), "proven")
    for s in sites:
        print("  %-8s %-28s %s  [%s]" % ("PROVEN" if s.proven else "UNPROVEN", s.kind, s.where, (s.src or "")[:60]))
        if not s.proven or "-v" in sys.argv:
            for txt, ok in s.obligations:
                print("        %s %s" % ("ok " if ok else "NO ", txt[:150]))
