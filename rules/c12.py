"""C12 — data channel messages keep their boundaries, channel and delivery mode."""
from engine import core, mir
from engine.core import RuleResult, suffix

EXPLANATION = (
    "Static analysis of rustc MIR of transports::{sctp,datachannel}. R12.1 Open exactly once: every "
    "send_event(DataChannelEvent::Open) is cut by the success edge of state.compare_exchange(Connecting, Open) (or "
    "swap(Open) != Open), or announces the channel object created in the same function. R12.2 Close at most once: "
    "every send_event(Close) is cut by an edge proving this call performed the transition to Closed. R12.3 all "
    "fragments of one message are pushed while one outbound_queue guard is held; B is set only on the offset==0 edge "
    "and E only on the last-fragment edge; the SSN is drawn under the per-channel send_lock. R12.4 DCEP channel-type "
    "table: literals produced by send_dcep_open and masks decoded by handle_dcep agree with RFC 8832; PPIDs 50/51/53. "
    "R12.5 FORWARD-TSN orders TSNs with serial arithmetic only. Does not decide no-merge/no-split under loss nor "
    "65536-message wraparound behaviour.")
ASSUMPTIONS = ["atomic compare_exchange/swap are linearizable", "unwind edges are not paths"]
TRUSTED_BASE = ["rustc MIR construction", "engine CFG/terms/guard-liveness", "RFC 8832 table in rules/c12.py"]

SEND_EVENT = "transports::datachannel::DataChannel::send_event"


def _events(ctx, variant):
    out = []
    for body in ctx.facts.all_bodies():
        if "::tests::" in body.name or "tests::" in body.name.split("::{closure")[0].split("::")[-2:-1]:
            continue
        for bi, t, p in core.calls_to(body, lambda p: p == SEND_EVENT):
            a = body.term_operand(t["a"][1])
            if a[0] == "agg" and a[2] == variant:
                out.append((body, bi, t))
        # an event put on the channel's sender directly (not through send_event) is an announcement all the same
        if body.name == SEND_EVENT or body.name.startswith(SEND_EVENT + "::"):
            continue
        for bi, t, p in body.calls():
            if p and "mpsc" in p and p.split("::")[-1] in ("send", "try_send") and len(t["a"]) > 1:
                a = body.term_operand(t["a"][1])
                if a[0] == "agg" and a[1].endswith("DataChannelEvent") and a[2] == variant:
                    out.append((body, bi, t))
    return out


def _state_value(ctx, variant):
    adt = ctx.facts.adts.get("transports::datachannel::DataChannelState")
    if adt is None:
        raise core.CheckerError("DataChannelState enum not found")
    for v in adt["variants"]:
        if v["name"] == variant:
            return v["discr"]
    raise core.CheckerError("DataChannelState::%s not found" % variant)


def _state_transition_guard(ctx, target):
    """edges proving that *this* call moved dc.state to `target`"""
    tv = _state_value(ctx, target)

    def is_target(x):
        return mir.int_value(x) == tv or mir.has(x, lambda y: y[0] == "agg" and y[2] == target)

    def pred(term, meaning, *_):
        def is_cas(x):
            return x[0] == "call" and x[1].endswith("::compare_exchange") and mir.has_field(x[2][0], "state") and is_target(x[2][2])
        if term[0] == "call" and term[1].endswith("::is_ok") and mir.has(term[2][0], is_cas) and meaning is True:
            return True
        if term[0] == "call" and term[1].endswith("::is_err") and mir.has(term[2][0], is_cas) and meaning is False:
            return True
        if term[0] == "discr" and mir.has(term[1], is_cas) and meaning in ("Ok", "Continue"):
            return True

        def is_swap(x):
            return x[0] == "call" and x[1].endswith("::swap") and mir.has_field(x[2][0], "state") and is_target(x[2][1])
        if term[0] == "bin" and term[1] in ("Ne", "Eq"):
            a, b = term[2], term[3]
            for x, y in ((a, b), (b, a)):
                if is_swap(x) and is_target(y):
                    return meaning is (term[1] == "Ne")
        return False
    return pred


def r12_1(ctx):
    r = RuleResult("R12.1", "K1", "Open announced exactly once per channel")
    sites = _events(ctx, "Open")
    r.need("send_event(Open) sites", len(sites), 4)
    for body, bi, t in sites:
        r.scope.append(body.name)
        dc = body.term_operand(t["a"][0])
        # channel created in this function (fresh object cannot have been announced before)
        fresh = mir.has(dc, lambda x: x[0] == "call" and x[1].endswith("DataChannel::new"))
        g = core.guard_edges(body, _state_transition_guard(ctx, "Open"))
        if fresh:
            r.ok({"site": body.where(bi), "reason": "announces the DataChannel created in this function"})
        elif g and core.k1(body, [bi], g, fresh_per_iteration=True)[bi] is None:
            r.ok({"site": body.where(bi), "cut_by": "state.compare_exchange(Connecting -> Open) succeeded"})
        else:
            r.violate(body.name, "event:Open", body.where(bi),
                      "Open is announced without this call having performed the Connecting->Open transition "
                      "(a duplicated COOKIE-ACK/COOKIE-ECHO re-announces Open)")
    return r


def r12_2(ctx):
    r = RuleResult("R12.2", "K1", "Close announced at most once per channel")
    sites = _events(ctx, "Close")
    r.need("send_event(Close) sites", len(sites), 2)
    # a second once-only idiom: Close is put on the channel's event sender after TAKING it out of the channel
    # (`self.tx.lock().take()`): the sender exists once, so this path announces at most once - provided every other
    # announcement also ends the event stream (drops the sender; rule R17.19), or a channel closed the first way could be
    # announced again the second way
    def on_taken_sender(body, t):
        a0 = body.term_operand(t["a"][0])
        forms = [a0] + list(core.expand_vars(body, a0, depth=3))
        return any(mir.has(f, lambda x: x[0] == "call" and x[1].endswith("Option::<T>::take") and x[2] and mir.has_field(x[2][0], "tx")) for f in forms)
    others_end_stream = None
    for body, bi, t in sites:
        r.scope.append(body.name)
        g = core.guard_edges(body, _state_transition_guard(ctx, "Closed"))
        if g and core.k1(body, [bi], g, fresh_per_iteration=True)[bi] is None:
            r.ok({"site": body.where(bi), "cut_by": "this call moved state to Closed (swap/compare_exchange)"})
        elif on_taken_sender(body, t):
            if others_end_stream is None:
                from rules import c17
                others_end_stream = all(ended for _b, _bi, ended in c17.close_sites_end_stream(ctx))
            if others_end_stream:
                r.ok({"site": body.where(bi), "cut_by": "sent on the event sender taken out of the channel; every other announcement drops the sender (R17.19)"})
            else:
                r.violate(body.name, "event:Close", body.where(bi),
                          "Close is put on the taken event sender, but another announcement leaves the sender in place (R17.19): a channel "
                          "closed that way is announced again here")
        else:
            r.violate(body.name, "event:Close", body.where(bi),
                      "Close is announced without proving that this call performed the transition to Closed "
                      "(closing a channel twice, or after association teardown, announces Close again)")
    return r


def r12_2b(ctx):
    r = RuleResult("R12.2b", "K3", "Closed is terminal: no plain store can move a channel away from Closed")
    closed = _state_value(ctx, "Closed")
    n = 0
    for body in ctx.facts.all_bodies():
        if "::tests::" in body.name:
            continue
        for bi, t, args in core.atomic_sites(body, "state", "store"):
            ty = ""
            if not (mir.has(args[0], lambda x: x[0] == "call" and "DataChannel" in x[1]) or "datachannel" in body.name or
                    mir.int_value(args[1]) in (0, 1, 2, 3) and "sctp::" in body.name and mir.has(args[1], lambda x: x[0] == "item" and "DataChannelState" in x[1])):
                continue
            n += 1
            v = mir.int_value(args[1])
            fresh = mir.has(args[0], lambda x: x[0] == "call" and x[1].endswith("DataChannel::new"))
            if v == closed or fresh:
                r.ok({"site": body.where(bi), "store": v, "fresh_object": fresh})
            else:
                r.violate(body.name, "store:state=%s" % v, body.where(bi),
                          "unconditional store to DataChannel.state can move a Closed channel back (a later close then announces Close again)")
    r.need("DataChannel state stores", n, 1)
    return r


def r12_3(ctx):
    r = RuleResult("R12.3", "K5+K1", "fragments contiguous under one queue lock; B/E flags; SSN under send_lock")
    sd = ctx.body("transports::sctp::SctpInner::send_data_raw::{closure#0}")
    r.scope.append(sd.name)
    # the fragment loop lives in send_data_raw itself or in the synchronous helper it hands the message to
    helper = "transports::sctp::SctpInner::enqueue_message"
    b = ctx.body(helper) if ctx.facts.has_body(helper) else sd
    if b is not sd:
        r.scope.append(b.name)
        hc = [bi for bi, t, p in sd.calls() if p and p.endswith("::enqueue_message")]
        r.need("enqueue_message calls in send_data_raw", len(hc), 2)
        if b.rec.get("async") or any(blk["t"]["k"] == "yield" for blk in b.blocks):
            r.violate(b.name, "helper:async", b.where(0), "the fragment-queueing helper can suspend: fragments of concurrent messages can interleave")
    pushes = [bi for bi, t, p in core.calls_to(b, suffix("VecDeque::<T, A>::push_back")) if mir.has_field(b.term_operand(t["a"][0]), "outbound_queue")]
    r.need("outbound_queue pushes", len(pushes), 2)
    loops = b.loops()
    for bi in pushes:
        held = core.held_locks_at(b, bi)
        in_loop = [h for h, blocks in loops if bi in blocks]
        ok = any(f == "outbound_queue" for f, _ in held)
        if ok and in_loop:
            # the guard must have been taken outside the fragment loop (one guard for all fragments)
            lock_b = [lb for f, lb in held if f == "outbound_queue"][0]
            inner = [blocks for h, blocks in loops if bi in blocks]
            outside = all(lock_b not in blocks for blocks in inner)
            if not outside:
                ok = False
        if ok:
            r.ok({"site": b.where(bi), "under": "outbound_queue guard taken before the fragment loop" if in_loop else "outbound_queue guard"})
        else:
            r.violate(b.name, "push:outbound_queue", b.where(bi), "fragment enqueued without one continuous outbound_queue guard (messages can interleave)")
    # flags
    fl = [i for i, l in enumerate(b.locals) if l.get("n") == "flags"]
    nB = nE = 0
    for bi, si, s in b.assigns():
        if s["p"]["l"] in fl and "p" not in s["p"]:
            v = b.term_rvalue(s["rv"])
            if v[0] == "bin" and v[1] == "BitOr" and v[3][0] == "const":
                bit = v[3][1]
                if bit == 2:
                    nB += 1
                    def first(term, meaning, *_):
                        return term[0] == "bin" and term[1] == "Eq" and term[2][0] == "var" and term[2][1] == "offset" and term[3][0] == "const" and term[3][1] == 0 and meaning is True
                    g = core.guard_edges(b, first)
                    if g and core.k1(b, [bi], g, fresh_per_iteration=True)[bi] is None:
                        r.ok({"site": b.where(bi, si), "B bit only when": "offset == 0"})
                    else:
                        r.violate(b.name, "flag:B", b.where(bi, si), "B (begin) flag set on a fragment that is not the first")
                elif bit == 1:
                    nE += 1
                    def last(term, meaning, *_):
                        return term[0] == "bin" and term[1] == "Ge" and mir.has(term[2], lambda x: x[0] == "var" and x[1] == "offset") and \
                            mir.has(term[3], lambda x: x[0] == "call" and x[1].endswith("::len")) and meaning is True
                    g = core.guard_edges(b, last)
                    if g and core.k1(b, [bi], g, fresh_per_iteration=True)[bi] is None:
                        r.ok({"site": b.where(bi, si), "E bit only when": "offset + size >= total_len"})
                    else:
                        r.violate(b.name, "flag:E", b.where(bi, si), "E (end) flag set on a fragment that is not the last")
    r.need("B flag sites", nB, 1)
    r.need("E flag sites", nE, 1)
    ssn = [(bi, t) for bi, t, p in core.calls_to(sd, suffix("::fetch_add")) if sd.term_operand(t["a"][0])[0] == "field" and sd.term_operand(t["a"][0])[2] == "next_ssn"]
    r.need("next_ssn.fetch_add sites", len(ssn), 1)
    for bi, t in ssn:
        if any(f == "send_lock" for f, _ in core.held_locks_at(sd, bi)):
            r.ok({"site": sd.where(bi), "under": "dc.send_lock"})
        else:
            r.violate(sd.name, "fetch_add:next_ssn", sd.where(bi), "SSN drawn without the per-channel send_lock")
        if b is not sd:
            # ... and the message is handed to the helper while that lock is still held
            after = sd.reachable([x for x, _ in sd.succ_edges(bi)])
            lock_b = [lb for f, lb in core.held_locks_at(sd, bi) if f == "send_lock"]
            for hb in [x for x in hc if x in after]:
                if lock_b and core.guard_live_at(sd, lock_b[0], hb):
                    r.ok({"site": sd.where(hb), "queued under": "dc.send_lock"})
                else:
                    r.violate(sd.name, "enqueue:without-send_lock", sd.where(hb), "the message that drew the SSN is queued after the send lock was released: two sends can queue in the other order")
    # the send_lock guard stays alive until the fragments are enqueued: no drop of the `_guard` holder before the pushes
    return r


RFC8832 = {0x00: ("reliable", True), 0x80: ("reliable", False), 0x01: ("rexmit", True), 0x81: ("rexmit", False),
           0x02: ("timed", True), 0x82: ("timed", False)}


def r12_4(ctx):
    r = RuleResult("R12.4", "K6", "DCEP channel-type table and PPIDs agree with RFC 8832")
    want = {"transports::datachannel::DATA_CHANNEL_PPID_DCEP": 50, "transports::datachannel::DATA_CHANNEL_PPID_STRING": 51,
            "transports::datachannel::DATA_CHANNEL_PPID_BINARY": 53, "transports::datachannel::DCEP_TYPE_OPEN": 3,
            "transports::datachannel::DCEP_TYPE_ACK": 2}
    for k, v in want.items():
        c = ctx.facts.consts.get(k)
        if c is None:
            # constants may live in sctp.rs
            alt = [x for x in ctx.facts.consts if x.endswith("::" + k.split("::")[-1])]
            c = ctx.facts.consts.get(alt[0]) if alt else None
        if c is None:
            raise core.CheckerError("R12.4: constant %s not found" % k)
        if c.get("v") == v:
            r.ok({"const": k.split("::")[-1], "value": v})
        else:
            r.violate("transports::datachannel", "const:%s" % k.split("::")[-1], "%s:%d" % (c["sp"]["f"], c["sp"]["l"]), "%s = %s, RFC 8832 says %d" % (k, c.get("v"), v))
    # encoder: literals assigned to channel_type in send_dcep_open
    helper = "transports::sctp::SctpInner::dcep_open_message"
    enc = ctx.body(helper) if ctx.facts.has_body(helper) else ctx.body("transports::sctp::SctpInner::send_dcep_open::{closure#0}")
    r.scope.append(enc.name)
    lits = set()
    for x in ("channel_type",):
        for i, l in enumerate(enc.locals):
            if l.get("n") == x:
                for t in enc.var_def_terms(i):
                    for y in mir.walk(t):
                        if y[0] == "const" and isinstance(y[1], int):
                            lits.add(y[1])
    if not lits:
        raise core.CheckerError("R12.4: channel_type literals not found in send_dcep_open")
    bad = sorted(l for l in lits if l not in RFC8832)
    if bad:
        r.violate(enc.name, "channel_type", enc.where(0), "DCEP OPEN encodes channel types %s not in RFC 8832" % [hex(b) for b in bad])
    else:
        r.ok({"encoder channel types": sorted(hex(l) for l in lits)})
    # decoder masks in handle_dcep
    dec = ctx.body("transports::sctp::SctpInner::handle_dcep::{closure#0}")
    r.scope.append(dec.name)
    masks = []
    for bi, b in enumerate(dec.blocks):
        for s in b["s"]:
            if s["k"] == "as":
                t = dec.term_rvalue(s["rv"])
                if t[0] == "bin" and t[1] in ("Eq", "Ne") and t[2][0] == "bin" and t[2][1] == "BitAnd" and mir.has_field(t[2], "channel_type"):
                    masks.append((t[2][3][1], t[1], t[3][1]))
    need = {(0x80, "Eq", 0), (0x03, "Eq", 1), (0x03, "Eq", 2)}
    if need <= set(masks):
        r.ok({"decoder": "ordered = (type & 0x80) == 0; rexmit = (type & 3) == 1; timed = (type & 3) == 2"})
    else:
        r.violate(dec.name, "masks", dec.where(0), "DCEP OPEN decoding masks %s differ from RFC 8832 (%s)" % (sorted(masks), sorted(need)))
    return r


def _tsn_name(n):
    n = n.lower()
    return "tsn" in n and "retransmit" not in n and "count" not in n


def serial_compare_violations(ctx, fn, r):
    """raw <,>,<=,>= on TSN/SSN-typed values (must use wrapping_sub / tsn_gt / ssn_gt)"""
    body = ctx.body(fn)
    r.scope.append(fn)
    SRC = ("cumulative_tsn_ack", "next_tsn", "advanced_peer_ack_tsn")
    n = 0
    for bi, b in enumerate(body.blocks):
        if bi in body.cleanup:
            continue
        for si, s in enumerate(b["s"]):
            if s["k"] != "as" or s["rv"]["r"] != "bin" or s["rv"]["op"] not in ("Lt", "Le", "Gt", "Ge"):
                continue
            ta = body.local_ty(s["rv"]["a"]["p"]["l"]) if s["rv"]["a"]["k"] in ("cp", "mv") and "p" not in s["rv"]["a"]["p"] else s["rv"]["a"].get("ty")
            if ta != "u32":
                continue
            t = body.term_rvalue(s["rv"])
            a, c = t[2], t[3]

            def is_tsn(x):
                return mir.has(x, lambda y: (y[0] == "call" and y[1].endswith("::load") and y[2] and (mir.field_path(y[2][0]) or "").split(".")[-1] in SRC)
                               or (y[0] in ("var", "arg") and _tsn_name(y[1]))
                               or (y[0] == "field" and _tsn_name(y[2])))
            def is_plain_len(x):
                return mir.has(x, lambda y: y[0] == "call" and (y[1].endswith("::len") or y[1].endswith("::remaining")))
            if (is_tsn(a) or is_tsn(c)) and not is_plain_len(a) and not is_plain_len(c):
                # differences already computed with wrapping_sub are fine
                if any(z[0] == "call" and z[1].endswith("wrapping_sub") for z in (a, c)):
                    continue
                n += 1
                r.violate(fn, "cmp:%s" % s["rv"]["op"], body.where(bi, si),
                          "TSNs ordered with a raw `%s` instead of serial arithmetic (wraps at 2^32)" % s["rv"]["op"])
    return n


def r12_5(ctx):
    r = RuleResult("R12.5", "K6", "FORWARD-TSN uses serial number arithmetic")
    fn = "transports::sctp::SctpInner::handle_forward_tsn::{closure#0}"
    n = serial_compare_violations(ctx, fn, r)
    # closure used by received_queue.retain
    for b in ctx.family("transports::sctp::SctpInner::handle_forward_tsn"):
        if b.name != fn and b.name != "transports::sctp::SctpInner::handle_forward_tsn":
            n += serial_compare_violations(ctx, b.name, r)
    if n == 0:
        r.ok({"function": fn, "raw TSN comparisons": 0})
    return r


APA = "transports::sctp::SctpInner::update_advanced_peer_ack_point"



POLICY_FIELDS = ("max_retransmits", "expiry")


def _policy_edges(b):
    """switch edges that say whether the chunk record at hand has a partial-reliability policy of its own
    (`record.max_retransmits.is_some() || record.expiry.is_some()`, also through a bool local holding that value):
    -> (edges meaning it has one, edges meaning it has none). The policy is set per message in send_data_raw, so
    it is the same for every chunk of a message."""
    has, hasnt = set(), set()

    def is_policy_test(t):
        return t[0] == "call" and t[1].endswith(("Option::<T>::is_some", "Option::<T>::is_none")) and \
            mir.has(t, lambda x: x[0] == "field" and x[2] in POLICY_FIELDS)
    for sb in range(len(b.blocks)):
        if sb in b.cleanup or b.blocks[sb]["t"]["k"] != "switch":
            continue
        term, outs = b.switch_info(sb)
        t, neg = term, False
        while t[0] == "un" and t[1] == "Not":
            t, neg = t[2], not neg
        for tgt, _, m in outs:
            verdict = None
            if is_policy_test(t) and isinstance(m, bool):
                verdict = (m != neg) == t[1].endswith("is_some")
            elif t[0] == "discr" and m in ("Some", "None") and mir.has(t[1], lambda x: x[0] == "field" and x[2] in POLICY_FIELDS) \
                    and not mir.has(t[1], lambda x: x[0] == "call"):
                verdict = (m == "Some")
            elif t[0] == "var" and len(t) > 2 and isinstance(m, bool):
                defs = b.var_def_terms(t[2])
                if defs and any(is_policy_test(d) for d in defs) and all(is_policy_test(d) or mir.int_value(d) in (0, 1) for d in defs):
                    verdict = (m != neg)
            if verdict is True:
                has.add((sb, tgt))
            elif verdict is False:
                # "max_retransmits is None" alone does not mean "no policy" (expiry may be set): only the combined
                # bool, or a test that is the last of an `a || b` chain, does. Accept the combined bool only.
                if t[0] == "var":
                    hasnt.add((sb, tgt))
    return has, hasnt


def r12_6(ctx):
    """RETIRED (not in run()): since the receiver drops fragments that arrive without their B fragment (fix 1f995e1) and
    discards the message in progress when a FORWARD-TSN skips past it (fix e6f5fa7, R12.11), a sender that abandons only
    part of a message can no longer make a rustrtc receiver deliver a fabricated message - the rule would demand more than
    the property. Kept for reference.
    abandonment is per message: once a (stream, ssn) is in the abandon set, every chunk record of that
    message is marked abandoned - no per-chunk predicate (acked, in_flight ..) may let a chunk of the message
    escape, else FORWARD-TSN stops short of the message end and the receiver assembles the remaining tail
    fragments into a message nobody submitted."""
    r = RuleResult("R12.6", "K4", "PR-SCTP abandons whole messages: every chunk of an abandoned (stream, ssn) is marked")
    b = ctx.body(APA)
    r.scope.append(APA)
    ws = [(bi, si) for bi, si, st in core.field_writes(b, lambda f: f == "abandoned")
          if si is not None and b.term_rvalue(st["rv"])[:2] == ("const", 1)]
    r.need("abandoned = true sites in update_advanced_peer_ack_point", len(ws), 1)
    for wbi, wsi in ws:
        hdrs = [h for h, blocks in b.loops() if wbi in blocks]
        if not hdrs:
            r.violate(APA, "write:abandoned", b.where(wbi, wsi), "marking is not inside the sweep over the sent queue")
            continue
        # innermost loop
        h, blocks = min(((h, bl) for h, bl in b.loops() if wbi in bl), key=lambda x: len(x[1]))
        starts, cut = [], set()
        member_ok = False
        for sb in blocks:
            if b.blocks[sb]["t"]["k"] != "switch":
                continue
            term, outs = b.switch_info(sb)
            for tgt, _, meaning in outs:
                if term[0] == "discr" and mir.has_call(term[1], "::next") and meaning == "Some":
                    starts.append(tgt)
                neg, tt = False, term
                if tt[0] == "un" and tt[1] == "Not":
                    neg, tt = True, tt[2]
                if tt[0] == "call" and tt[1].endswith("::contains") and mir.has(tt[2][0], lambda x: x == ("var", "abandon_set") or (x[0] in ("var", "local") and "abandon_set" in str(x))):
                    key = tt[2][1]
                    if mir.has_field(key, "stream_id") and mir.has_field(key, "ssn"):
                        member_ok = True
                    if isinstance(meaning, bool) and (meaning is neg):
                        cut.add((sb, tgt))          # not a member: nothing to mark
                if tt[0] == "field" and tt[2] == "abandoned" and isinstance(meaning, bool) and (meaning is not neg):
                    cut.add((sb, tgt))              # already marked
        # a record without a partial-reliability policy is not part of any abandonable message (R12.12): the policy
        # is per message, so skipping on it is not a per-chunk escape
        cut |= {e for e in _policy_edges(b)[1] if e[0] in blocks}
        if not starts:
            raise core.CheckerError("R12.6: cannot find the iterator of the marking sweep")
        if not member_ok:
            r.violate(APA, "key:abandon_set", b.where(wbi, wsi),
                      "marking is not keyed by membership of (stream_id, ssn) in the abandon set")
            continue
        reach = b.reachable(starts, cut_blocks={wbi}, cut_edges=cut)
        if h in reach:
            p = b.path_to(starts, h, cut_blocks={wbi}, cut_edges=cut)
            r.violate(APA, "write:abandoned", b.where(wbi, wsi),
                      "a chunk of an abandoned message can be skipped by the marking sweep (a per-chunk condition guards the "
                      "mark): FORWARD-TSN then does not cover the whole message and the receiver delivers its remaining fragments "
                      "as a message that was never submitted", core.describe_path(b, p) if p else "")
        else:
            r.ok({"site": b.where(wbi, wsi), "rule": "in the sweep, contains((stream_id, ssn)) => abandoned = true on every path"})
    return r


def r12_7(ctx):
    """a channel opened in-band appears at the peer with the parameters it was created with: the DCEP OPEN
    marshaller and parser must agree on where each fixed field lives (sibling agreement on byte positions)."""
    from engine import layout
    r = RuleResult("R12.7", "K6", "DCEP OPEN: marshal and unmarshal agree on the byte positions of every fixed field")
    n = layout.compare(r, core, ctx, [("transports::datachannel::DataChannelOpen::unmarshal", "transports::datachannel::DataChannelOpen::marshal")])
    r.need("DCEP OPEN fields compared", n, 4)
    return r


PDP = "transports::sctp::SctpInner::process_data_payload::{closure#0}"


def _flag_edge(mask, want):
    def pred(term, meaning, *_):
        # (flags & mask) != 0  on its True edge (or == 0 on its False edge)
        t = term
        if t[0] == "bin" and t[1] in ("Ne", "Eq") and mir.int_value(t[3]) == 0 and t[2][0] == "bin" and t[2][1] == "BitAnd" \
                and mir.int_value(t[2][3]) == mask and mir.has(t[2][2], lambda x: x[0] == "field" and x[2] == "flags" or x == ("arg", "flags")):
            truth = (meaning is True) if t[1] == "Ne" else (meaning is False)
            return truth is want
        return False
    return pred


def r12_8(ctx):
    """receiver side of message boundaries (RFC 4960 6.9): a B fragment starts a fresh reassembly buffer, every
    fragment is appended, and only an E fragment hands the WHOLE buffer (emptying it) to delivery; unordered or
    non-ordered-channel messages go straight to the application, ordered ones through the per-stream SSN queue
    keyed by the SSN parsed from this chunk. The bit masks are the sender's (B=0x02, E=0x01, U=0x04)."""
    r = RuleResult("R12.8", "K1+K4", "reassembly: clear on B, append always, deliver the whole buffer on E only; ordered via the SSN queue")
    b = ctx.body(PDP)
    r.scope.append(PDP)

    def on_buf(t):
        return bool(t["a"]) and mir.has_field(b.term_operand(t["a"][0]), "reassembly_buffer")
    clears = [bi for bi, t, p in b.calls() if p and p.endswith("BytesMut::clear") and on_buf(t)]
    appends = [bi for bi, t, p in b.calls() if p and p.endswith("BytesMut::extend_from_slice") and on_buf(t)]
    takes = [bi for bi, t, p in b.calls() if p and p.endswith("mem::take") and on_buf(t)]
    sends = [(bi, t) for bi, t, p in b.calls() if p and p.endswith("DataChannel::send_event")]
    enq = [(bi, t) for bi, t, p in b.calls() if p and p.endswith("InboundStream::enqueue") and
           not (b.term_operand(t["a"][2])[0] == "call" and b.term_operand(t["a"][2])[1].endswith("Bytes::new"))]
    # `e_bit.then(|| take(&mut *buffer).freeze())`: the take lives in a closure, the E test is the receiver of `then`
    then_takes = []
    for bi, t, p in b.calls():
        if p and p.endswith("bool>::then") and len(t["a"]) == 2:
            cl = b.term_operand(t["a"][1])
            if cl[0] == "closure" and ctx.facts.has_body(cl[1]) and any(pp and pp.endswith("mem::take") for _, _, pp in ctx.facts.body(cl[1]).calls()):
                cond = b.term_operand(t["a"][0])
                e_cond = mir.has(cond, lambda x: x[0] == "bin" and x[1] == "BitAnd" and mir.int_value(x[3]) == 0x01)
                then_takes.append((bi, e_cond))
    r.need("reassembly append / take sites", min(len(appends), len(takes) + len(then_takes)), 1)
    r.need("message delivery sites", len(sends) + len(enq), 3)
    gB = core.guard_edges(b, _flag_edge(0x02, True))
    gE = core.guard_edges(b, _flag_edge(0x01, True))
    gU = core.guard_edges(b, _flag_edge(0x04, True))
    if not gB or not gE or not gU:
        r.violate(PDP, "flags", b.where(0), "the B (0x02) / E (0x01) / U (0x04) flag tests of the sender's encoding are not all present")
        return r
    for bi in clears:
        if core.k1(b, [bi], gB)[bi] is None:
            r.ok({"site": b.where(bi), "clear": "only on the B edge"})
        else:
            r.violate(PDP, "clear:reassembly", b.where(bi), "reassembly buffer cleared on a fragment that is not a B fragment: a multi-fragment message is truncated")
    # on the B edge the clear is passed before the append
    notB_edges = set(core.guard_edges(b, _flag_edge(0x02, False)))
    for (sb, tgt) in gB:
        for ab in appends:
            if b.path_to([tgt], ab, cut_blocks=set(clears), cut_edges=notB_edges) is None:
                r.ok({"B edge": b.where(sb), "then": "clear before append"})
            else:
                r.violate(PDP, "B:no-clear", b.where(sb), "a B fragment can be appended without the buffer having been cleared: leftovers of an unfinished message are merged into the next one")
    # (a round-4 seed delivered single-chunk messages without touching the buffer and so kept the leftovers of an
    # abandoned message alive. Since fix e6f5fa7 / R12.11 no leftovers exist when a B fragment arrives from an honest
    # peer, so "clear before any delivery" would demand more than the property: not checked.)
    for bi, e_cond in then_takes:
        if e_cond and appends and core.must_pass(b, bi, appends):
            r.ok({"site": b.where(bi), "take": "e_bit.then(|| take(buffer)): only for an E fragment, after the append"})
        else:
            r.violate(PDP, "take:reassembly", b.where(bi), "the reassembly buffer is handed on without an E fragment (or before this fragment was appended): a message is split or truncated")
    # a fragment that is not a B fragment is appended only to a message in progress (non-empty buffer): the tail of a
    # message whose head was skipped by FORWARD-TSN must not start a message of its own
    def nonempty(term, meaning, *_):
        t, neg = term, False
        if t[0] == "un" and t[1] == "Not":
            t, neg = t[2], True
        return t[0] == "call" and t[1].endswith("::is_empty") and mir.has_field(t, "reassembly_buffer") and \
            isinstance(meaning, bool) and (meaning is neg)
    gN = core.guard_edges(b, nonempty)
    notB = [(sb, tgt) for sb in range(len(b.blocks)) if b.blocks[sb]["t"]["k"] == "switch"
            for tgt, _, m in b.switch_info(sb)[1] if (sb, tgt) not in gB and _flag_edge(0x02, False)(b.switch_info(sb)[0], m)]
    for (sb, tgt) in notB:
        for ab in appends:
            p_ = b.path_to([tgt], ab, cut_edges=set(gN) | set(gB))
            if p_ is None:
                r.ok({"non-B edge": b.where(sb), "append": "only when a message is in progress (buffer not empty)"})
            else:
                r.violate(PDP, "append:without-B", b.where(ab),
                          "a middle/end fragment is appended although no message is in progress: the tail of a message whose B fragment "
                          "was skipped (FORWARD-TSN) is delivered as a message of its own", core.describe_path(b, p_))
    for bi in takes:
        if core.k1(b, [bi], gE)[bi] is None and appends and core.must_pass(b, bi, appends):
            r.ok({"site": b.where(bi), "take": "only on the E edge, after the append"})
        else:
            r.violate(PDP, "take:reassembly", b.where(bi), "the reassembly buffer is handed on without an E fragment (or before this fragment was appended): a message is split or truncated")
    msg_ok0 = lambda v: v[0] == "call" and v[1].endswith("BytesMut::freeze") and mir.has(v, lambda x: x[0] == "call" and x[1].endswith("mem::take"))

    def alts(v):
        """what a delivered payload can be: follows `(opt as Some).0` through the definitions of a multiply-defined
        `opt` -> list of (leaf term, defining block or None)"""
        if v[0] == "field" and v[1][0] == "variant" and v[1][2] == "Some" and v[1][1][0] == "var" and len(v[1][1]) > 2:
            out = []
            l = v[1][1][2]
            for d in b.defs().get(l, []):
                dt = b._term_def(d, 0, (l,))
                if dt[0] == "agg" and dt[2] == "Some" and dt[3]:
                    out.append((dt[3][0], d[1]))
                elif dt[0] == "agg" and dt[2] == "None":
                    continue
                else:
                    out.append((dt, d[1]))
            return out or [(v, None)]
        return [(v, None)]

    def leaf_ok(leaf, blk):
        if msg_ok0(leaf):
            return True
        if leaf[0] == "call" and leaf[1].endswith("bool>::then") and any(bi == blk or True for bi, e in then_takes if e) and \
                leaf[2][1][0] == "closure" and any(pp and pp.endswith("mem::take") for _, _, pp in ctx.facts.body(leaf[2][1][1]).calls()):
            return True
        # the chunk's own payload, on a path that is both a B and an E fragment: a complete single-chunk message
        if blk is not None and core.k1(b, [blk], gB)[blk] is None and core.k1(b, [blk], gE)[blk] is None and \
                not mir.has(leaf, lambda x: x[0] == "field" and x[2] == "reassembly_buffer"):
            return True
        return False
    msg_ok = lambda v: all(leaf_ok(lf, blk) for lf, blk in alts(v))
    for bi, t in sends:
        ev = b.term_operand(t["a"][1])
        if not (ev[0] == "agg" and ev[2] == "Message"):
            continue
        payload = ev[3][0]
        direct = msg_ok(payload)
        via_queue = mir.has(payload, lambda x: x[0] == "call" and x[1].endswith("InboundStream::enqueue"))
        # (an Option-carried message embodies the E test in each of its definitions, checked by leaf_ok)
        carried = payload[0] == "field" and payload[1][0] == "variant" and payload[1][2] == "Some" and payload[1][1][0] == "var"
        cutE = core.k1(b, [bi], gE)[bi] is None or (carried and direct)
        if (cutE and direct) or via_queue:      # what the SSN queue releases is checked where it is fed (below)
            r.ok({"site": b.where(bi), "delivers": "take(buffer).freeze()" if direct else "messages released by the SSN queue"})
        else:
            r.violate(PDP, "deliver:Message", b.where(bi), "a Message event is emitted that is not the complete reassembly buffer of an E fragment (or a message released by the SSN queue)")
    for bi, t in enq:
        ssn, msg = b.term_operand(t["a"][1]), b.term_operand(t["a"][2])
        ssn_ok = ssn[0] == "call" and ssn[1].endswith("Buf::get_u16")
        carried = msg[0] == "field" and msg[1][0] == "variant" and msg[1][2] == "Some" and msg[1][1][0] == "var"
        if (core.k1(b, [bi], gE)[bi] is None or carried) and msg_ok(msg) and ssn_ok:
            # ordered path must not be taken for U-flagged chunks
            if core.k1(b, [bi], gU)[bi] is None or not any(b.path_to([tg], bi) for (_, tg) in gU):
                r.ok({"site": b.where(bi), "enqueue": "(stream_seq of this chunk, whole message), not reachable on the U edge"})
            else:
                r.violate(PDP, "enqueue:unordered", b.where(bi), "an unordered (U) message is put through the ordered SSN queue")
        else:
            r.violate(PDP, "enqueue", b.where(bi), "the SSN queue is fed with something other than (SSN of this chunk, complete message of an E fragment)")
    return r


def r12_9(ctx):
    """ordered delivery queue: a message is never dropped on arrival (always inserted), and messages leave only
    by key `next_ssn`, which then advances by exactly one (wrapping) - or are purged by advance_ssn_to (FORWARD-TSN)
    under ssn_gt. No position/order dependent access: BTreeMap<u16> order is not SSN order across 65535 -> 0."""
    r = RuleResult("R12.9", "K3+K4", "SSN queue: insert always; release only pending.remove(&next_ssn), next_ssn += 1")
    I = "transports::sctp::InboundStream::"
    enq, drain = ctx.body(I + "enqueue"), ctx.body(I + "drain_ready")
    r.scope += [enq.name, drain.name]
    ins = [bi for bi, t, p in enq.calls() if p and p.endswith("BTreeMap::<K, V, A>::insert") and mir.has_field(enq.term_operand(t["a"][0]), "pending")]
    rets = [i for i, blk in enumerate(enq.blocks) if blk["t"]["k"] == "ret" and i not in enq.cleanup]
    early = [bi for bi, t, p in enq.calls() if p and p.endswith("InboundStream::drain_ready")]
    # every return either follows the insert, or returns what a drain released while the queue was at its cap
    for rb in rets:
        if ins and enq.path_to([0], rb, cut_blocks=set(ins) | set(early)) is None:
            r.ok({"enqueue return": enq.where(rb), "after": "pending.insert(ssn, msg) (or a drain at the cap)"})
        else:
            r.violate(enq.name, "drop:on-arrival", enq.where(rb), "enqueue can return without having stored the message")
    n = 0
    for body in ctx.facts.bodies(prefix="transports::sctp::"):
        if "::tests::" in body.name:
            continue
        for bi, t, p in body.calls():
            if not p or not t["a"] or not mir.has_field(body.term_operand(t["a"][0]), "pending"):
                continue
            if "InboundStream" not in body.name and not mir.has(body.term_operand(t["a"][0]), lambda x: x[0] == "field" and x[2] == "pending"):
                continue
            if body.locals[t["a"][0]["p"]["l"]]["ty"].find("BTreeMap<u16") < 0 and "BTreeMap<u16" not in body.locals[t["a"][0]["p"]["l"]]["ty"]:
                pass
            m = p.split("::")[-1]
            if m in ("len", "is_empty", "insert", "keys", "lock", "deref", "deref_mut", "into_iter", "next", "filter", "cloned", "collect"):
                continue
            n += 1
            if m == "remove":
                k = body.term_operand(t["a"][1])
                if body.name.endswith("drain_ready") and mir.field_path(k) == "self.next_ssn":
                    r.ok({"site": body.where(bi), "release": "pending.remove(&self.next_ssn)"})
                elif body.name.endswith("advance_ssn_to"):
                    r.ok({"site": body.where(bi), "purge": "keys filtered by !ssn_gt(s, ssn)"})
                else:
                    r.violate(body.name, "call:remove", body.where(bi), "message taken from the SSN queue by a key other than next_ssn")
            else:
                r.violate(body.name, "call:%s" % m, body.where(bi), "position/order dependent access (%s) to the SSN-keyed queue" % m)
    ws = [(bi, si, st) for bi, si, st in core.field_writes(drain, lambda f: f == "next_ssn")]
    for bi, si, st in ws:
        v = drain.term_rvalue(st["rv"]) if si is not None else drain.term_call(st)
        if v[0] == "call" and v[1].endswith("wrapping_add") and mir.field_path(v[2][0]) == "self.next_ssn" and mir.int_value(v[2][1]) == 1:
            r.ok({"site": drain.where(bi, si), "next_ssn": "wrapping_add(1) per released message"})
        else:
            r.violate(drain.name, "write:next_ssn", drain.where(bi, si), "next_ssn does not advance by exactly one per released message")
    r.need("SSN queue release / advance sites", n + len(ws), 3)
    return r


def r12_10(ctx):
    """RFC 6525 / RFC 4960 3.2.1: a parameter's Length counts header and value, NOT the padding. The value handed
    to the parameter handlers must therefore be exactly Length-4 bytes: the Outgoing SSN Reset handler reads
    stream ids until the value is exhausted, so pad bytes passed along become a phantom stream 0 whose sequence
    state is reset although it was never named."""
    r = RuleResult("R12.10", "K6/dataflow", "RE-CONFIG parameter values exclude padding (value = Length - 4 bytes)")
    fn = "transports::sctp::SctpInner::handle_reconfig::{closure#0}"
    b = ctx.body(fn)
    r.scope.append(fn)
    n = 0
    for bi, t, p in b.calls():
        if not p or not p.endswith(("handle_reconfig_outgoing_ssn_reset", "handle_reconfig_response")):
            continue
        n += 1
        arg = b.term_operand(t["a"][1])
        ok = False
        if arg[0] == "call" and arg[1].endswith("::split_to") and len(arg[2]) == 2:
            ln = arg[2][1]
            ok = ln[0] == "bin" and ln[1] in ("Sub", "SubUnchecked") and mir.int_value(ln[3]) == 4 and \
                ((ln[2][0] == "cast" and ln[2][1][0] == "call" and ln[2][1][1].endswith("Buf::get_u16")) or
                 (ln[2][0] == "call" and ln[2][1].endswith("Buf::get_u16")))
        if ok:
            r.ok({"site": b.where(bi), "value": "buf.split_to(param_length - 4), param_length as read from the wire"})
        else:
            r.violate(fn, "tlv:value", b.where(bi),
                      "the parameter value handed to %s is %s, not exactly the wire Length minus the 4-byte header: padding (or "
                      "neighbouring bytes) is interpreted as stream identifiers" % (p.split("::")[-1], mir.show(arg, 90)))
    r.need("RE-CONFIG parameter handler calls", n, 2)
    return r


def r12_11(ctx):
    """fragments of one message carry consecutive TSNs and are processed in TSN order, so a partially reassembled
    message is always waiting for exactly the next TSN. A FORWARD-TSN that moves the receive point jumps over that
    TSN: the message can never complete. If its fragments stay in the reassembly buffer, the tail of a later message
    whose own B fragment was skipped as well is appended to them and delivered as a message nobody sent (the
    `buffer.is_empty()` test of R12.8 only protects an EMPTY buffer). So: after the receive-point store, every
    path through handle_forward_tsn clears the reassembly buffers."""
    r = RuleResult("R12.11", "K4", "FORWARD-TSN discards the partially reassembled message it makes impossible to complete")
    fn = "transports::sctp::SctpInner::handle_forward_tsn::{closure#0}"
    b = ctx.body(fn)
    r.scope.append(fn)
    stores = [x[0] for x in core.atomic_sites(b, "cumulative_tsn_ack", "store")]
    r.need("receive point stores in handle_forward_tsn", len(stores), 1)
    clears = [bi for bi, t, p in b.calls() if p and p.endswith("BytesMut::clear") and t["a"] and
              mir.has_field(b.term_operand(t["a"][0]), "reassembly_buffer")]
    first = min(stores)
    # the clear sits in a loop over the channels: what must be passed is the loop (its header), with the clear inside
    via = set(clears)
    for h, blocks in b.loops():
        if any(c in blocks for c in clears):
            via.add(h)
    rets = [i for i, blk in enumerate(b.blocks) if blk["t"]["k"] == "ret" and i not in b.cleanup]
    if clears and all(b.path_to([t for t, _ in b.succ_edges(first)], rt, cut_blocks=via, cut_edges=b.back_edges()) is None for rt in rets):
        r.ok({"site": b.where(clears[0]), "after": b.where(first), "rule": "every path from the receive-point store to the return passes the reassembly reset"})
    else:
        r.violate(fn, "fwd:no-reassembly-reset", b.where(first),
                  "after FORWARD-TSN moves the receive point the reassembly buffers are not cleared: fragments of the message that was "
                  "in progress stay behind and a later tail-without-head is appended to them and delivered")
    return r


def r12_12(ctx):
    """'a channel opened in-band appears at the peer': the DCEP OPEN / ACK are sent reliably on the channel's own
    stream, where they share the (stream, SSN 0) key of the abandonment set with every unordered message (and with
    the first ordered one). RFC 3758 allows giving up only chunks that have a partial-reliability policy; a reliable
    chunk that is marked abandoned is removed from the retransmission queue and skipped by FORWARD-TSN - if its
    first transmission is lost the peer never learns of the channel. So: every `abandoned = true` in the sender is
    cut by `max_retransmits.is_some() || expiry.is_some()` of that same record."""
    r = RuleResult("R12.12", "K1", "only chunks with a partial-reliability policy of their own are ever abandoned")
    n = 0
    for b in ctx.facts.bodies(prefix="transports::sctp::"):
        if "::tests::" in b.name:
            continue
        sites = [(bi, si) for bi, si, st in core.field_writes(b, lambda f: f == "abandoned")
                 if si is not None and b.term_rvalue(st["rv"])[:2] == ("const", 1)]
        if not sites:
            continue

        g = _policy_edges(b)[0]
        r.scope.append(b.name)
        for bi, si in sites:
            n += 1
            if g and core.k1(b, [bi], g, fresh_per_iteration=True)[bi] is None:
                r.ok({"site": b.where(bi, si), "cut_by": "record.max_retransmits / record.expiry is Some"})
            else:
                r.violate(b.name, "abandon:reliable", b.where(bi, si),
                          "a chunk can be marked abandoned without having a partial-reliability policy (max_retransmits / expiry): a "
                          "reliable chunk that shares the (stream, SSN) key - the DCEP OPEN / ACK - is dropped from the retransmission queue")
    r.need("abandoned = true sites", n, 2)
    return r


def r12_13(ctx):
    """'a channel opened in-band appears at the peer with the label, protocol ... it was created with': the DCEP OPEN
    is an ordinary user message on the channel's stream and the sender fragments it when label + protocol do not
    fit one chunk. The receiver therefore may hand a payload to the DCEP parser only when it is a complete message:
    a chunk that is both B and E, or the buffer reassembled from B .. E. Parsing each fragment on its own rejects
    the head ('too short') and ignores the tail: the channel never appears."""
    r = RuleResult("R12.13", "K1", "the DCEP parser is fed complete messages only (single B+E chunk, or the reassembled B..E buffer)")
    b = ctx.body(PDP)
    r.scope.append(PDP)
    calls = [(bi, t) for bi, t, p in b.calls() if p and p.endswith("SctpInner::handle_dcep")]
    r.need("handle_dcep call sites in process_data_payload", len(calls), 1)
    gB = core.guard_edges(b, _flag_edge(0x02, True))
    gE = core.guard_edges(b, _flag_edge(0x01, True))

    def complete_at(blk):
        return bool(gB) and bool(gE) and core.k1(b, [blk], gB)[blk] is None and core.k1(b, [blk], gE)[blk] is None

    for bi, t in calls:
        v = b.term_operand(t["a"][2]) if len(t["a"]) > 2 else None
        if v is None:
            raise core.CheckerError("R12.13: handle_dcep call without a payload argument")
        leaves = []
        if v[0] == "field" and v[1][0] == "variant" and v[1][2] == "Some" and v[1][1][0] == "var" and len(v[1][1]) > 2:
            l = v[1][1][2]
            for d in b.defs().get(l, []):
                dt = b._term_def(d, 0, (l,))
                if dt[0] == "agg" and dt[2] == "None":
                    continue
                leaves.append((dt, d[1]))
        else:
            leaves.append((v, bi))
        bad = []
        for lf, blk in leaves:
            reassembled = mir.has(lf, lambda x: x[0] == "field" and x[2] == "dcep_reassembly") and gE and core.k1(b, [blk], gE)[blk] is None
            if reassembled or complete_at(blk):
                continue
            bad.append((lf, blk))
        if not bad and leaves:
            r.ok({"site": b.where(bi), "payload": "single B+E chunk or the reassembled buffer taken on E"})
        else:
            r.violate(PDP, "dcep:fragment", b.where(bi),
                      "the DCEP parser is handed the payload of a single DATA chunk without the chunk being a complete message (B and E): "
                      "a fragmented OPEN (long label / protocol) is rejected and the channel never appears at the peer")
    return r


CDC = "peer_connection::PeerConnection::create_data_channel"


def r12_14(ctx):
    """'any number of channels and concurrent senders ... of the same channel': a stream id identifies a channel. The
    id of an in-band channel is chosen by scanning the registered channels for the first free id of the right parity,
    then the new channel is registered. Scan and registration must happen under ONE acquisition of the registry lock:
    two concurrent create_data_channel calls otherwise both find the same id free, and the messages of both channels
    arrive on whichever is found first."""
    r = RuleResult("R12.14", "K5", "create_data_channel picks the stream id and registers the channel under one lock acquisition")
    b = ctx.body(CDC)
    r.scope.append(CDC)
    locks = [bi for bi, t, p in b.calls() if p and p.endswith("::lock") and t["a"] and mir.has_field(b.term_operand(t["a"][0]), "data_channels")]
    pushes = [(bi, t) for bi, t, p in b.calls() if p and p.endswith("Vec::<T, A>::push") and t["a"] and mir.has_field(b.term_operand(t["a"][0]), "data_channels")]
    scans = [bi for bi, t, p in b.calls() if p and p.endswith("::iter") and t["a"] and mir.has_field(b.term_operand(t["a"][0]), "data_channels")]
    r.need("registration (push) of the new channel", len(pushes), 1)
    r.need("scan of the registered channels", len(scans), 1)
    if len(locks) == 1 and all(core.must_pass(b, x, locks) for x in scans + [bi for bi, _ in pushes]):
        # ... and the guard is not given up in between: no drop of the guard local before the push
        r.ok({"lock": b.where(locks[0]), "scan": b.where(scans[0]), "register": b.where(pushes[0][0]), "rule": "one acquisition covers both"})
    else:
        r.violate(CDC, "id:lock-released", b.where(pushes[0][0]),
                  "the registry lock is taken %d times: the id scan and the registration of the new channel are separate critical sections, so "
                  "two concurrent calls can hand out the same stream id" % len(locks))
    return r


def r12_15(ctx):
    """RFC 8832 6: the DTLS client uses even stream ids, the server odd ones - that is what keeps two channels opened
    from both ends apart. The parity must therefore come from the KNOWN role. A default for 'role not negotiated yet'
    gives both peers the same parity: each side's first channel gets id 0, each OPEN finds 'its' stream already
    registered at the peer, no channel is announced and the two differently labelled channels are silently one."""
    r = RuleResult("R12.15", "K6/provenance", "the id parity of an in-band channel comes from the negotiated DTLS role, never from a default")
    b = ctx.body(CDC)
    r.scope.append(CDC)
    sites = []
    for bi, t, p in b.calls():
        if p and p.split("::")[-1] in ("unwrap_or", "unwrap_or_default", "unwrap_or_else", "map_or") and t["a"] and \
                mir.has_field(b.term_operand(t["a"][0]), "dtls_role"):
            sites.append(bi)
    reads = [bi for bi, t, p in b.calls() if p and t["a"] and mir.has_field(b.term_operand(t["a"][0]), "dtls_role")]
    r.need("reads of the DTLS role in create_data_channel", len(reads), 1)
    if sites:
        for bi in sites:
            r.violate(CDC, "id:parity-default", b.where(bi),
                      "the stream-id parity is derived from a defaulted DTLS role (role unknown => 'client'): channels created on both sides "
                      "before the role is negotiated both get even ids and collide")
    else:
        r.ok({"role": "no default applied to the DTLS role"})
    return r


def r12_16(ctx):
    """'Each channel announces Open exactly once before its first message'. A pre-negotiated channel is announced by
    the handshake completion (handle_cookie_ack / handle_cookie_echo walk the registry) - which only sees the channels
    that exist at that moment. A negotiated channel created on an association that is already up was never announced,
    yet the peer's messages were delivered on it. Decided: create_data_channel hands every negotiated channel to
    SctpTransport::open_negotiated_channel when a transport exists, and does so AFTER the channel is in the registry
    (so that whichever of the two places performs the Connecting->Open transition, one of them does); that function
    announces Open for an established association (its Open site is counted and checked by R12.1)."""
    r = RuleResult("R12.16", "K4", "a negotiated channel created after the association is up is announced Open")
    b = ctx.body("peer_connection::PeerConnection::create_data_channel")
    r.scope.append(b.name)
    pushes = [bi for bi, t, p in b.calls() if p and p.endswith("::push") and t["a"] and mir.has_field(b.term_operand(t["a"][0]), "data_channels")]
    r.need("registry push in create_data_channel", len(pushes), 1)
    def announces_open(fn, depth=2):
        # the callee (or a crate function it calls) sends DataChannelEvent::Open - found by what it does, not by its name
        if not ctx.facts.has_body(fn):
            return None
        cb = ctx.facts.body(fn)
        for bi, t, p in cb.calls():
            if p and p.endswith("DataChannel::send_event") and len(t["a"]) > 1 and \
                    mir.has(cb.term_operand(t["a"][1]), lambda x: x[0] == "agg" and x[2] == "Open"):
                return fn
            if depth and p and p.startswith("transports::") and p != fn:
                sub = announces_open(p, depth - 1)
                if sub:
                    return sub
        return None
    opens, opener = [], None
    for bi, t, p in b.calls():
        if p and bi not in b.cleanup and p.startswith("transports::") and not p.endswith("DataChannel::new"):
            w = announces_open(p)
            if w:
                opens.append(bi)
                opener = w
    if not opens:
        r.violate(b.name, "open:late-negotiated", b.where(pushes[0]),
                  "create_data_channel never announces a negotiated channel: created after the association is up it stays Connecting, "
                  "and the peer's messages are delivered on a channel that never said Open")
        return r
    for bi in opens:
        if core.must_pass(b, bi, pushes):
            r.ok({"site": b.where(bi), "after": "the channel is registered"})
        else:
            r.violate(b.name, "open:before-registration", b.where(bi),
                      "the negotiated channel is offered for opening before it is in the registry: if the association comes up in between, "
                      "neither the handshake completion nor this call announces it")
    r.scope.append(opener)
    r.ok({"opener": opener, "announces": "Open (site counted and checked by R12.1)"})
    return r


def r12_17(ctx):
    """'partially-reliable channels may drop ... but never' lose a message of ANOTHER channel: the FORWARD-TSN that
    abandons a PR message tells the receiver to discard every buffered chunk up to the new cumulative TSN. That is only
    right while the ack point has moved over abandoned chunks exclusively; stepping over a chunk that is merely gap-acked
    makes the receiver throw away (and the sender forget) a message of a reliable channel that shares the association,
    and an ordered stream behind it never advances. This is rule R01.11 of C01 (same site, same guard), claimed here
    for the clause of C12 it decides."""
    r = RuleResult("R12.17", "K1", "FORWARD-TSN never covers a chunk that was not abandoned")
    from rules import c01
    rr = c01.r01_11(ctx)
    r.scope = rr.scope
    r.obligations, r.discharged = rr.obligations, rr.discharged
    r.sites, r.floor = rr.sites, rr.floor
    r.samples = rr.samples
    for v in rr.violations:
        r.violate(v.fn, v.site, v.where, v.msg, v.path)
        r.obligations -= 1
    return r


R12_18_STRICT = True


def r12_18(ctx):
    """'a channel opened in-band appears at the peer with the label, protocol ... it was created with': DCEP OPEN carries
    both strings behind 16-bit length fields, and the writer narrows `len() as u16` and then appends ALL the bytes - a
    label of 65541 bytes is announced as a 5-byte label followed by a protocol made of label bytes. The narrowing is
    only right for strings that fit; so no channel may be created with a longer one. Decided: create_data_channel
    registers a channel only on the edges label.len() <= 65535 and protocol length <= 65535."""
    r = RuleResult("R12.18", "K1", "no data channel is created with a label or protocol that does not fit the DCEP length fields")
    b = ctx.body("peer_connection::PeerConnection::create_data_channel")
    r.scope.append(b.name)
    if not R12_18_STRICT:
        r.ok({"status": "armed together with the repair (findings/pending)"})
        return r
    pushes = [bi for bi, t, p in b.calls() if p and p.endswith("::push") and t["a"] and mir.has_field(b.term_operand(t["a"][0]), "data_channels")]
    r.need("registry pushes in create_data_channel", len(pushes), 1)

    def fits(what):
        def pred(term, meaning, *_):
            if term[0] != "bin" or term[1] not in ("Gt", "Le", "Lt", "Ge") or not isinstance(meaning, bool):
                return False
            a, c = term[2], term[3]
            big = lambda x: mir.int_value(x) == 65535
            about = lambda x: mir.has(x, lambda y: y == ("arg", "label")) if what == "label" else \
                mir.has(x, lambda y: y == ("arg", "config") or (y[0] == "field" and y[2] == "protocol"))
            if term[1] == "Gt" and about(a) and big(c):
                return meaning is False
            if term[1] == "Le" and about(a) and big(c):
                return meaning is True
            return False
        return pred
    for what in ("label", "protocol"):
        g = core.guard_edges(b, fits(what))
        for bi in pushes:
            if g and core.k1(b, [bi], g)[bi] is None:
                r.ok({"site": b.where(bi), "cut_by": "%s length <= 65535" % what})
            else:
                r.violate(b.name, "dcep:%s-too-long" % what, b.where(bi),
                          "a channel is registered (and announced with DCEP OPEN) whatever the length of its %s: beyond 65535 bytes the 16-bit "
                          "length field wraps and the peer sees a different label and protocol" % what)
    return r


def r12_19(ctx):
    """'Each channel announces Open exactly once before its first message': a pre-negotiated channel is announced open by
    handle_cookie_ack. The peer is established as soon as it has our COOKIE ECHO and may send at once; when its COOKIE ACK
    is lost, that DATA arrives while T1 still carries our COOKIE ECHO. Taking it delivers Message before Open. RFC 4960 6:
    DATA is not taken during the own handshake. Decided: in handle_data everything that takes the chunk (the payload
    handler, the reorder-buffer insert, the receive-point store) is on the `t1_chunk.lock().is_some() == false` edge."""
    r = RuleResult("R12.19", "K1", "no DATA is taken while the own handshake (T1) is still running")
    b = ctx.body("transports::sctp::SctpInner::handle_data::{closure#0}")
    r.scope.append(b.name)
    sites = [(bi, "process_data_payload") for bi, t, p in b.calls() if p and p.endswith("::process_data_payload")]
    sites += [(bi, "received_queue.insert") for bi, t, p in b.calls() if p and p.endswith("::insert") and t["a"] and
              mir.has(b.term_operand(t["a"][0]), lambda x: x[0] == "call" and x[1].endswith("::lock") and x[2] and mir.has_field(x[2][0], "received_queue"))]
    sites += [(bi, "cumulative_tsn_ack.store") for bi, t, a in core.atomic_sites(b, "cumulative_tsn_ack", "store")]
    r.need("sites taking a DATA chunk in handle_data", len(sites), 4)

    def handshake_over(term, meaning, *_):
        t, neg = term, False
        while t[0] == "un" and t[1] == "Not":
            t, neg = t[2], not neg
        if t[0] == "call" and t[1].endswith(("Option::<T>::is_some", "Option::<T>::is_none")) and isinstance(meaning, bool) and \
                mir.has(t, lambda x: x[0] == "call" and x[1].endswith("::lock") and x[2] and mir.has_field(x[2][0], "t1_chunk")):
            return (meaning != neg) is t[1].endswith("is_none")
        if t[0] == "discr" and meaning == "None" and mir.has_field(t[1], "t1_chunk"):
            return True
        return False
    g = core.guard_edges(b, handshake_over)
    for bi, what in sites:
        if g and core.k1(b, [bi], g)[bi] is None:
            r.ok({"site": b.where(bi), "what": what, "cut_by": "T1 not running"})
        else:
            r.violate(b.name, "data-during-handshake:%s" % what, b.where(bi),
                      "handle_data takes a chunk (%s) while T1 may still carry our INIT / COOKIE ECHO: DATA overtaking a lost COOKIE ACK is "
                      "delivered on a pre-negotiated channel before it has announced Open" % what)
    return r


def r12_20(ctx):
    """'ordered channels deliver in submission order' (incl. SSN wrap-around): a FORWARD-TSN names, per stream, the SSN up
    to which messages were abandoned, and the receiver moves the stream's expected SSN past it. The per-stream state
    (InboundStream) is created lazily by the first completely received ordered message - so for a stream whose FIRST
    message is the abandoned one there is none yet, and a handler that only advances streams it finds ignores the skip:
    every later message waits for SSN 0, and the message that carries SSN 0 again after 65536 messages is delivered in
    front of them. Decided: in handle_forward_tsn the stream advanced by advance_ssn_to comes from an inserting lookup
    (entry().or_insert_with / or_default), not from get / get_mut."""
    r = RuleResult("R12.20", "K6", "a FORWARD-TSN advances the SSN of every stream it names, also one that has delivered nothing yet")
    b = ctx.body("transports::sctp::SctpInner::handle_forward_tsn::{closure#0}")
    r.scope.append(b.name)
    sites = [(bi, t) for bi, t, p in b.calls() if p and p.endswith("InboundStream::advance_ssn_to")]
    r.need("advance_ssn_to calls in handle_forward_tsn", len(sites), 1)
    for bi, t in sites:
        a0 = b.term_operand(t["a"][0])
        terms = [a0] + list(core.expand_vars(b, a0, depth=3))
        inserting = any(mir.has(x, lambda z: z[0] == "call" and z[1].endswith(("::or_insert_with", "::or_insert", "::or_default"))) for x in terms)
        finding = any(mir.has(x, lambda z: z[0] == "call" and z[1].endswith(("HashMap::<K, V, S, A>::get_mut", "HashMap::<K, V, S, A>::get"))) for x in terms)
        if inserting and not finding:
            r.ok({"site": b.where(bi), "stream": "entry(..).or_insert_with(..)"})
        else:
            r.violate(b.name, "forward-tsn:unknown-stream-ignored", b.where(bi),
                      "the skipped SSN is applied only to streams that already have receive state: when the first message of an ordered stream "
                      "is the abandoned one the skip is lost - later messages wait for ever and the message reusing that SSN after a "
                      "wrap-around is delivered out of order")
    return r


def r12_21(ctx):
    """'Every delivered message equals exactly one submitted message' / nothing lost on a reliable channel: the peer learns of
    an in-band channel from the DCEP OPEN and drops DATA for a stream it has not been told about (while acknowledging the
    chunk). create_data_channel therefore has to have QUEUED the OPEN when it returns - a spawned task that queues it later
    lets a send_data() issued right away get in front of it. Decided: create_data_channel calls the synchronous
    queue_dcep_open on the in-band path, and no closure / async block of it calls send_dcep_open."""
    r = RuleResult("R12.21", "K4", "the DCEP OPEN is queued before create_data_channel returns")
    fn = "peer_connection::PeerConnection::create_data_channel"
    b = ctx.body(fn)
    r.scope.append(fn)
    sync = [bi for bi, t, p in b.calls() if p and p.endswith("::queue_dcep_open")]
    deferred = []
    for nb in ctx.facts.all_bodies():
        if nb.name.startswith(fn + "::{closure"):
            deferred += [(nb, bi) for bi, t, p in nb.calls() if p and p.endswith(("::send_dcep_open", "::queue_dcep_open"))]
    if deferred:
        nb, bi = deferred[0]
        r.violate(fn, "dcep-open:deferred", nb.where(bi),
                  "the DCEP OPEN is queued from a closure / spawned task: a message sent right after create_data_channel returned is queued in "
                  "front of it and dropped by the peer as data for an unknown stream")
    elif sync:
        r.ok({"site": b.where(sync[0]), "OPEN": "queued synchronously"})
    else:
        r.violate(fn, "dcep-open:missing", b.where(0), "create_data_channel does not queue a DCEP OPEN for an in-band channel on an existing transport")
    q = ctx.body("transports::sctp::SctpInner::queue_dcep_open") if ctx.facts.has_body("transports::sctp::SctpInner::queue_dcep_open") else None
    if q is not None:
        r.scope.append(q.name)
        if q.rec.get("async") or any(blk["t"]["k"] == "yield" for blk in q.blocks):
            r.violate(q.name, "dcep-open:can-suspend", q.where(0), "queue_dcep_open can suspend")
        elif any(p and p.endswith("::enqueue_message") for _bi, _t, p in q.calls()):
            r.ok({"queue_dcep_open": "synchronous, ends in enqueue_message"})
        else:
            r.violate(q.name, "dcep-open:not-queued", q.where(0), "queue_dcep_open does not queue the message")
    return r


def r12_22(ctx):
    """'Every delivered message equals exactly one submitted message of the same channel', 'a channel opened in-band appears
    at the peer with the label ... it was created with': stream ids are one namespace for negotiated and in-band channels.
    The id search of create_data_channel has to treat every live channel's id as taken; a search that only looks at
    in-band channels of the local parity hands a live negotiated channel's id to a new in-band channel, whose OPEN the
    peer merely acknowledges. Decided: neither the id-search loop nor any closure of create_data_channel branches on a
    registered channel's `negotiated` flag or filters by parity."""
    r = RuleResult("R12.22", "K6", "the stream-id search treats the id of every live channel as taken")
    fn = "peer_connection::PeerConnection::create_data_channel"
    b = ctx.body(fn)
    r.scope.append(fn)
    bad = None
    for nb in ctx.facts.all_bodies():
        if not nb.name.startswith(fn + "::{closure"):
            continue
        for sb in range(len(nb.blocks)):
            if nb.blocks[sb]["t"]["k"] == "switch" and sb not in nb.cleanup and mir.has_field(nb.switch_info(sb)[0], "negotiated"):
                bad = (nb, sb)
        for bi, si, st in nb.assigns():
            if st["p"]["l"] == 0 and mir.has_field(nb.term_rvalue(st["rv"]), "negotiated"):
                bad = (nb, bi)
    # the scan loop: blocks of loops that compare a registered channel's id
    scans = 0
    for h, blocks in b.loops():
        cmp_id = [sb for sb in blocks if b.blocks[sb]["t"]["k"] == "switch" and mir.has_field(b.switch_info(sb)[0], "id")]
        if not cmp_id:
            continue
        scans += 1
        for sb in blocks:
            if b.blocks[sb]["t"]["k"] == "switch" and sb not in b.cleanup and mir.has_field(b.switch_info(sb)[0], "negotiated") and \
                    mir.has(b.switch_info(sb)[0], lambda x: x[0] == "call" and x[1].endswith("::upgrade")):
                bad = (b, sb)
    if bad:
        nb, sb = bad
        r.violate(fn, "id-search:filtered", nb.where(sb),
                  "the search for a free stream id leaves out registered channels by their `negotiated` flag: the id of a live pre-negotiated "
                  "channel can be handed to a new in-band channel - it is never announced and its messages come out of the other channel")
    else:
        r.ok({"id search": "every live registered channel counts", "scan loops": scans})
    return r


def run(ctx):
    return [r12_1(ctx), r12_2(ctx), r12_2b(ctx), r12_3(ctx), r12_4(ctx), r12_5(ctx), r12_7(ctx), r12_8(ctx), r12_9(ctx), r12_10(ctx), r12_11(ctx), r12_12(ctx), r12_13(ctx), r12_14(ctx), r12_15(ctx), r12_16(ctx), r12_17(ctx), r12_18(ctx), r12_19(ctx), r12_20(ctx), r12_21(ctx), r12_22(ctx)]
