#!/usr/bin/env python3
"""Build tables/std_panics.json: every public fn in core/alloc/std (rust-src of the nightly used by the driver)
and in the `bytes` crate whose doc comment has a `# Panics` section, keyed by (impl self type / trait, fn name).
Regenerate with: tools/gen_panics_table.py   (the table is committed; the checker only reads it)."""
import os, re, json, subprocess, glob
sysroot = subprocess.check_output(["rustc", "+nightly", "--print", "sysroot"], text=True).strip()
roots = [os.path.join(sysroot, "lib/rustlib/src/rust/library", c, "src") for c in ("core", "alloc", "std")]
roots += glob.glob(os.path.expanduser("~/.cargo/registry/src/*/bytes-1.*/src"))
impl_re = re.compile(r"^\s*(?:unsafe\s+)?impl\s*(?:<[^{]*?>\s*)?(?:(?:const\s+)?([\w:]+)(?:<[^{]*?>)?\s+for\s+)?([&\[\]\w:]+)")
trait_re = re.compile(r"^\s*(?:pub(?:\([^)]*\))?\s+)?(?:unsafe\s+)?(?:const\s+)?trait\s+(\w+)")
fn_re = re.compile(r"^\s*(?:pub(?:\([^)]*\))?\s+)?(?:const\s+)?(?:unsafe\s+)?(?:extern\s+\"[^\"]*\"\s+)?fn\s+(\w+)")
out = {}
for root in roots:
    for dp, dn, fns in os.walk(root):
        if "/tests" in dp or "/benches" in dp:
            continue
        for fn in fns:
            if not fn.endswith(".rs"):
                continue
            path = os.path.join(dp, fn)
            ctx_stack = []          # (brace depth at which the impl/trait body opened, self type, trait)
            depth = 0
            doc = []
            for line in open(path, encoding="utf-8", errors="replace"):
                s = line.strip()
                if s.startswith("///") or s.startswith("//!"):
                    doc.append(s)
                    continue
                if s.startswith("#[") or s.startswith("//") or not s:
                    continue
                m = impl_re.match(line)
                t = trait_re.match(line)
                f = fn_re.match(line)
                if m and "{" in line or (m and not f):
                    ctx_stack.append((depth, (m.group(2) or "").split("::")[-1].strip("&"), (m.group(1) or "").split("::")[-1]))
                elif t:
                    ctx_stack.append((depth, t.group(1), t.group(1)))
                if f and any("# Panics" in d for d in doc):
                    ty, tr = (ctx_stack[-1][1], ctx_stack[-1][2]) if ctx_stack else ("", "")
                    txt = " ".join(d.lstrip("/ ").strip() for d in doc)
                    i = txt.find("# Panics")
                    why = txt[i + 8:i + 220].strip()
                    key = "%s::%s" % (ty or os.path.basename(path)[:-3], f.group(1))
                    out.setdefault(key, {"where": os.path.relpath(path, os.path.dirname(root)), "trait": tr, "panics": why})
                doc = []
                depth += line.count("{") - line.count("}")
                while ctx_stack and depth <= ctx_stack[-1][0] and "}" in line:
                    ctx_stack.pop()
json.dump(out, open(os.path.join(os.path.dirname(os.path.abspath(__file__)), "..", "tables", "std_panics.json"), "w"), indent=0, sort_keys=True)
print(len(out), "documented-panicking functions")
