#!/usr/bin/env python3
"""usage: tools/seed_store.py <ID> <slug> <seeddir> <verifydir> <caught-by text> [--missed-first]
Stores a confirmed seeded change under /verif/seeded/<ID>-<slug>/ (patch.diff, demo.diff, meta.json)."""
import sys, json, os, shutil, re
pid, slug, seed, ver, caught = sys.argv[1:6]
missed_first = "--missed-first" in sys.argv
out = "/verif/seeded/%s-%s" % (pid, slug)
os.makedirs(out, exist_ok=True)
shutil.copy(seed + "/patch.diff", out + "/patch.diff")
shutil.copy(seed + "/demo.diff", out + "/demo.diff")
m = json.load(open(seed + "/meta.json"))
log = open(ver + "/verify.log").read()
demo = re.sub(r"CARGO_TARGET_DIR=\S+\s*", "", m.get("demo_cmd", ""))
meta = {
    "property": pid,
    "breaks": m.get("summary"),
    "needs_to_manifest": m.get("needs"),
    "demonstration": {"file": "demo.diff (adds the test)", "command": demo},
    "what_i_ran": [
        "scratch worktree of /repo HEAD (outside /repo and /verif), shared scratch target dir; removed afterwards",
        "git apply patch.diff; cargo nextest run --workspace --no-fail-fast --tool-config-file pb:/w/lib/nextest.toml --profile pb --test-threads 8 --offline  -> see confirmed.suite_with_change",
        "git apply demo.diff; <demonstration.command>  -> fails",
        "git apply -R patch.diff; <demonstration.command>  -> passes",
        "git -C /repo apply patch.diff; /verif/check %s --tier quick; git -C /repo checkout -- ." % pid,
    ],
    "confirmed": {
        "suite_with_change": [l.strip() for l in log.split("## demo with change")[0].splitlines()[1:]],
        "demo_with_change": [l.strip() for l in log.split("## demo with change")[1].split("## demo without change")[0].splitlines()[1:]],
        "demo_without_change": [l.strip() for l in log.split("## demo without change")[1].splitlines()[1:]],
    },
    "check_result": {"caught_by": caught, "missed_by_the_check_as_it_stood_when_the_change_arrived": missed_first},
    "origin": "fresh sub-agent given only the property text and its own worktree",
}
json.dump(meta, open(out + "/meta.json", "w"), indent=1)
print(out)
