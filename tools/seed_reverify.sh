#!/bin/bash
# re-confirm every stored seeded change against the CURRENT /repo HEAD in the scratch worktree /tmp/wt1:
# patch applies, suite passes with it, the demonstration fails with it and passes without it.
# usage: [SKIP_SUITE=1] tools/seed_reverify.sh [name-prefix]   -> one line per seed on stdout
wt=/tmp/wt1; export CARGO_TARGET_DIR=/tmp/tgt CARGO_NET_OFFLINE=true
cd $wt || exit 2
git checkout -q -- . && git clean -fdq && git checkout -q --detach $(git -C /repo rev-parse HEAD)
for d in /verif/seeded/${1:-}*/; do
  name=$(basename $d)
  git checkout -q -- . && git clean -fdq
  if ! git apply $d/patch.diff 2>/dev/null; then echo "$name: PATCH-DOES-NOT-APPLY"; continue; fi
  [ -n "${SKIP_SUITE:-}" ] && suite=skipped || suite=$(cargo nextest run --workspace --no-fail-fast --tool-config-file pb:/w/lib/nextest.toml --profile pb --test-threads 8 --offline 2>&1 | grep -o "[0-9]* passed" | tail -1)
  if ! git apply $d/demo.diff 2>/dev/null; then echo "$name: DEMO-DOES-NOT-APPLY suite=$suite"; continue; fi
  demo=$(python3 -c "import json;print(json.load(open('$d/meta.json'))['demonstration']['command'])")
  ( eval "timeout 900 $demo" ) > /tmp/reverify_with.log 2>&1; w=$?
  git apply -R $d/patch.diff 2>/dev/null || { echo "$name: CANNOT-REVERT"; continue; }
  ( eval "timeout 900 $demo" ) > /tmp/reverify_without.log 2>&1; wo=$?
  echo "$name: suite=$suite demo_with_change_exit=$w demo_without_change_exit=$wo $([ $w -ne 0 ] && [ $wo -eq 0 ] && echo VALID || echo STALE)"
done
git checkout -q -- . && git clean -fdq
