"""C17 — closing or losing a connection ends it cleanly and visibly (task / close-path discipline)."""
import json
import os
from engine import core, mir
from engine.core import RuleResult, suffix

EXPLANATION = (
    "Static analysis of rustc MIR. R17.1 spawn census: every tokio::spawn / spawn_rtc call in non-test code either "
    "lets the JoinHandle flow into PeerConnectionInner::track_task, a LoopsGuard, a returned value, or is listed in "
    "tables/spawns.json with the reviewed reason it ends by itself, plus a machine-checked witness (the spawned future "
    "has no loop, or every loop has an exit edge). A new detached task is a violation. R17.2 close path: past the "
    "already-closed early return, close_with_reason sends Closed on signaling_state / peer_state / "
    "ice_connection_state, publishes a disconnect reason, and reaches the shutdown call of every transport-typed "
    "field of PeerConnectionInner (derived from the struct definition); Drop calls close_with_reason and "
    "abort_tracked_tasks. R17.3 SctpCleanupGuard is constructed before the first await of run_loop (cancellation at "
    "any await runs it) and Close is announced once (C12 R12.2). R17.4 SctpTransport::close and Drop set Closed and "
    "wake both Notify objects; the flow-control wait loop re-tests Closed before waiting. Bounded time, descriptor "
    "counts and races between two terminating events are not decided.")
ASSUMPTIONS = ["a dropped JoinHandle detaches the task (tokio semantics)", "unwind edges are not paths"]
TRUSTED_BASE = ["rustc MIR construction", "engine CFG/value-fate tracking", "tables/spawns.json (reviewed reasons)"]

VERIF = os.path.dirname(os.path.dirname(os.path.abspath(__file__)))
SPAWNS = ("tokio::spawn", "tokio::task::spawn", "tokio::runtime::Handle::spawn")
OWNED = ("PeerConnectionInner::track_task",)


def _spawn_sites(ctx):
    out = []
    for b in ctx.facts.all_bodies():
        if "::tests::" in b.name or b.name.startswith("t38::") or "::interop_tests::" in b.name or "::security_tests::" in b.name:
            continue
        k = 0
        for bi, t, p in b.calls():
            if p and (p in SPAWNS or p == "spawn_rtc" or p.endswith("::spawn_rtc") or p.endswith("Handle::spawn")):
                out.append((b, bi, t, k))
                k += 1
    return out


def _spawned_future_def(b, t):
    for a in reversed(t["a"]):
        term = b.term_operand(a)
        for x in mir.walk(term):
            if x[0] == "closure":
                return x[1]
    return None


def _loops_have_exits(ctx, defname, depth=1):
    """(n_loops, n_without_exit) over the future body and the async fns it directly awaits"""
    if not ctx.facts.has_body(defname):
        return (0, 0)
    body = ctx.facts.body(defname)
    n = bad = 0
    for h, blocks in body.loops():
        # loops made only of macro expansion / await polling are not user loops
        user = [bi for bi in blocks if not body.blocks[bi]["t"]["sp"]["x"].startswith("d:Await")]
        if not user:
            continue
        n += 1
        exits = [(bi, tgt) for bi in blocks for tgt, _ in body.succ_edges(bi) if tgt not in blocks]
        rets = [bi for bi in blocks if body.blocks[bi]["t"]["k"] == "ret"]
        if not exits and not rets:
            bad += 1
    if depth > 0:
        for bi, t, p in body.calls():
            if p and ctx.facts.has_body(p + "::{closure#0}") and not p.startswith("std::"):
                n2, b2 = _loops_have_exits(ctx, p + "::{closure#0}", depth - 1)
                n += n2
                bad += b2
    return (n, bad)


def r17_1(ctx):
    r = RuleResult("R17.1", "K7", "every background task is owned or provably self-terminating")
    table = json.load(open(os.path.join(VERIF, "tables", "spawns.json")))
    sites = _spawn_sites(ctx)
    r.need("spawn call sites", len(sites), 21)
    used = set()
    for b, bi, t, k in sites:
        key = "%s#%d" % (b.name, k)
        fates = core.value_fates(b, bi)
        where = b.where(bi)
        if b.name == "spawn_rtc":
            if fates == {("return",)}:
                r.ok({"site": where, "handle": "returned by the spawn_rtc wrapper"})
            else:
                r.violate(b.name, "spawn#%d" % k, where, "spawn_rtc wrapper does not return the JoinHandle")
            continue
        owned = any(f[0] == "call" and f[1].endswith(OWNED) for f in fates)
        returned = ("return",) in fates
        pushed = any(f[0] == "call" and f[1].endswith("Vec::<T, A>::push") for f in fates)
        if pushed:
            has_guard = any(True for _ in core.aggregates(b, lambda a: a.endswith("LoopsGuard"))) or \
                any(core.aggregates(x, lambda a: a.endswith("LoopsGuard")) for x in ctx.facts.family(b.name.split("::{closure")[0]))
            pushed = bool(has_guard)
        detached = ("drop",) in fates
        if (owned or returned or pushed) and not detached:
            r.ok({"site": where, "handle": "track_task" if owned else ("returned to the caller" if returned else "LoopsGuard")})
            continue
        ent = table.get(key)
        if ent is None:
            r.violate(b.name, "spawn#%d" % k, where,
                      "background task detached (JoinHandle dropped) and not in the reviewed table: nothing aborts it on close")
            continue
        used.add(key)
        fut = ent.get("future") or _spawned_future_def(b, t)
        if ent.get("future") and not ctx.facts.has_body(ent["future"]):
            raise core.CheckerError("R17.1: table names a future body that does not exist: %s" % ent["future"])
        if fut is None:
            r.violate(b.name, "spawn#%d:witness" % k, where, "cannot find the spawned future to check its termination witness")
            continue
        n, bad = _loops_have_exits(ctx, fut, depth=1)
        if ent["witness"] == "oneshot":
            own_n, _ = _loops_have_exits(ctx, fut, depth=0)
            if own_n == 0:
                r.ok({"site": where, "table": key, "witness": "one-shot future (no loop)", "reason": ent["reason"]})
            else:
                r.violate(b.name, "spawn#%d:witness" % k, where, "table says one-shot but the spawned future now contains %d loop(s)" % own_n)
        else:
            if bad == 0:
                r.ok({"site": where, "table": key, "witness": "%d loop(s), each with an exit edge" % n, "reason": ent["reason"]})
            else:
                r.violate(b.name, "spawn#%d:witness" % k, where, "a loop of the detached task has no exit edge (it can never end)")
    stale = sorted(k for k in table if not k.startswith("_") and k not in used)
    for k in stale:
        r.notes.append("table entry not matched on this tree: %s" % k)
    return r


SHUTDOWN = {"SctpTransport": "close", "DtlsTransport": "close", "IceTransport": "stop", "RtpTransport": "clear_listeners"}


def r17_2(ctx):
    r = RuleResult("R17.2", "K4", "close path completeness")
    b = ctx.body("peer_connection::PeerConnectionInner::close_with_reason")
    r.scope.append(b.name)
    sends = {}
    for bi, t, p in core.calls_to(b, lambda p: "watch::Sender" in p and p.endswith("::send")):
        a0 = b.term_operand(t["a"][0])
        if a0[0] == "field":
            v = b.term_operand(t["a"][1])
            var = None
            for x in mir.walk(v):
                if x[0] == "agg" and x[2] in ("Closed", "Some", "Complete"):
                    var = x[2]
                    break
            sends.setdefault(a0[2], []).append((bi, var))
    anchor = None
    for f in ("signaling_state", "peer_state", "ice_connection_state"):
        ss = [bi for bi, v in sends.get(f, []) if v == "Closed"]
        rets = [i for i, blk in enumerate(b.blocks) if blk["t"]["k"] == "ret" and i not in b.cleanup]
        if not ss:
            r.violate(b.name, "send:%s=Closed" % f, b.where(0), "%s is never set to Closed on close" % f)
            continue
        if f == "peer_state":
            anchor = ss[0]
        r.ok({"site": b.where(ss[0]), "sends": "%s = Closed" % f})
    if anchor is None:
        raise core.CheckerError("R17.2: peer_state.send(Closed) not found")
    # everything below must follow the point where the connection is declared closed (or precede it on all paths)
    def on_close_path(blocks):
        return core.always_followed_by(b, anchor, blocks) or all(core.must_pass(b, anchor, [x]) for x in blocks[:1])
    for f in ("signaling_state", "ice_connection_state"):
        ss = [bi for bi, v in sends.get(f, []) if v == "Closed"]
        if ss and on_close_path(ss):
            r.ok({"%s=Closed" % f: "on every path that closes the connection"})
        elif ss:
            r.violate(b.name, "path:%s" % f, b.where(ss[0]), "%s=Closed is skipped on some closing path" % f)
    # ... and whoever waits in wait_for_gathering_complete() is released: the gathering state is set to Complete on
    # every closing path, unconditionally (close stops the runner and aborts the task that would otherwise mirror the
    # gatherer's state, so nothing else will ever publish it - also when gathering never started)
    gs = [bi for bi, v in sends.get("ice_gathering_state", []) if v == "Complete"]
    if gs and on_close_path(gs):
        r.ok({"ice_gathering_state=Complete": "on every path that closes the connection", "site": b.where(gs[0])})
    else:
        r.violate(b.name, "send:ice_gathering_state=Complete", b.where(anchor),
                  "close does not unconditionally publish ice_gathering_state = Complete: a pending or later wait_for_gathering_complete() "
                  "hangs for ever on a connection that is closed before (or just as) gathering starts")
    dr = [bi for bi, v in sends.get("disconnect_reason", [])]
    if dr:
        r.ok({"site": b.where(dr[0]), "disconnect_reason": "published when none was set before"})
    else:
        r.violate(b.name, "send:disconnect_reason", b.where(0), "no disconnect reason is published on close")
    # early return only on already-closed
    def already(term, meaning, *_):
        return term[0] == "call" and "PartialEq" in term[1] and mir.has_field(term, "peer_state") and \
            mir.has(term, lambda x: x[0] == "agg" and x[2] == "Closed") and meaning is term[1].endswith("::eq")
    g = core.guard_edges(b, already)
    # transport-typed fields
    adt = ctx.facts.adts.get("peer_connection::PeerConnectionInner")
    if adt is None:
        raise core.CheckerError("R17.2: struct PeerConnectionInner not found")
    n = 0
    for fld in adt["variants"][0]["fields"]:
        for tyname, method in SHUTDOWN.items():
            if "::" + tyname + ">" in fld["ty"] or fld["ty"].endswith("::" + tyname) or ("::" + tyname + ",") in fld["ty"]:
                n += 1
                # a lock/borrow of this field on the close path, and a call of the shutdown method somewhere after it
                locks = [bi for bi, t, f, m in core.lock_calls(b, fld["n"])]
                direct = [bi for bi, t, p in b.calls() if p and p.endswith(tyname + "::" + method) and
                          mir.has(b.term_operand(t["a"][0]), lambda x: x[0] == "field" and x[2] == fld["n"])]
                calls = [bi for bi, t, p in b.calls() if p and p.endswith(tyname + "::" + method)]
                reach_ok = False
                starts = locks or direct
                for lb in starts:
                    if lb in direct or any(c in core.reach_from(b, lb) for c in calls):
                        if core.always_followed_by(b, anchor, [lb]):
                            reach_ok = True
                if reach_ok:
                    r.ok({"field": fld["n"], "type": tyname, "shutdown": "%s() reached on every closing path (modulo the slot being empty)" % method})
                else:
                    r.violate(b.name, "shutdown:%s" % fld["n"], b.where(anchor),
                              "PeerConnectionInner.%s (%s) is not shut down (%s) on every closing path" % (fld["n"], tyname, method))
    r.need("transport-typed fields of PeerConnectionInner", n, 5)
    d = ctx.body("<peer_connection::PeerConnectionInner as std::ops::Drop>::drop")
    for callee in ("PeerConnectionInner::close_with_reason", "PeerConnectionInner::abort_tracked_tasks"):
        cs = [bi for bi, t, p in core.calls_to(d, suffix(callee))]
        if cs and core.always_followed_by(d, 0, cs) or (cs and cs[0] == 0):
            r.ok({"Drop": "calls %s on every path" % callee.split("::")[-1]})
        else:
            r.violate(d.name, "call:%s" % callee.split("::")[-1], d.where(0), "Drop for PeerConnectionInner does not call %s" % callee)
    # tracked tasks are aborted
    at = ctx.body("peer_connection::PeerConnectionInner::abort_tracked_tasks")
    if core.calls_to(at, suffix("JoinHandle::<T>::abort", "AbortHandle::abort")):
        r.ok({"abort_tracked_tasks": "aborts every tracked JoinHandle"})
    else:
        r.violate(at.name, "abort", at.where(0), "abort_tracked_tasks does not abort the handles")
    return r


def r17_3(ctx):
    r = RuleResult("R17.3", "K4", "SCTP cleanup guard armed before the first await")
    b = ctx.body("transports::sctp::SctpInner::run_loop::{closure#0}")
    r.scope.append(b.name)
    ags = core.aggregates(b, lambda a: a.endswith("sctp::SctpCleanupGuard"))
    if not any(n.endswith("sctp::SctpCleanupGuard") for n in ctx.facts.adts):
        raise core.CheckerError("R17.3: the SctpCleanupGuard type no longer exists")
    yields = [i for i, blk in enumerate(b.blocks) if blk["t"]["k"] == "yield" and i not in b.cleanup]
    if not ags:
        r.violate(b.name, "agg:SctpCleanupGuard", b.where(0), "run_loop no longer creates its cleanup guard: cancelling the task (abort on close / drop) "
                  "leaves the channels Open and the flow-control waiters asleep")
        return r
    gb, _, gs = ags[0]
    gl = gs["p"]["l"] if "p" not in gs["p"] else None
    if not (yields and all(core.must_pass(b, y, [gb]) for y in yields)):
        r.violate(b.name, "agg:SctpCleanupGuard", b.where(gb), "an await point of run_loop can be reached before the cleanup guard exists (cancellation there leaks Open channels)")
        return r
    # ... and it stays alive: no drop / move of the guard from which an await point is still reachable
    kills = []
    for bi, blk in enumerate(b.blocks):
        if bi in b.cleanup:
            continue
        t = blk["t"]
        if t["k"] == "drop" and t["p"]["l"] == gl and "p" not in t["p"]:
            kills.append(bi)
        elif t["k"] == "call" and any(core._moves_local(a, gl) for a in t["a"]):
            kills.append(bi)
        else:
            for s_ in blk["s"]:
                if s_["k"] == "as":
                    rv = s_["rv"]
                    if any(core._moves_local(o, gl) for o in [rv.get("o"), rv.get("a"), rv.get("b")] + list(rv.get("ops", ()))):
                        kills.append(bi)
    early = [k for k in kills if any(y in b.reachable([t for t, _ in b.succ_edges(k)]) for y in yields)]
    if gl is None or early:
        r.violate(b.name, "agg:SctpCleanupGuard:dropped", b.where(early[0] if early else gb),
                  "the cleanup guard is dropped / moved away while await points of run_loop are still ahead (e.g. `let _ = ...`): "
                  "cancellation after that point leaks Open channels")
    else:
        r.ok({"site": b.where(gb), "before": "all %d await points of run_loop" % len(yields), "alive": "no drop/move of the guard with an await point still reachable (%d drop sites)" % len(kills)})
    return r


def r17_4(ctx):
    r = RuleResult("R17.4", "K4+K1", "no lost wake-up on close")
    for fn in ("transports::sctp::SctpTransport::close", "<transports::sctp::SctpTransport as std::ops::Drop>::drop"):
        b = ctx.body(fn)
        r.scope.append(fn)
        closed = [bi for bi, si, s, v in core.lock_write_sites(b, "state", methods=("::lock",)) if v[0] == "agg" and v[2] == "Closed"]
        n1 = [bi for bi, t, p in b.calls() if p and p.endswith("Notify::notify_one") and mir.has_field(b.term_operand(t["a"][0]), "close_tx")]
        n2 = [bi for bi, t, p in b.calls() if p and p.endswith("Notify::notify_waiters") and mir.has_field(b.term_operand(t["a"][0]), "flow_control_notify")]
        ok = closed and n1 and n2 and all(core.must_pass(b, x, closed) for x in n1 + n2)
        if ok:
            r.ok({"function": fn, "sets": "state=Closed, then close_tx.notify_one() and flow_control_notify.notify_waiters()"})
        else:
            r.violate(fn, "wake", b.where(0), "close does not set Closed before waking both Notify objects")
    # the association also ends without close(): peer ABORT / SHUTDOWN-ACK, heartbeat or INIT timeout, transport loss.
    # All of those end run_loop, whose cleanup guard is the one place that runs on every exit.
    gfn = "<transports::sctp::SctpCleanupGuard<'a> as std::ops::Drop>::drop"
    if not ctx.facts.has_body(gfn):
        cands = [n for n in ctx.facts.order if "SctpCleanupGuard" in n and n.endswith("::drop")]
        if len(cands) != 1:
            raise core.CheckerError("R17.4: SctpCleanupGuard::drop not found")
        gfn = cands[0]
    gb = ctx.body(gfn)
    r.scope.append(gfn)
    gclosed = [bi for bi, si, s_, v in core.lock_write_sites(gb, "state", methods=("::lock",)) if v[0] == "agg" and v[2] == "Closed"]
    gn = [bi for bi, t, p in gb.calls() if p and p.endswith("Notify::notify_waiters") and mir.has_field(gb.term_operand(t["a"][0]), "flow_control_notify")]
    grets = [i for i, blk in enumerate(gb.blocks) if blk["t"]["k"] == "ret" and i not in gb.cleanup]
    if gclosed and gn and all(core.must_pass(gb, x, gclosed) for x in gn) and all(core.must_pass(gb, rb, gn) for rb in grets):
        r.ok({"function": gfn, "sets": "state=Closed, then flow_control_notify.notify_waiters() on every path"})
    else:
        r.violate(gfn, "wake", gb.where(0),
                  "run_loop's cleanup guard marks the association Closed without waking senders parked on flow control: after a "
                  "peer ABORT/SHUTDOWN or a timeout a blocked send_data() never returns")
    rl = ctx.body("transports::sctp::SctpInner::run_loop::{closure#0}")
    if core.aggregates(rl, lambda a: a.endswith("sctp::SctpCleanupGuard")):
        r.ok({"function": rl.name, "holds": "SctpCleanupGuard for its whole body"})
    else:
        r.violate(rl.name, "guard", rl.where(0), "run_loop no longer holds the cleanup guard")
    # waiter re-tests Closed before each wait
    sd = ctx.body("transports::sctp::SctpInner::send_data_raw::{closure#0}")
    waits = [bi for bi, t, p in sd.calls() if p and p.endswith("Notify::notified") and mir.has_field(sd.term_operand(t["a"][0]), "flow_control_notify")]
    r.need("flow-control wait sites", len(waits), 1)

    def not_closed(term, meaning, *_):
        return term[0] == "call" and "PartialEq" in term[1] and mir.has(term, lambda x: x[0] == "agg" and x[1].endswith("SctpState") and x[2] == "Closed") and \
            meaning is (not term[1].endswith("::eq"))
    g = core.guard_edges(sd, not_closed)
    for bi in waits:
        if g and core.k1(sd, [bi], g, fresh_per_iteration=True)[bi] is None:
            r.ok({"site": sd.where(bi), "re-tests": "state != Closed before every wait"})
        else:
            r.violate(sd.name, "wait:flow_control", sd.where(bi), "sender can park on flow_control_notify without re-testing Closed (lost wake-up on close)")
    return r


HS = "transports::dtls::DtlsInner::handshake::{closure#0}"


def r17_5(ctx):
    """the DTLS handshake loop is the only writer of the DTLS state watch besides the runner wrapper (which
    publishes Failed for an Err). Everything that waits for the transport - start_dtls during start-up, the
    connection task afterwards - waits on that watch, so the loop may end with Ok only after publishing a
    terminal state; otherwise a close() landing mid-handshake leaves the waiter, and the strong reference to
    the connection it holds, parked for ever."""
    r = RuleResult("R17.5", "K4", "the DTLS handshake loop never ends without publishing a terminal state")
    b = ctx.body(HS)
    r.scope.append(HS)
    term_send = [bi for bi, t, p in b.calls()
                 if p and p.endswith("watch::Sender::<T>::send") and len(t["a"]) == 2 and
                 mir.has_field(b.term_operand(t["a"][0]), "state_tx") and
                 (lambda v: v[0] == "agg" and v[1].endswith("DtlsState") and v[2] in ("Closed", "Failed"))(b.term_operand(t["a"][1]))]
    oks = core.ok_return_blocks(b)
    r.need("Ok returns of the handshake loop", len(oks), 2)
    r.need("terminal state publications", len(term_send), 2)
    for rb in oks:
        if core.must_pass(b, rb, term_send):
            r.ok({"return": b.where(rb), "after": "state_tx.send(Closed | Failed)"})
        else:
            p = b.path_to([0], rb, cut_blocks=set(term_send))
            r.violate(HS, "return:Ok", b.where(rb),
                      "the handshake loop can return Ok without publishing Closed/Failed on the state watch: waiters such as "
                      "start_dtls() then hang (close() during the handshake never releases the connection)",
                      core.describe_path(b, p) if p else "")
    return r


ICE_STOP = "transports::ice::IceTransport::stop"
ICE_RELEASE_FIELDS = ("sockets", "tcp_listeners", "tcp_streams", "shared_tcp_regs", "shared_udp_regs", "turn_clients", "shared_udp_socket")


def r17_6(ctx):
    """IceTransport::stop() is the one place that gives back the sockets, listeners, TCP streams, TURN clients and
    shared-port registrations a connection holds (they live in the gatherer, which the application-held handle keeps
    alive). Every one of them must be released on EVERY path through stop(): an early return for a "nothing
    happened yet" state misses the ports that the direct-RTP offer path binds without touching the ICE state."""
    r = RuleResult("R17.6", "K4", "IceTransport::stop releases every socket / listener / TURN / shared-port holder on every path")
    b = ctx.body(ICE_STOP)
    r.scope.append(ICE_STOP)
    rets = [i for i, blk in enumerate(b.blocks) if blk["t"]["k"] == "ret" and i not in b.cleanup]
    # the gatherer's resource fields, from its type: anything holding sockets / listeners / streams / TURN clients / registrations
    adt = None
    for name, a in ctx.facts.adts.items():
        if name.endswith("ice::IceGatherer"):
            adt = a
    if adt is None:
        raise core.CheckerError("R17.6: IceGatherer type not found")
    holders = []
    for v in adt["variants"]:
        for f in v["fields"]:
            ty = f["ty"]
            if any(k in ty for k in ("UdpSocket", "TcpListener", "TcpStream", "TurnClient", "IceSocketWrapper", "SharedUdp", "SharedTcp", "Registration")) \
                    and any(k in ty for k in ("Mutex<", "RwLock<")):
                holders.append(f["n"])
    for f in ICE_RELEASE_FIELDS:
        if f not in holders:
            holders.append(f)
    n = 0
    for f in sorted(set(holders)):
        rel = [bi for bi, t, p in b.calls() if p and p.endswith(("::clear", "::take")) and t["a"] and mir.has_field(b.term_operand(t["a"][0]), f)]
        rel += [bi for bi, si, st, v in core.lock_write_sites(b, f, methods=("::lock", "::write")) if v[0] == "agg" and v[2] == "None"]
        if not rel:
            r.violate(ICE_STOP, "release:%s" % f, b.where(0), "stop() never releases gatherer.%s" % f)
            continue
        n += 1
        if all(core.must_pass(b, rb, rel) for rb in rets):
            r.ok({"field": f, "released at": b.where(rel[0]), "on": "every path"})
        else:
            p_ = b.path_to([0], rets[0], cut_blocks=set(rel))
            r.violate(ICE_STOP, "release:%s" % f, b.where(rel[0]),
                      "stop() can return without releasing gatherer.%s: the port / registration stays bound while the application holds the connection" % f,
                      core.describe_path(b, p_) if p_ else "")
    closed = [bi for bi, t, p in b.calls() if p and p.endswith("watch::Sender::<T>::send") and t["a"] and mir.has_field(b.term_operand(t["a"][0]), "state")
              and mir.has(b.term_operand(t["a"][1]), lambda x: x[0] == "agg" and x[2] == "Closed")]
    if closed and all(core.must_pass(b, rb, closed) for rb in rets):
        r.ok({"state": "Closed published on every path"})
    else:
        r.violate(ICE_STOP, "state:Closed", b.where(0), "stop() can return without publishing IceTransportState::Closed")
    r.need("resource holders released by stop()", n, 7)
    return r


def _strong_ty(ty):
    t = ty.strip()
    if t.startswith("&") or "Weak<" in t:
        return False
    return t.startswith("std::sync::Arc<peer_connection::PeerConnectionInner>") or t == "peer_connection::PeerConnection"


def _always_true(ctx, fn):
    """every value `fn` returns is the constant true"""
    if not ctx.facts.has_body(fn):
        return False
    b = ctx.body(fn)
    vals = [b.term_rvalue(st["rv"]) for bi, si, st in b.assigns() if st["p"]["l"] == 0 and "p" not in st["p"]]
    return bool(vals) and all(v[:2] == ("const", 1) for v in vals) and not any(t["dst"]["l"] == 0 for _, t, _ in b.calls())


# reviewed exceptions of R17.7: (coroutine body, local name) -> (mechanically checked justification, text)
STRONG_EXCEPTIONS = {
    ("peer_connection::run_gathering_loop::{closure#0}", "inner"): (
        lambda ctx: _always_true(ctx, "peer_connection::update_local_description_on_gather"),
        "the inner wait loop is entered only when update_local_description_on_gather() returns false, and every return of that "
        "function is the constant true (re-checked on every run): unreachable"),
}


def _arg_roots(b, op, hops=8):
    """locals an operand is derived from by copies / references / re-borrows"""
    out = set()
    if not isinstance(op, dict) or op.get("k") not in ("cp", "mv"):
        return out
    l = op["p"]["l"]
    for _ in range(hops):
        out.add(l)
        ds = b.defs().get(l, [])
        if len(ds) != 1 or ds[0][0] != "s":
            break
        rv = b.blocks[ds[0][1]]["s"][ds[0][2]]["rv"]
        if rv["r"] == "use" and rv["o"].get("k") in ("cp", "mv"):
            l = rv["o"]["p"]["l"]
        elif rv["r"] in ("ref", "addr", "rawptr"):
            l = rv["p"]["l"]
        else:
            break
    return out


def _awaits_call_on_handle(b, y, handles):
    """the future suspended at yield block y was produced by a call that takes one of `handles` (by value or
    reference) as an argument - e.g. `pc_temp.start_dtls(..).await`"""
    # the poll that leads to this yield
    polls = [bi for bi in range(len(b.blocks)) if b.blocks[bi]["t"]["k"] == "call" and
             (mir.callee_path(b.blocks[bi]["t"]["f"]) or "").endswith("Future::poll")]
    best = None
    for pb in polls:
        q = b.path_to([b.blocks[pb]["t"].get("to")], y, cut_edges=b.back_edges())
        if q is not None and (best is None or len(q) < best[1]):
            best = (pb, len(q))
    if best is None or best[1] > 4:
        return False
    fut_roots = _arg_roots(b, b.blocks[best[0]]["t"]["a"][0], hops=10)
    # walk back through Pin::new_unchecked / into_future to the call that made the future
    seen, work = set(), list(fut_roots)
    while work:
        l = work.pop()
        if l in seen:
            continue
        seen.add(l)
        for d in b.defs().get(l, []):
            if d[0] == "t":
                t = b.blocks[d[1]]["t"]
                path = mir.callee_path(t["f"]) or ""
                for a in t["a"]:
                    roots = _arg_roots(b, a)
                    if roots & set(handles) and not path.endswith(("into_future", "new_unchecked")):
                        return True
                    if path.endswith(("into_future", "new_unchecked", "Pin::<Ptr>::new_unchecked")):
                        work.extend(roots)
            else:
                rv = b.blocks[d[1]]["s"][d[2]]["rv"]
                if rv["r"] in ("ref", "addr", "rawptr"):
                    work.append(rv["p"]["l"])
                elif rv["r"] == "use" and rv["o"].get("k") in ("cp", "mv"):
                    work.append(rv["o"]["p"]["l"])
    return False


def r17_7(ctx):
    """dropping the last application handle must run Drop for PeerConnectionInner - the only place that stops the
    transports and aborts the tracked tasks. A background task of the connection therefore may not keep a strong
    handle (Arc<PeerConnectionInner> or a PeerConnection) alive while it waits inside a loop: it upgrades its Weak
    for the duration of one step. Exempt: awaiting a call made ON that handle (the handle is the receiver), which
    ends when the call ends."""
    r = RuleResult("R17.7", "K5/liveness", "connection tasks hold the PeerConnection only weakly while they wait in a loop")
    n = 0
    for b in ctx.facts.bodies(prefix="peer_connection::"):
        if "::tests::" in b.name or not b.coroutine:
            continue
        strong = [i for i, l in enumerate(b.locals) if _strong_ty(l["ty"])]
        if not strong:
            continue
        # user loops only: the poll loop an `.await` desugars into is not a loop the task "waits in"
        await_hdrs = {hdr for (src, hdr) in b.back_edges() if b.blocks[src]["t"]["sp"]["x"] == "d:Await"}
        loops = set()
        for h, bl in b.loops():
            if h not in await_hdrs:
                loops |= bl
        ys = [i for i, blk in enumerate(b.blocks) if blk["t"]["k"] == "yield" and i in loops]
        if not ys:
            continue
        # only tasks of the connection itself (spawned loops), not API methods awaited by the application
        base = b.name.split("::{closure")[0]
        if base.startswith("peer_connection::PeerConnection::") and not base.endswith(("create_rtcp_loop", "create_pair_monitor", "spawn_transport_loops")) \
                and "::{closure#0}::{closure" not in b.name:
            continue
        r.scope.append(b.name)
        for l in strong:
            live = core.live_at_terminator(b, l)
            for y in ys:
                n += 1
                if y not in live:
                    r.ok(None)
                    continue
                # what is being awaited at this yield: the future polled just before
                awaited = None
                for pb in b.preds(y):
                    pass
                fut_terms = []
                for bi2 in range(len(b.blocks)):
                    t2 = b.blocks[bi2]["t"]
                    if t2["k"] == "call" and (mir.callee_path(t2["f"]) or "").endswith("Future::poll") and y in b.reachable([t2.get("to")], cut_edges=b.back_edges()) \
                            and len(b.path_to([t2.get("to")], y, cut_edges=b.back_edges()) or range(99)) <= 4:
                        fut_terms.append(b.term_operand(t2["a"][0]))
                uses_handle = _awaits_call_on_handle(b, y, strong)
                exc = STRONG_EXCEPTIONS.get((b.name, b.locals[l].get("n")))
                if exc and exc[0](ctx):
                    r.ok({"site": b.where(y), "holds": b.locals[l].get("n"), "exception": exc[1]})
                    continue
                if uses_handle:
                    r.ok({"site": b.where(y), "holds": b.locals[l].get("n") or "_%d" % l, "exempt": "awaits a call on the handle itself"})
                else:
                    r.violate(b.name, "strong-across-await:%s" % (b.locals[l].get("n") or "_%d" % l), b.where(y),
                              "a strong handle to the connection (%s: %s) is alive while this task waits inside a loop: dropping the last "
                              "application handle cannot run Drop, so the transports and tracked tasks are never released" %
                              (b.locals[l].get("n") or "_%d" % l, b.locals[l]["ty"][:60]))
    r.samples = [x for x in r.samples if x]
    r.need("(strong handle, await-in-loop) pairs examined", n, 8)
    return r


def r17_8(ctx):
    """close_with_reason - the body of close() and of Drop - starts with `if <state> == Closed { return }`: that published
    state is its record that the teardown (stop ICE, close DTLS/SCTP, abort tasks, BYE) has run. Whoever else publishes
    Closed on the SAME state turns the application's later close() / drop into a no-op: sockets, tasks and the other
    states stay as they were. (The loops that mirror a stopped ICE transport into the peer state did exactly that until
    the guard was moved to the signaling state, which only the teardown ever closes.)"""
    r = RuleResult("R17.8", "K3", "the state close() uses as its 'already closed' flag is set to Closed by the teardown only")
    cw = ctx.body("peer_connection::PeerConnectionInner::close_with_reason")
    r.scope.append(cw.name)
    guard_field = None
    rets = [i for i, blk in enumerate(cw.blocks) if blk["t"]["k"] == "ret" and i not in cw.cleanup]
    for sb in range(len(cw.blocks)):
        if sb in cw.cleanup or cw.blocks[sb]["t"]["k"] != "switch":
            continue
        term, outs = cw.switch_info(sb)
        if term[0] == "call" and "PartialEq" in term[1] and mir.has(term, lambda x: x[0] == "agg" and x[2] == "Closed"):
            flds = [x[2] for x in mir.walk(term) if x[0] == "field" and x[2].endswith("_state")]
            # the early return: the `== Closed` edge reaches a return without passing any watch send
            if flds and guard_field is None and sb < 6:
                guard_field = flds[0]
    if guard_field is None:
        raise core.CheckerError("R17.8: the 'already closed' test at the top of close_with_reason was not found")
    n = 0
    for b in ctx.facts.all_bodies():
        if "::tests::" in b.name or not b.name.lstrip("<").startswith("peer_connection::"):
            continue
        for bi, t, p in b.calls():
            if not (p and "watch::Sender" in p and p.split("::")[-1] in ("send", "send_replace", "send_if_modified", "send_modify") and t["a"]):
                continue
            if not mir.has_field(b.term_operand(t["a"][0]), guard_field):
                continue
            v = b.term_operand(t["a"][1]) if len(t["a"]) > 1 else None
            alts = [v] if v is not None else []
            if v is not None and v[0] == "var" and len(v) > 2:
                alts = b.var_def_terms(v[2]) or [v]
            elif v is not None and v[0] == "phi" and isinstance(v[1], tuple):
                alts = list(v[1])
            states = {x[2] for a in alts for x in mir.walk(a) if x[0] == "agg" and x[1].endswith("State")}
            literal = bool(alts) and all(a[0] == "agg" and a[1].endswith("State") for a in alts)
            if v is not None and v[0] == "closure" and ctx.facts.has_body(v[1]):
                cb = ctx.facts.body(v[1])
                states, literal = set(), True
                for _bi, _si, st_ in cb.assigns():
                    for x in mir.walk(cb.term_rvalue(st_["rv"])):
                        if x[0] == "agg" and x[1].endswith("State"):
                            states.add(x[2])
            if "Closed" not in states and literal:
                continue
            n += 1
            if b.name.endswith("PeerConnectionInner::close_with_reason"):
                r.ok({"site": b.where(bi), "publishes": "%s = Closed" % guard_field, "publisher": "the teardown itself"})
            else:
                r.violate(b.name, "publish:Closed", b.where(bi),
                          "%s = Closed %s published outside the teardown: close_with_reason returns early once %s is Closed, so a later "
                          "close() / drop releases nothing (DTLS, SCTP, tasks and the other states stay as they were)"
                          % (guard_field, "is" if literal else "may be (non-literal value)", guard_field))
    r.need("publications of %s = Closed" % guard_field, n, 1)
    return r


def _publishes_peer_state(ctx, b, depth=0):
    """blocks of b that publish the connection state: a watch send on `peer_state`, or a call of a crate function
    every path through which publishes it"""
    out = set()
    for bi, t, p in b.calls():
        if not p or bi in b.cleanup:
            continue
        if "watch::Sender" in p and p.split("::")[-1] in ("send", "send_replace", "send_if_modified", "send_modify") and t["a"] and \
                mir.has_field(b.term_operand(t["a"][0]), "peer_state"):
            out.add(bi)
        elif depth < 2 and ctx.facts.has_body(p) and p.startswith("peer_connection::") and not p.endswith("}"):
            cb = ctx.facts.body(p)
            inner = _publishes_peer_state(ctx, cb, depth + 1)
            rets = [i for i, blk in enumerate(cb.blocks) if blk["t"]["k"] == "ret" and i not in cb.cleanup]
            if inner and rets and all(core.must_pass(cb, rt, inner) for rt in rets):
                out.add(bi)
    return out


def r17_9(ctx):
    """'a lower layer (DTLS, SCTP) fails or is closed by the peer => the connection reports a terminal state and a
    disconnect reason'. While connected, the monitoring task selects over the transport-loops future (what start_dtls
    returned: DTLS, SCTP and RTCP runners), ICE state changes, the DTLS state and the grace timer. When the peer aborts
    or shuts down the SCTP association, ICE and DTLS stay up: the ONLY branch that fires is the completion of the
    transport loops. That branch must publish a connection state before the function returns - otherwise the
    application keeps seeing Connected for ever."""
    r = RuleResult("R17.9", "K4", "when the transport loops end on their own the monitoring task publishes a connection state before it returns")
    n = 0
    for fn in ("peer_connection::handle_connected_state::{closure#0}", "peer_connection::handle_connected_state_no_dtls::{closure#0}"):
        b = ctx.body(fn)
        r.scope.append(fn)
        pubs = _publishes_peer_state(ctx, b)
        rets = [i for i, blk in enumerate(b.blocks) if blk["t"]["k"] == "ret" and i not in b.cleanup]
        for sb in range(len(b.blocks)):
            if sb in b.cleanup or b.blocks[sb]["t"]["k"] != "switch":
                continue
            term, outs = b.switch_info(sb)
            if term[0] != "discr" or not term[2].endswith("__tokio_select_util::Out"):
                continue
            cl = [x for x in mir.walk(term) if x[0] == "closure"]
            if not cl:
                continue
            # which branch of this select! is the transport-loops future (the value start_dtls returned)?
            k = None
            for o in cl[0][2]:
                if o[0] == "tuple":
                    for i, el in enumerate(o[1]):
                        if mir.has(el, lambda x: x[0] == "call" and x[1].endswith("PeerConnection::start_dtls")):
                            k = i
            if k is None:
                continue
            tgt = [t for t, _, m in outs if m == "_%d" % k]
            if not tgt:
                raise core.CheckerError("R17.9: select at %s has no arm _%d" % (b.where(sb), k))
            n += 1
            bad = None
            # nobody to report to once the connection object is gone: the `inner_weak.upgrade()` None edges are fine
            gone = set(core.guard_edges(b, lambda term, meaning, *_: term[0] == "discr" and meaning == "None" and
                                        mir.has(term[1], lambda x: x[0] == "call" and x[1].endswith("Weak::<T, A>::upgrade"))))
            for rt in rets:
                q = b.path_to(tgt, rt, cut_blocks=pubs, cut_edges=gone)
                if q is not None:
                    bad = q
                    break
            if bad is None:
                r.ok({"select": b.where(sb), "arm": "_%d (transport loops ended)" % k, "then": "a peer_state publication on every path to the return"})
            else:
                r.violate(fn, "loops-ended:no-state", b.where(tgt[0]),
                          "when the transport loops end by themselves (peer SCTP ABORT / SHUTDOWN, DTLS runner gone) the function can return "
                          "without publishing any connection state: the application keeps seeing Connected", core.describe_path(b, bad))
    r.need("select! statements that watch the transport loops", n, 3)
    return r


def r17_10(ctx):
    """'all background tasks ... owned by the connection are released within bounded time' - after close(), not only
    after the last handle is dropped (applications keep the closed handle around). Two halves: (1) every tracked task
    is aborted by close_with_reason itself (a task that subscribed to a state after it became terminal never sees a
    change: close() before the connection task is first polled parks run_gathering_loop until drop); (2) every
    detached loop of the reviewed table that belongs to one connection names the call that ends it (`stopped_by`),
    and close_with_reason makes that call."""
    r = RuleResult("R17.10", "K4+table", "close() itself ends every task of the connection: tracked ones aborted, detached loops given their stop signal")
    b = ctx.body("peer_connection::PeerConnectionInner::close_with_reason")
    r.scope.append(b.name)
    closed = []
    for bi, t, p in core.calls_to(b, lambda p: "watch::Sender" in p and p.endswith("::send")):
        if mir.has_field(b.term_operand(t["a"][0]), "peer_state") and mir.has(b.term_operand(t["a"][1]), lambda x: x[0] == "agg" and x[2] == "Closed"):
            closed.append(bi)
    if not closed:
        raise core.CheckerError("R17.10: peer_state.send(Closed) not found in close_with_reason")
    anchor = closed[0]
    ab = [bi for bi, t, p in core.calls_to(b, suffix("PeerConnectionInner::abort_tracked_tasks"))]
    if ab and core.always_followed_by(b, anchor, ab):
        r.ok({"site": b.where(ab[0]), "tracked tasks": "aborted on every closing path"})
    else:
        r.violate(b.name, "close:abort-tracked", b.where(anchor),
                  "close_with_reason does not abort the tracked tasks (only Drop does): a task parked on a state that was already "
                  "terminal when it subscribed stays alive for as long as the application holds the closed handle")
    table = json.load(open(os.path.join(VERIF, "tables", "spawns.json")))
    n = 0
    for key, ent in sorted(table.items()):
        if key.startswith("_") or not ent.get("stopped_by"):
            continue
        n += 1
        callee = ent["stopped_by"]
        cs = [bi for bi, t, p in core.calls_to(b, suffix(callee))]
        if cs:
            r.ok({"detached loop": key, "stopped_by": callee, "site": b.where(cs[0])})
        else:
            r.violate(b.name, "close:stop:%s" % callee, b.where(anchor),
                      "the detached loop %s ends through %s, which close_with_reason never calls: the loop outlives close() until the last "
                      "handle is dropped" % (key, callee))
    r.need("connection-owned detached loops with a stop signal", n, 4)
    return r


def r17_11(ctx):
    """'pending and subsequent API calls return promptly instead of hanging': PeerConnection::recv() waits on an event
    channel whose sending half lives in the connection itself (and in its receivers), so the channel never closes on its
    own. recv() therefore has to watch the closed state as well: a waiter parked in recv() - the usual event loop of an
    application - must come back when the connection is closed."""
    r = RuleResult("R17.11", "K4", "PeerConnection::recv() ends when the connection is closed")
    fn = "peer_connection::PeerConnection::recv::{closure#0}"
    b = ctx.body(fn)
    r.scope.append(fn)
    waits = [bi for bi, t, p in b.calls() if p and ("watch::Receiver" in p) and p.split("::")[-1] in ("wait_for", "changed")]
    subs = [bi for bi, t, p in b.calls() if p and p.endswith("watch::Sender::<T>::subscribe") and t["a"] and
            any(mir.has_field(b.term_operand(t["a"][0]), f) for f in ("signaling_state", "peer_state"))]
    def _pred_closed(t):
        if p_ := [x for x in t["a"][1:] if True]:
            for a in p_:
                v = b.term_operand(a)
                if v[0] == "closure" and ctx.facts.has_body(v[1]):
                    cb = ctx.facts.body(v[1])
                    return any(x[0] == "agg" and x[2] == "Closed" for _bi, _si, st_ in cb.assigns() for x in mir.walk(cb.term_rvalue(st_["rv"]))) or \
                        any(mir.has(cb.switch_info(sb)[0], lambda x: x[0] == "agg" and x[2] == "Closed" or x[0] == "discr")
                            for sb in range(len(cb.blocks)) if cb.blocks[sb]["t"]["k"] == "switch")
        return True     # changed(): any transition wakes the waiter
    waits = [bi for bi in waits if _pred_closed(b.blocks[bi]["t"])]
    if waits and subs:
        r.ok({"site": b.where(waits[0]), "watches": "the closed state next to the event channel"})
    else:
        r.violate(fn, "recv:no-close-watch", b.where(0),
                  "recv() awaits the event channel only; its sender is owned by the connection, so after close() a pending or later "
                  "recv() never returns")
    return r


def r17_12(ctx):
    """'every open data channel observes Close exactly once' and no DataChannel::recv() hangs: close_with_reason itself ends
    every registered channel (state swapped to Closed; Close sent and the event channel closed only by the call that made
    the transition). The SCTP runner's cleanup guard does the same, but a channel created before SCTP was started never
    meets that guard."""
    r = RuleResult("R17.12", "K4+K1", "close() ends every registered data channel, Close at most once")
    b = ctx.body("peer_connection::PeerConnectionInner::close_with_reason")
    r.scope.append(b.name)
    ending, announcing = _dc_methods(ctx)
    closes = [bi for bi, t, p in b.calls() if p in ending]
    events = [(bi, t) for bi, t, p in b.calls() if p and p.endswith("DataChannel::send_event")
              and mir.has(b.term_operand(t["a"][1]), lambda x: x[0] == "agg" and x[2] == "Close")]
    # a DataChannel method that announces Close on the sender it takes out of the channel is once-only by construction
    once_only = [bi for bi, t, p in b.calls() if p in announcing]
    for bi in once_only:
        r.ok({"site": b.where(bi), "Close": "announced by a method that takes the event sender (at most once)"})
    if once_only and not events:
        events = []
    if not closes or (not events and not once_only):
        r.violate(b.name, "close:channels", b.where(0),
                  "close_with_reason does not end the registered data channels: a channel that never reached the SCTP runner (created "
                  "before SCTP started) gets no Close and its recv() waits for ever")
        return r
    def transitioned(term, meaning, *_):
        # old state (result of the swap) != Closed
        return term[0] == "bin" and term[1] in ("Ne", "Eq") and mir.has(term, lambda x: x[0] == "call" and x[1].endswith("::swap")) and \
            isinstance(meaning, bool) and (meaning is (term[1] == "Ne"))
    g = core.guard_edges(b, transitioned)
    for bi, t in events:
        if g and core.k1(b, [bi], g, fresh_per_iteration=True)[bi] is None:
            r.ok({"site": b.where(bi), "Close": "only by the call that swapped the state to Closed"})
        else:
            r.violate(b.name, "close:twice", b.where(bi), "Close is sent without this call having performed the transition to Closed: a channel the SCTP guard "
                      "already closed is told Close a second time")
    # ... and the sweep is not an alternative to closing the SCTP transport: the runner's guard fires once, when the
    # association ends - a channel registered AFTER that (peer close_notify / ABORT / timeout ended SCTP while the
    # connection stayed open) meets neither, unless close() sweeps on every path
    def lock_on(field):
        return [bi for bi, t, p in b.calls() if p and p.endswith("::lock") and t["a"] and mir.has_field(b.term_operand(t["a"][0]), field)]
    sweep, takes = lock_on("data_channels"), lock_on("sctp_transport")
    if not sweep or not takes:
        raise core.CheckerError("R17.12: data_channels / sctp_transport lock sites not found in close_with_reason")
    for tb in takes:
        if core.always_followed_by(b, tb, sweep):
            r.ok({"site": b.where(tb), "then": "the data-channel sweep, on every path to the return"})
        else:
            r.violate(b.name, "close:sweep-skipped", b.where(tb),
                      "close_with_reason can return without sweeping the registered data channels when an SCTP transport exists: a channel "
                      "created after the association had already ended gets no Close and its recv() waits for ever")
    return r


# RFC 4960 3.2: the chunk types by which the PEER ends the association (protocol constants, not repository choices)
PEER_ENDS = {6: "ABORT", 8: "SHUTDOWN ACK", 14: "SHUTDOWN COMPLETE"}


def r17_13(ctx):
    """'a lower layer ... is closed by the peer -> the connection reports a terminal state and a disconnect reason'. For
    SCTP the peer ends the association with ABORT, or with a shutdown handshake whose last chunk for the side that
    started it is SHUTDOWN ACK and for the other side SHUTDOWN COMPLETE. Each of them must have an arm in the chunk
    dispatch of handle_packet, and every path through that arm records a close reason and sets the state Closed (which
    is what the run loop, the cleanup guard and the connection's monitoring task react to). SHUTDOWN COMPLETE used to
    fall into the 'unhandled chunk' arm: after a graceful shutdown by the peer the association stayed Connected."""
    r = RuleResult("R17.13", "K6+K4", "every chunk by which the peer ends the SCTP association closes ours, with a reason")
    fn = "transports::sctp::SctpInner::handle_packet::{closure#0}"
    b = ctx.body(fn)
    r.scope.append(fn)
    disp = None
    for sb, blk in enumerate(b.blocks):
        if sb in b.cleanup or blk["t"]["k"] != "switch":
            continue
        term, outs = b.switch_info(sb)
        ints = [m for _t, _l, m in outs if isinstance(m, int) and not isinstance(m, bool)]
        if term[0] == "call" and term[1].endswith("get_u8") and len(ints) >= 8:
            disp = (sb, outs)
    if disp is None:
        raise core.CheckerError("R17.13: chunk-type dispatch of handle_packet not found")
    sb, outs = disp
    headers = set(core.enclosing_loop_headers(b, sb))
    closes = [bi for bi, t, p in b.calls() if p and p.endswith("SctpInner::set_state") and
              mir.has(b.term_operand(t["a"][1]), lambda x: x[0] == "agg" and x[2] == "Closed")]
    reasons = [bi for bi, si, st, v in core.lock_write_sites(b, "close_reason")]
    by_val = {m: tgt for tgt, _l, m in outs if isinstance(m, int) and not isinstance(m, bool)}
    for val, name in sorted(PEER_ENDS.items()):
        if val not in by_val:
            r.violate(fn, "end:%d" % val, b.where(sb),
                      "chunk type %d (%s) has no arm in the dispatch: when the peer ends the association this way ours stays Connected "
                      "(no terminal state, no reason, channels not closed) until a heartbeat fails" % (val, name))
            continue
        tgt = by_val[val]
        for what, via in (("state Closed", closes), ("a close reason", reasons)):
            reach = b.reachable([tgt], cut_blocks=set(via)) if tgt not in via else set()
            leak = [x for x in reach if (b.blocks[x]["t"]["k"] == "ret" and x not in b.cleanup) or
                    any(t2 in headers for t2, _ in b.succ_edges(x))]
            if leak:
                r.violate(fn, "end:%d:%s" % (val, what.split()[-1]), b.where(tgt),
                          "the %s arm can be left without %s" % (name, what))
            else:
                r.ok({"chunk": name, "arm": b.where(tgt), "sets": what})
    return r


def r17_14(ctx):
    """'subsequent API calls return promptly instead of hanging': close() ends every REGISTERED data channel (R17.12). A
    channel registered after that sweep is never opened and never closed - its recv() waits for ever. create_data_channel
    therefore refuses a closed connection, and decides it under the registry lock (which the sweep of close() takes
    after it has published Closed): either the channel is registered before the sweep, or the call sees Closed."""
    r = RuleResult("R17.14", "K1+K5", "no data channel is registered on a closed connection")
    b = ctx.body("peer_connection::PeerConnection::create_data_channel")
    r.scope.append(b.name)
    pushes = [bi for bi, t, p in b.calls() if p and p.endswith("::push") and t["a"] and mir.has_field(b.term_operand(t["a"][0]), "data_channels")]
    r.need("registry pushes in create_data_channel", len(pushes), 1)
    locks = [bi for bi, t, p in b.calls() if p and p.endswith("::lock") and t["a"] and mir.has_field(b.term_operand(t["a"][0]), "data_channels")]

    def open_edge(term, meaning, *_):
        if term[0] == "call" and "PartialEq" in term[1] and isinstance(meaning, bool) and \
                mir.has_field(term, "signaling_state") and mir.has(term, lambda x: x[0] == "agg" and x[2] == "Closed"):
            return meaning is term[1].endswith("::ne")
        return False
    g = core.guard_edges(b, open_edge)
    for bi in pushes:
        if not g or core.k1(b, [bi], g)[bi] is not None:
            r.violate(b.name, "register:closed", b.where(bi),
                      "a data channel can be registered on a connection that close() has already swept: it is never opened nor closed and its "
                      "recv() never returns")
            continue
        late = [sb for sb, _t in g if not core.must_pass(b, sb, locks)]
        if late:
            r.violate(b.name, "register:unlocked-check", b.where(late[0]),
                      "the closed test is made before the registry lock is taken: close() can publish Closed and sweep the registry between the "
                      "test and the registration")
        else:
            r.ok({"site": b.where(bi), "cut_by": "signaling state != Closed, tested under the registry lock"})
    return r


# process-wide demultiplexer loops: (spawning function, the socket wait inside the loop)
PORT_LOOPS = {
    "transports::ice::shared_tcp::SharedTcpPort::spawn_accept_loop": "accept",
    "transports::ice::shared_udp::SharedUdpPort::spawn_recv_loop": "recv_from",
}


def r17_15(ctx):
    """'All background tasks and sockets owned by the connection are released within bounded time': the shared passive
    TCP / UDP ports are owned by their registrations; the last one to drop sets `shutting_down` from a synchronous Drop.
    A loop that merely tests the flag at the top and then parks in accept() / recv_from() never sees it - the task keeps
    the listener, and the port stays bound, until a stranger happens to connect ('a loop with an exit edge' can end; it
    does not follow that it does). The two sibling loops must therefore race their socket wait against a future that
    observes the flag. Decided: the spawned loop body calls the port's shutdown_signal(), whose own body reads
    `shutting_down` and sleeps a bounded time between reads."""
    r = RuleResult("R17.15", "K4", "the shared-port loops race their socket wait against the shutdown flag")
    for fn, wait in sorted(PORT_LOOPS.items()):
        fam = [nb for nb in ctx.facts.all_bodies() if nb.name.startswith(fn + "::{closure#0}")]
        if not fam:
            raise core.CheckerError("R17.15: spawned loop of %s not found" % fn)
        r.scope.append(fn)
        waits = [(nb, bi) for nb in fam for bi, t, p in nb.calls() if p and p.split("::")[-1] == wait]
        r.need("socket wait (%s) in %s" % (wait, fn.split("::")[-1]), len(waits), 1)
        sig = None
        for nb in fam:
            for bi, t, p in nb.calls():
                if p and ctx.facts.has_body(p) and not p.startswith(fn):
                    cand = [ctx.facts.body(p)] + [q for q in ctx.facts.all_bodies() if q.name.startswith(p + "::{closure")]
                    reads = any(core.atomic_sites(q, "shutting_down", "load") for q in cand)
                    sleeps = any(pp and pp.endswith("time::sleep") for q in cand for _bi, _t, pp in q.calls())
                    if reads and sleeps:
                        sig = (nb, bi, p)
        if sig:
            r.ok({"loop": fn, "wait": wait, "raced_against": sig[2], "site": sig[0].where(sig[1])})
        else:
            nb, bi = waits[0]
            r.violate(fn, "loop:parked-forever", nb.where(bi),
                      "the loop parks in %s() with nothing that wakes it when the port's last registration goes away: task, socket and the "
                      "bound port stay until somebody connects" % wait)
    return r


def r17_16(ctx):
    """'pending ... API calls return promptly instead of hanging': a receive track's recv() returns when the track is
    stopped. close() stops `receiver.track()` and calls RtpReceiver::stop(); the receiver also hands out one track per
    simulcast layer (add_simulcast_track) and keeps them in `simulcast_tracks`. Every field of RtpReceiver that holds
    SampleStreamTrack handles must be ended on the close path, or a recv() pending on such a handle never returns.
    Decided: the fields are read from the type; for each, close_with_reason or RtpReceiver::stop calls
    SampleStreamTrack::stop on a value taken from that field (for `track`: via the receiver.track() accessor)."""
    r = RuleResult("R17.16", "K6", "close() ends every track handle a receiver has handed out")
    adt = ctx.facts.adts.get("peer_connection::RtpReceiver")
    if not adt:
        raise core.CheckerError("R17.16: RtpReceiver not found")
    fields = [f["n"] for f in adt["variants"][0]["fields"] if "SampleStreamTrack" in f["ty"]]
    r.need("track-holding fields of RtpReceiver", len(fields), 2)
    cw = ctx.body("peer_connection::PeerConnectionInner::close_with_reason")
    st = ctx.body("peer_connection::RtpReceiver::stop")
    r.scope += [cw.name, st.name]
    calls_stop = any(p and p.endswith("RtpReceiver::stop") for _bi, _t, p in cw.calls())
    for f in fields:
        ended = False
        for b in ([cw, st] if calls_stop else [cw]):
            for bi, t, p in b.calls():
                if not p or p.split("::")[-1] != "stop" or "RtpReceiver" in p or not t["a"]:
                    continue
                a0 = b.term_operand(t["a"][0])
                for a0x in [a0] + list(core.expand_vars(b, a0, depth=3)):
                    if mir.has_field(a0x, f) or (f == "track" and mir.has(a0x, lambda x: x[0] == "call" and x[1].endswith("RtpReceiver::track"))):
                        ended = True
        if ended:
            r.ok({"field": f, "ended by": "close_with_reason / RtpReceiver::stop"})
        else:
            r.violate(st.name, "track-not-ended:%s" % f, st.where(0),
                      "close() never stops the track handles kept in RtpReceiver.%s: a recv() pending on one of them does not return after close()" % f)
    return r


def r17_17(ctx):
    """'subsequent API calls return promptly' and 'all background tasks ... are released': close() stops every sender and
    receiver loop that exists. add_track on a closed connection used to wire the new sender to the old transport and
    start a send loop that nothing stops any more (a later close() returns early on Closed). Like create_data_channel
    (R17.14), add_track_with_stream_id starts nothing on a closed connection: every call that can start a loop or create
    a transceiver is on the `signaling_state != Closed` edge."""
    r = RuleResult("R17.17", "K1", "add_track starts nothing on a closed connection")
    b = ctx.body("peer_connection::PeerConnection::add_track_with_stream_id")
    r.scope.append(b.name)
    sites = [(bi, p.split("::")[-1]) for bi, t, p in b.calls() if p and p.startswith("peer_connection::") and
             p.split("::")[-1] in ("add_transceiver", "set_sender", "set_transport", "build", "new")]
    r.need("sender / transceiver set-up calls in add_track_with_stream_id", len(sites), 2)

    def open_edge(term, meaning, *_):
        if term[0] == "call" and "PartialEq" in term[1] and isinstance(meaning, bool) and \
                mir.has_field(term, "signaling_state") and mir.has(term, lambda x: x[0] == "agg" and x[2] == "Closed"):
            return meaning is term[1].endswith("::ne")
        return False
    g = core.guard_edges(b, open_edge)
    for bi, what in sites:
        if g and core.k1(b, [bi], g)[bi] is None:
            r.ok({"site": b.where(bi), "call": what, "cut_by": "signaling state != Closed"})
        else:
            r.violate(b.name, "add_track:closed:%s" % what, b.where(bi),
                      "add_track reaches %s on a closed connection: the new sender is wired to the old transport and its send loop is never stopped" % what)
    return r


def r17_18(ctx):
    """'a lower layer (SCTP) ... is closed by the peer ... the connection reports a terminal state': Closed is terminal for the
    association. handle_cookie_ack / handle_cookie_echo set the state to Connected with mem::replace whatever it was - an
    ABORT followed by a COOKIE ACK (same packet or the next one) re-established the association, the runner never exited and
    no channel saw Close. Decided: every site in the SCTP handlers that stores Connected into the state is on the
    `state != Closed` edge."""
    r = RuleResult("R17.18", "K1", "a closed SCTP association is never set to Connected again")
    n = 0
    for fn in ("handle_cookie_ack", "handle_cookie_echo"):
        b = ctx.body("transports::sctp::SctpInner::%s::{closure#0}" % fn)
        r.scope.append(b.name)
        sites = []
        for bi, t, p in b.calls():
            if p and p.endswith(("mem::replace", "SctpInner::set_state")) and mir.has(b.term_call(t), lambda x: x[0] == "agg" and x[2] == "Connected"):
                sites.append(bi)
        for bi, si, st, v in core.lock_write_sites(b, "state", methods=("::lock",)):
            if mir.has(v, lambda x: x[0] == "agg" and x[2] == "Connected"):
                sites.append(bi)

        def not_closed(term, meaning, *_):
            if term[0] == "call" and "PartialEq" in term[1] and isinstance(meaning, bool) and \
                    mir.has(term, lambda x: x[0] == "call" and x[1].endswith("::lock") and x[2] and mir.has_field(x[2][0], "state")) and \
                    mir.has(term, lambda x: x[0] == "agg" and x[2] == "Closed"):
                return meaning is term[1].endswith("::ne")
            return False
        g = core.guard_edges(b, not_closed)
        for bi in sorted(set(sites)):
            n += 1
            if g and core.k1(b, [bi], g)[bi] is None:
                r.ok({"site": b.where(bi), "function": fn, "cut_by": "state != Closed"})
            else:
                r.violate(b.name, "revive:Connected", b.where(bi),
                          "%s sets the association Connected whatever its state: after an ABORT (state Closed) a COOKIE ACK / COOKIE ECHO "
                          "establishes it again - the runner does not exit and no channel is closed" % fn)
    r.need("stores of Connected in the cookie handlers", n, 2)
    return r


def _dc_methods(ctx):
    """-> (ending, announcing): DataChannel methods that drop the event sender (`*tx.lock() = None`, `tx.lock().take()`),
    and those among them that put Close on the sender they took (once-only by construction)."""
    ending, announcing = set(), set()
    for b in ctx.facts.bodies(prefix="transports::datachannel::DataChannel::"):
        if "::{closure" in b.name:
            continue
        takes = any(p and p.endswith("Option::<T>::take") and t["a"] and mir.has_field(b.term_operand(t["a"][0]), "tx") for _bi, t, p in b.calls())
        clears = any(mir.has(b.term_rvalue(st["rv"]), lambda x: x[0] == "agg" and x[2] == "None") and
                     mir.has(b.term_local(st["p"]["l"]), lambda x: x[0] == "call" and x[1].endswith("::lock") and x[2] and mir.has_field(x[2][0], "tx"))
                     for _bi, _si, st in b.assigns() if "p" in st["p"])
        if takes or clears:
            ending.add(b.name)
        if takes and any(p and "mpsc" in p and p.split("::")[-1] in ("send", "try_send") and len(t["a"]) > 1 and
                         mir.has(b.term_operand(t["a"][1]), lambda x: x[0] == "agg" and x[2] == "Close") for _bi, t, p in b.calls()):
            announcing.add(b.name)
    return ending, announcing


def close_sites_end_stream(ctx):
    """-> [(body, block, ended?)] for every send of DataChannelEvent::Close in the SCTP / peer-connection code:
    is it followed on every path by close_channel()?"""
    out = []
    ending, announcing = _dc_methods(ctx)
    for b in ctx.facts.all_bodies():
        if "::tests::" in b.name or not ("transports::sctp::" in b.name or "peer_connection::" in b.name):
            continue
        sends = [bi for bi, t, p in b.calls() if p and p.endswith("DataChannel::send_event") and len(t["a"]) > 1 and
                 mir.has(b.term_operand(t["a"][1]), lambda x: x[0] == "agg" and x[2] == "Close")]
        by_method = [bi for bi, t, p in b.calls() if p in announcing]
        if not sends and not by_method:
            continue
        ends = [bi for bi, t, p in b.calls() if p in ending]
        for bi in sends:
            out.append((b, bi, bool(ends) and core.always_followed_by(b, bi, ends, cut_edges=b.back_edges())))
        for bi in by_method:
            out.append((b, bi, True))       # the method announces on the sender it took: the stream ends with it
    return out


def r17_19(ctx):
    """'every open data channel observes Close exactly once, and pending ... API calls return promptly': a consumer loops on
    `dc.recv()` until it returns None, which happens when the event sender is dropped (close_channel). Both sweeps that end
    channels (close(), the cleanup guard) skip a channel whose state is already Closed, so whoever announces Close also has
    to end the stream. Decided: in the SCTP / peer-connection code every send of DataChannelEvent::Close is followed on
    every path by close_channel()."""
    r = RuleResult("R17.19", "K4", "whoever announces Close on a data channel also ends its event stream")
    sites = close_sites_end_stream(ctx)
    for b, bi, ended in sites:
        if b.name not in r.scope:
            r.scope.append(b.name)
        if ended:
            r.ok({"site": b.where(bi), "then": "close_channel()"})
        else:
            r.violate(b.name, "close:stream-left-open", b.where(bi),
                      "Close is announced here but the channel's event sender is not dropped: a `while let Some(ev) = dc.recv().await` consumer "
                      "stays parked, and the later sweeps skip a channel that is Closed already")
    r.need("sites announcing Close", len(sites), 3)
    return r


def r17_20(ctx):
    """'the connection reports a terminal state and a disconnect reason': the states and the reason are tokio watch channels
    owned by PeerConnectionInner. `watch::Sender::send` stores NOTHING when no receiver exists - so every channel that is
    written with plain `send` needs a receiver kept alive next to its sender (the `_xxx_rx` fields), or the value published
    by close() is lost whenever the application holds no subscription. Decided: for every watch::Sender<T> field of
    PeerConnectionInner on which `send` is called anywhere, the struct also has a watch::Receiver<T> field."""
    r = RuleResult("R17.20", "K6", "every watch channel written with send() keeps a receiver alive")
    adt = ctx.facts.adts.get("peer_connection::PeerConnectionInner")
    if not adt:
        raise core.CheckerError("R17.20: PeerConnectionInner not found")
    fields = adt["variants"][0]["fields"]
    senders = {f["n"]: f["ty"] for f in fields if "watch::Sender<" in f["ty"]}
    receivers = [f["ty"] for f in fields if "watch::Receiver<" in f["ty"]]
    r.need("watch::Sender fields of PeerConnectionInner", len(senders), 5)
    used = {}
    for nb in ctx.facts.all_bodies():
        if "::tests::" in nb.name or "peer_connection::" not in nb.name:
            continue
        for bi, t, p in nb.calls():
            if p and "watch::Sender" in p and p.endswith("::send") and t["a"]:
                a0 = nb.term_operand(t["a"][0])
                for f in senders:
                    if mir.has_field(a0, f):
                        used.setdefault(f, nb.where(bi))
    for f, where in sorted(used.items()):
        inner = senders[f].split("watch::Sender<", 1)[1].rsplit(">", 1)[0]
        if any(rt.split("watch::Receiver<", 1)[1].rsplit(">", 1)[0] == inner for rt in receivers):
            r.ok({"channel": f, "send() at": where, "receiver kept": True})
        else:
            r.violate("peer_connection::PeerConnectionInner", "watch:no-kept-receiver:%s" % f, where,
                      "`%s.send(..)` is used (%s) but PeerConnectionInner keeps no watch::Receiver<%s>: with no subscriber the value is dropped - "
                      "close() reports no %s" % (f, where, inner, f.replace("_", " ")))
    r.need("watch channels written with send()", len(used), 2)
    return r


def run(ctx):
    return [r17_1(ctx), r17_2(ctx), r17_3(ctx), r17_4(ctx), r17_5(ctx), r17_6(ctx), r17_7(ctx), r17_8(ctx), r17_9(ctx), r17_10(ctx), r17_11(ctx), r17_12(ctx), r17_13(ctx), r17_14(ctx), r17_15(ctx), r17_16(ctx), r17_17(ctx), r17_18(ctx), r17_19(ctx), r17_20(ctx)]
