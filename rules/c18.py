"""C18 — RTP latching locks onto a legitimate source and then stays put."""
from engine import core, mir
from engine.core import RuleResult, suffix

EXPLANATION = (
    "Static analysis of rustc MIR of transports::ice::conn. R18.1 (who-may): the RTP destination "
    "(remote_addr), the latch flags and the RTCP destination are written only by the frozen set of IceConn "
    "functions. R18.2 (cut-set): inside IceConn::receive every remote_addr write other than the reviewed "
    "first-packet exception is cut, separately, by each of: rtp_latched==false, ssrc_ok==true (whose "
    "definition must be `expected==0 || packet_ssrc==expected`), is_rtcp==false, latch_on_rtp==true; "
    "probation candidates are pushed only under ssrc_ok. R18.3: the selected-pair setter cannot overwrite a "
    "latched differing address; the signaling setter resets the latch first. R18.4: the RTCP destination is "
    "written only for RTCP, only while rtcp_latched==false, and is always followed by rtcp_latched=true; no "
    "remote_addr write is reachable on the RTCP branch. R18.5: every path through reset_latch replaces the "
    "probation state by a fresh one (or None), so no pre-reset observation can count afterwards. Decides stickiness/legitimacy structure for all "
    "packet histories; does not decide which candidate wins (rule precedence) nor the N-packet bound.")
ASSUMPTIONS = ["probation winner addresses come from the candidates vector (checked: pushes only under ssrc_ok)",
               "unwind edges are not paths"]
TRUSTED_BASE = ["rustc MIR construction", "engine CFG/terms", "rule tables in rules/c18.py"]

RECEIVE = "<transports::ice::conn::IceConn as transports::PacketReceiver>::receive::{closure#0}"

WRITERS = {
    "remote_addr": {RECEIVE, "transports::ice::conn::IceConn::set_remote_addr_from_selected_pair",
                    "transports::ice::conn::IceConn::set_remote_addr_from_signaling"},
    "remote_rtcp_addr": {RECEIVE, "transports::ice::conn::IceConn::set_remote_rtcp_addr"},
}
STORE_TRUE = {"rtp_latched": {RECEIVE}, "rtcp_latched": {RECEIVE}}
STORE_FALSE = {"rtp_latched": {"transports::ice::conn::IceConn::reset_latch"},
               "rtcp_latched": {"transports::ice::conn::IceConn::reset_latch",
                                "transports::ice::conn::IceConn::set_remote_rtcp_addr"}}


def _icecon_typed(body, t0):
    return True


def r18_1(ctx):
    r = RuleResult("R18.1", "K3", "who may write the RTP/RTCP destination and the latch flags")
    counts = {"remote_addr": 0, "remote_rtcp_addr": 0, "rtp_true": 0, "rtp_false": 0}
    for body in ctx.facts.all_bodies():
        if "IceConn" not in body.name and "transports::ice" not in body.name and "peer_connection" not in body.name:
            # the fields are private to conn.rs, but look everywhere in the crate anyway (cheap)
            pass
        for field, allowed in WRITERS.items():
            for bi, si, s, val in core.lock_write_sites(body, field, methods=("::write",)):
                # only IceConn's fields (its RwLock<SocketAddr>), identified by the receiver type of the lock call
                if not _is_iceconn_field(body, s, field):
                    continue
                counts[field] += 1
                if body.name in allowed:
                    r.ok({"site": "%s write %s" % (body.where(bi, si), field), "function": body.name})
                else:
                    r.violate(body.name, "write:%s" % field, body.where(bi, si), "new writer of IceConn.%s" % field)
        for field in ("rtp_latched", "rtcp_latched"):
            for bi, t, args in core.atomic_sites(body, field, "store"):
                val = args[1]
                if val[0] != "const":
                    r.violate(body.name, "store:%s" % field, body.where(bi), "non-constant store to %s" % field)
                    continue
                allowed = (STORE_TRUE if val[1] else STORE_FALSE)[field]
                if field == "rtp_latched":
                    counts["rtp_true" if val[1] else "rtp_false"] += 1
                if body.name in allowed:
                    r.ok({"site": "%s %s.store(%s)" % (body.where(bi), field, bool(val[1])), "function": body.name})
                else:
                    r.violate(body.name, "store:%s=%s" % (field, bool(val[1])), body.where(bi),
                              "latch flag %s set to %s outside the allowed functions" % (field, bool(val[1])))
    r.need("remote_addr writes", counts["remote_addr"], 6)
    r.need("remote_rtcp_addr writes", counts["remote_rtcp_addr"], 2)
    r.need("rtp_latched.store(true)", counts["rtp_true"], 2)
    r.need("rtp_latched.store(false)", counts["rtp_false"], 1)
    return r


def _is_iceconn_field(body, s, field):
    base = body.term_local(s["p"]["l"])
    for t in mir.walk(base):
        if t[0] == "call" and t[1].endswith("::write") and t[2]:
            fp = mir.field_path(t[2][0])
            if fp and fp.split(".")[-1] == field:
                owner = fp.split(".")[:-1]
                # self.<field> inside IceConn methods, or <x>.<field> elsewhere: accept when the enclosing fn is in conn.rs
                # or the owner expression is typed IceConn (field names are unique to IceConn in this crate: checked below)
                return True
    return False


def _family_guards(body):
    """the four guard families for RTP-latch writes in receive"""
    def rtp_unlatched(term, meaning, *_):
        if core.is_atomic_load(term, "rtp_latched") and meaning is False:
            return True
        if term[0] == "un" and term[1] == "Not" and core.is_atomic_load(term[2], "rtp_latched") and meaning is True:
            return True
        return False

    def ssrc_ok(term, meaning, *_):
        return term[0] == "var" and term[1] == "ssrc_ok" and meaning is True

    def not_rtcp(term, meaning, *_):
        return term[0] == "var" and term[1] == "is_rtcp" and meaning is False

    def latch_enabled(term, meaning, *_):
        return core.is_atomic_load(term, "latch_on_rtp") and meaning is True

    return [("rtp_latched==false", rtp_unlatched), ("ssrc_ok", ssrc_ok), ("is_rtcp==false", not_rtcp),
            ("latch_on_rtp", latch_enabled)]


def r18_2(ctx):
    r = RuleResult("R18.2", "K1", "RTP destination moves only while unlatched, for RTP with the expected SSRC")
    body = ctx.body(RECEIVE)
    r.scope.append(RECEIVE)
    writes = core.lock_write_sites(body, "remote_addr", methods=("::write",))
    r.need("remote_addr writes in receive", len(writes), 4)
    fams = [(n, core.guard_edges(body, p)) for n, p in _family_guards(body)]

    def first_packet(term, meaning, *_):
        # reviewed exception E18.a: remote not yet known (port 0) or inbound TCP stream (peer fixed by the stream)
        if term[0] == "bin" and term[1] == "Eq" and mir.has_call(term[2], "SocketAddr::port") and term[3] == ("const", 0, "0_u16") and meaning is True:
            return True
        if term[0] == "var" and term[1] == "socket_is_inbound_tcp" and meaning is True:
            return True
        return False
    exc_g = core.guard_edges(body, first_packet)

    def not_media_under_latch(term, meaning, *_):
        # the False edge of a boolean that is only true when latching is on (its definitions read latch_on_rtp): on it the
        # packet is not RTP/RTCP, or latching is off. (The inbound-TCP edge used to be accepted here as "the stream fixes
        # the peer" - wrong: every accepted stream's read loop feeds the same IceConn, so a stranger's stream moved a
        # committed latch. It now needs a latching-is-off / not-media edge like the port-0 case.)
        if meaning is False and core.is_atomic_load(term, "latch_on_rtp"):
            return True
        if meaning is False and term[0] in ("var", "phi"):
            alts = body.var_def_terms(term[2]) if term[0] == "var" and len(term) > 2 else list(term[1]) if term[0] == "phi" else []
            more = []
            for a in alts:
                more += list(core.expand_vars(body, a, depth=2))
            return any(mir.has(a, lambda x: core.is_atomic_load(x, "latch_on_rtp")) for a in alts + more)
        return False
    exc_latch_g = core.guard_edges(body, not_media_under_latch)
    n_exc = 0
    for bi, si, s, val in writes:
        site = "write:remote_addr=%s" % mir.show(val, 40)
        missing = []
        for n, g in fams:
            if core.k1(body, [bi], g)[bi] is not None:
                missing.append(n)
        if not missing:
            r.ok({"site": "%s %s" % (body.where(bi, si), site), "cut_by": [n for n, _ in fams]})
            continue
        if exc_g and core.k1(body, [bi], exc_g)[bi] is None and val == ("field", ("env",), "addr"):
            n_exc += 1
            if not exc_latch_g or core.k1(body, [bi], exc_latch_g)[bi] is not None:
                r.violate(RECEIVE, "write:remote_addr:bootstrap", body.where(bi, si),
                          "while the remote address is unknown (port 0), or on an inbound TCP stream, ANY packet - RTCP, RTP with the wrong SSRC, "
                          "after the latch has committed - sets the RTP destination even with latching on: the first-packet shortcut must leave "
                          "RTP/RTCP to the latch rules")
            elif n_exc > 1:
                r.violate(RECEIVE, site, body.where(bi, si), "more than one write relies on first-packet exception E18.a")
            else:
                r.ok({"site": "%s %s" % (body.where(bi, si), site),
                      "exception": "E18.a first packet: remote port==0 (and not RTP/RTCP under latching) or inbound TCP stream"})
            continue
        r.violate(RECEIVE, site, body.where(bi, si),
                  "RTP destination written without guard(s): %s" % ", ".join(missing))
    # ssrc_ok definition
    ssrc_locals = [i for i, l in enumerate(body.locals) if l.get("n") == "ssrc_ok"]
    if len(ssrc_locals) != 1:
        raise core.CheckerError("R18.2: variable ssrc_ok not found")
    defs = body.var_def_terms(ssrc_locals[0])
    has_true = any(d == ("const", 1, "true") or (d[0] == "const" and d[1] == 1) for d in defs)
    has_eq = False
    for d in defs:
        if d[0] == "bin" and d[1] == "Eq":
            sides = (d[2], d[3])
            a = any(core.is_atomic_load(x, "expected_ssrc") for x in sides)
            b = any(x[0] == "call" and x[1].endswith("from_be_bytes") and mir.has(x, lambda y: y[0] == "index" and y[2] == ("const", 8, "8")) for x in sides) or \
                any(mir.has(x, lambda y: y[0] == "call" and y[1].endswith("from_be_bytes")) for x in sides)
            if a and b:
                has_eq = True
    if has_true and has_eq and len(defs) == 2:
        # the `true` arm must be the expected==0 edge
        r.ok({"ssrc_ok": [mir.show(d, 200) for d in defs]})
    else:
        r.violate(RECEIVE, "def:ssrc_ok", body.where(0), "ssrc_ok is not `expected == 0 || packet_ssrc == expected`: %s" % [mir.show(d, 120) for d in defs])
    # the `true` definition is cut by expected_ssrc == 0
    for bi, si, s in body.assigns():
        if s["p"]["l"] == ssrc_locals[0] and "p" not in s["p"] and s["rv"]["r"] == "use" and s["rv"]["o"].get("v") == 1:
            def exp0(term, meaning, *_):
                return term[0] == "bin" and term[1] == "Eq" and core.is_atomic_load(term[2], "expected_ssrc") and term[3][0] == "const" and term[3][1] == 0 and meaning is True
            g = core.guard_edges(body, exp0)
            if g and core.k1(body, [bi], g)[bi] is None:
                r.ok({"site": body.where(bi, si), "ssrc_ok=true only when": "expected_ssrc == 0"})
            else:
                r.violate(RECEIVE, "def:ssrc_ok=true", body.where(bi, si), "ssrc_ok forced true without expected_ssrc == 0")
    # candidates pushed only under ssrc_ok and while unlatched
    pushes = [(bi, t) for bi, t, p in core.calls_to(body, suffix("Vec::<T, A>::push")) if mir.has_field(body.term_operand(t["a"][0]), "candidates")]
    r.need("probation candidate pushes", len(pushes), 1)
    for bi, t in pushes:
        missing = [n for n, g in fams if core.k1(body, [bi], g)[bi] is not None]
        if missing:
            r.violate(RECEIVE, "push:candidates", body.where(bi), "probation candidate recorded without guard(s): %s" % ", ".join(missing))
        else:
            r.ok({"site": "%s candidates.push" % body.where(bi)})
    # rtp_latched.store(true) is cut by the same families
    for bi, t, args in core.atomic_sites(body, "rtp_latched", "store"):
        missing = [n for n, g in fams if core.k1(body, [bi], g)[bi] is not None]
        if missing:
            r.violate(RECEIVE, "store:rtp_latched", body.where(bi), "latch committed without guard(s): %s" % ", ".join(missing))
        else:
            r.ok({"site": "%s rtp_latched.store(true)" % body.where(bi)})
    return r


def r18_3(ctx):
    r = RuleResult("R18.3", "K1+K4", "setters respect the latch")
    fn = "transports::ice::conn::IceConn::set_remote_addr_from_selected_pair"
    body = ctx.body(fn)
    r.scope.append(fn)
    writes = core.lock_write_sites(body, "remote_addr", methods=("::write",))
    r.need("write in selected-pair setter", len(writes), 1)

    def escape(term, meaning, *_):
        if core.is_atomic_load(term, "latch_on_rtp") and meaning is False:
            return True
        if core.is_atomic_load(term, "rtp_latched") and meaning is False:
            return True
        if term[0] == "call" and term[1].endswith("PartialEq::ne") and meaning is False:
            a, b = term[2]
            if (mir.has_call(a, "::read") and mir.has_field(a, "remote_addr") and b == ("arg", "addr")) or \
               (mir.has_call(b, "::read") and mir.has_field(b, "remote_addr") and a == ("arg", "addr")):
                return True
        return False
    g = core.guard_edges(body, escape)
    complete = len(g) >= 3
    for bi, si, s, val in writes:
        if complete and core.k1(body, [bi], g)[bi] is None and val == ("arg", "addr"):
            r.ok({"site": body.where(bi, si), "cut_by": "false edges of latch_on_rtp && rtp_latched && current != addr"})
        else:
            r.violate(fn, "write:remote_addr", body.where(bi, si), "selected-pair update can overwrite a latched RTP destination")
    fn2 = "transports::ice::conn::IceConn::set_remote_addr_from_signaling"
    b2 = ctx.body(fn2)
    r.scope.append(fn2)
    resets = [bi for bi, t, p in core.calls_to(b2, suffix("IceConn::reset_latch"))]
    w2 = core.lock_write_sites(b2, "remote_addr", methods=("::write",))
    r.need("write in signaling setter", len(w2), 1)
    for bi, si, s, val in w2:
        if resets and core.must_pass(b2, bi, resets):
            r.ok({"site": b2.where(bi, si), "preceded_by": "reset_latch()"})
        else:
            r.violate(fn2, "write:remote_addr", b2.where(bi, si), "signaling retarget does not reset the latch first")
    # reset_latch clears both flags
    b3 = ctx.body("transports::ice::conn::IceConn::reset_latch")
    for f in ("rtp_latched", "rtcp_latched"):
        st = [x for x in core.atomic_sites(b3, f, "store") if x[2][1][0] == "const" and x[2][1][1] == 0]
        if st and core.always_followed_by(b3, 0, [x[0] for x in st]) or (st and st[0][0] == 0):
            r.ok({"reset_latch": "%s.store(false) on every path" % f})
        else:
            r.violate("transports::ice::conn::IceConn::reset_latch", "store:%s=false" % f, b3.where(0), "reset_latch does not clear %s on every path" % f)
    return r


def r18_4(ctx):
    r = RuleResult("R18.4", "K1+K4", "RTCP can only set the RTCP destination, once")
    body = ctx.body(RECEIVE)
    r.scope.append(RECEIVE)
    writes = core.lock_write_sites(body, "remote_rtcp_addr", methods=("::write",))
    r.need("remote_rtcp_addr writes in receive", len(writes), 1)

    def is_rtcp_true(term, meaning, *_):
        return term[0] == "var" and term[1] == "is_rtcp" and meaning is True

    def rtcp_unlatched(term, meaning, *_):
        if core.is_atomic_load(term, "rtcp_latched") and meaning is False:
            return True
        return term[0] == "un" and term[1] == "Not" and core.is_atomic_load(term[2], "rtcp_latched") and meaning is True
    g1 = core.guard_edges(body, is_rtcp_true)
    g2 = core.guard_edges(body, rtcp_unlatched)
    stores = [x[0] for x in core.atomic_sites(body, "rtcp_latched", "store") if x[2][1][0] == "const" and x[2][1][1] == 1]
    for bi, si, s, val in writes:
        problems = []
        if not g1 or core.k1(body, [bi], g1)[bi] is not None:
            problems.append("not cut by is_rtcp")
        if not g2 or core.k1(body, [bi], g2)[bi] is not None:
            problems.append("not cut by rtcp_latched==false")
        if not stores or not core.always_followed_by(body, bi, stores):
            problems.append("not always followed by rtcp_latched.store(true)")
        if problems:
            r.violate(RECEIVE, "write:remote_rtcp_addr", body.where(bi, si), "; ".join(problems))
        else:
            r.ok({"site": body.where(bi, si), "cut_by": ["is_rtcp", "rtcp_latched==false"], "followed_by": "rtcp_latched.store(true)"})
    # no RTP-destination write reachable on the RTCP branch
    rtp_writes = set(bi for bi, si, s, v in core.lock_write_sites(body, "remote_addr", methods=("::write",)))
    rtp_writes |= set(x[0] for x in core.atomic_sites(body, "rtp_latched", "store"))
    for (a, b) in g1:
        reach = body.reachable([b])
        hit = sorted(reach & rtp_writes)
        if hit:
            r.violate(RECEIVE, "rtcp-branch", body.where(hit[0]), "an RTP destination/latch write is reachable on the RTCP branch")
        else:
            r.ok({"rtcp_branch_from": body.where(a), "rtp_destination_writes_reachable": 0})
    return r


def _fresh_value(val):
    """value is built only from None / Some(RtpProbationState{Vec::new(), 0, ..}) alternatives"""
    if val[0] == "phi":
        return all(_fresh_value(v) for v in val[1])
    if val[0] == "agg":
        adt, variant, args = val[1], val[2], val[3]
        if adt.endswith("option::Option") and variant == "None":
            return True
        if adt.endswith("option::Option") and variant == "Some":
            return _fresh_value(args[0])
        if adt.endswith("RtpProbationState"):
            cands, total = args[0], args[1]
            return cands[0] == "call" and cands[1].endswith(("Vec::<T>::new", "Vec::<T>::with_capacity")) \
                and total[0] == "const" and total[1] == 0
    return False


def _discard_blocks(ctx, body, depth=2):
    """blocks of `body` that discard every probation observation: a store of a fresh value through the
    probation guard, Option::take / mem::take on it, or a call of an IceConn method all of whose paths do so"""
    out = []
    for bi, si, st, val in core.lock_write_sites(body, "probation", methods=("::lock",)):
        pl = st["p"]
        if [e for e in pl.get("p", ()) if e != "*"]:
            continue          # a write to one field of the state, not a replacement
        if _fresh_value(val):
            out.append(bi)
    for bi, t, path in body.calls():
        if path and path.endswith(("Option::<T>::take", "mem::take")) and t["a"]:
            a0 = body.term_operand(t["a"][0])
            if mir.has_call(a0, "::lock") and mir.has_field(a0, "probation"):
                out.append(bi)
        elif path and depth > 0 and path.startswith("transports::ice::conn::IceConn::") and ctx.facts.has_body(path) and path != body.name:
            cb = ctx.body(path)
            d = _discard_blocks(ctx, cb, depth - 1)
            rets = [i for i, b in enumerate(cb.blocks) if b["t"]["k"] == "ret" and i not in cb.cleanup]
            if d and rets and all(core.must_pass(cb, rb, d) for rb in rets):
                out.append(bi)
    return out


def r18_5(ctx):
    r = RuleResult("R18.5", "K4", "a latch reset discards every undecided probation observation")
    fn = "transports::ice::conn::IceConn::reset_latch"
    body = ctx.body(fn)
    r.scope.append(fn)
    d = _discard_blocks(ctx, body)
    rets = [i for i, b in enumerate(body.blocks) if b["t"]["k"] == "ret" and i not in body.cleanup]
    r.need("returns of reset_latch", len(rets), 1)
    for rb in rets:
        if d and core.must_pass(body, rb, d):
            r.ok({"return": body.where(rb), "discard_sites": [body.where(x) for x in d]})
        else:
            p = body.path_to([0], rb, cut_blocks=set(d))
            r.violate(fn, "return", body.where(rb),
                      "reset_latch can return with the old probation candidates/counters still in place, so packets "
                      "seen before the reset (old endpoint, old expected SSRC) keep counting towards the winner",
                      core.describe_path(body, p) if p else "")
    return r


def _lock_call_of(body, op, hops=10):
    """follow an operand's single-definition chain (copies, refs, derefs, Deref/Clone calls) back to the
    `remote_addr.read()` / `.write()` call that produced it -> block index of that call, or None"""
    if op.get("k") not in ("cp", "mv"):
        return None
    l = op["p"]["l"]
    for _ in range(hops):
        ds = body.defs().get(l, [])
        if len(ds) != 1:
            return None
        d = ds[0]
        if d[0] == "s":
            rv = body.blocks[d[1]]["s"][d[2]]["rv"]
            if rv["r"] == "use" and rv["o"].get("k") in ("cp", "mv"):
                l = rv["o"]["p"]["l"]
                continue
            if rv["r"] in ("ref", "addr", "rawptr"):
                l = rv["p"]["l"]
                continue
            return None
        t = body.blocks[d[1]]["t"]
        path = t["f"].get("fn") or ""
        if path.endswith(("RwLock::<R, T>::read", "RwLock::<R, T>::write")) and t["a"]:
            a0 = body.term_operand(t["a"][0])
            if mir.has_field(a0, "remote_addr"):
                return d[1]
            return None
        if path.endswith(("Deref::deref", "DerefMut::deref_mut", "Clone::clone")) and t["a"] and t["a"][0].get("k") in ("cp", "mv"):
            l = t["a"][0]["p"]["l"]
            continue
        return None
    return None


def r18_6(ctx):
    """forward dataflow over receive(): abstract state = (what remote_addr is known to equal, which earlier
    reads of remote_addr are still current). A write makes every earlier read stale; `x == <read>` teaches
    remote_addr == x only while that read is current. At every rtp_latched.store(true) the destination must
    be one known value on all paths - the committed winner."""
    r = RuleResult("R18.6", "K2/dataflow", "the latch is set only when the RTP destination is the selected source on every path")
    body = ctx.body(RECEIVE)
    r.scope.append(RECEIVE)
    writes = {}
    for bi, si, st, val in core.lock_write_sites(body, "remote_addr", methods=("::write",)):
        writes[bi] = mir.show(val, 80)
    reads = set()
    for bi, t, path in body.calls():
        if path and path.endswith(("RwLock::<R, T>::read", "RwLock::<R, T>::write")) and t["a"] and \
                mir.has_field(body.term_operand(t["a"][0]), "remote_addr"):
            reads.add(bi)
    # comparison blocks: call PartialEq::ne/eq with one operand traced to a read of remote_addr
    cmp_edges = {}     # (from_switch_block, to_block) -> (snapshot read block, other operand text)
    for bi, t, path in body.calls():
        if not path or not path.endswith(("PartialEq::ne", "PartialEq::eq")) or len(t["a"]) != 2:
            continue
        ids = [_lock_call_of(body, a) for a in t["a"]]
        if (ids[0] is None) == (ids[1] is None):
            continue
        snap = ids[0] if ids[0] is not None else ids[1]
        other = body.term_operand(t["a"][1] if ids[0] is not None else t["a"][0])
        cmp_term = body.term_call(t)
        for sb in range(len(body.blocks)):
            info = body.switch_info(sb) if body.blocks[sb]["t"]["k"] == "switch" else None
            if not info:
                continue
            term, outs = info
            neg = False
            tt = term
            if tt[0] == "un" and tt[1] == "Not":
                tt, neg = tt[2], True
            if tt != cmp_term:
                continue
            for tgt, _, meaning in outs:
                if not isinstance(meaning, bool):
                    continue
                equal = (meaning is path.endswith("::eq")) != neg
                if equal:
                    cmp_edges[(sb, tgt)] = (snap, mir.show(other, 80))
    stores = [x[0] for x in core.atomic_sites(body, "rtp_latched", "store") if x[2][1][0] == "const" and x[2][1][1] == 1]
    r.need("rtp_latched.store(true) sites", len(stores), 2)
    r.need("remote_addr writes in receive", len(writes), 3)
    # fixpoint
    states = {0: {(None, frozenset())}}
    work = [0]
    while work:
        bi = work.pop()
        for st in list(states[bi]):
            val, snaps = st
            if bi in reads:
                snaps = snaps | {bi}
            if bi in writes:
                val, snaps = writes[bi], frozenset()
            for tgt, _ in body.succ_edges(bi):
                v2, s2 = val, snaps
                ce = cmp_edges.get((bi, tgt))
                if ce is not None and ce[0] in s2:
                    v2 = ce[1]
                new = (v2, s2)
                if new not in states.setdefault(tgt, set()):
                    states[tgt].add(new)
                    work.append(tgt)
    for sb in stores:
        vals = sorted(set("unknown" if v is None else v for v, _ in states.get(sb, ())))
        if len(vals) == 1 and vals[0] != "unknown":
            r.ok({"site": body.where(sb), "remote_addr_at_latch": vals[0]})
        else:
            r.violate(RECEIVE, "store:rtp_latched=true", body.where(sb),
                      "the latch is committed while the RTP destination may be any of %s: a comparison against a "
                      "remote_addr value read before an intervening write decides whether the selected source is stored" % vals)
    return r


def r18_7(ctx):
    """commit: 'the first matching RTP commits the latch when no probation runs; a probation that names a winner
    commits it'. Both decisions end in `rtp_latched.store(true)` whatever the address comparison says - the packet's
    source may well equal the signalled address (no NAT), and the latch must still be set, or the next packet from
    anywhere else moves the destination. So: from the 'no probation state' edge, and from the 'winner is Some' edge,
    every path to the delivery part of receive() passes a store(true) of the latch."""
    r = RuleResult("R18.7", "K4", "an accepted packet with no probation pending, and a probation that found its winner, always commit the latch")
    b = ctx.body(RECEIVE)
    r.scope.append(RECEIVE)
    stores = [x[0] for x in core.atomic_sites(b, "rtp_latched", "store") if mir.int_value(x[2][1]) == 1]
    exits = [bi for bi, t, p in b.calls() if p and p.endswith("::read") and t["a"] and mir.has_field(b.term_operand(t["a"][0]), "rtp_receiver")]
    r.need("rtp_latched.store(true) sites", len(stores), 2)
    r.need("delivery part of receive()", len(exits), 1)
    starts = {}
    for sb in range(len(b.blocks)):
        if sb in b.cleanup or b.blocks[sb]["t"]["k"] != "switch":
            continue
        term, outs = b.switch_info(sb)
        if term[0] != "discr":
            continue
        if mir.has(term[1], lambda x: x[0] == "call" and x[1].endswith("::lock") and mir.has_field(x, "probation")) and \
                not mir.has(term[1], lambda x: x[0] == "variant"):
            for tgt, _, m in outs:
                if m == "None":
                    starts.setdefault("no probation pending", []).append((sb, tgt))
        if term[1][0] == "var" and term[1][1] == "winner":
            for tgt, _, m in outs:
                if m == "Some":
                    starts.setdefault("probation winner found", []).append((sb, tgt))
    for what in ("no probation pending", "probation winner found"):
        if what not in starts:
            raise core.CheckerError("R18.7: cannot find the '%s' edge in receive()" % what)
        for sb, tgt in starts[what]:
            q = None
            for e in exits:
                q = q or b.path_to([tgt], e, cut_blocks=set(stores), cut_edges=b.back_edges())
            if q is None:
                r.ok({"edge": "%s (%s)" % (what, b.where(sb)), "then": "rtp_latched.store(true) on every path"})
            else:
                r.violate(RECEIVE, "commit:%s" % what.split()[0], b.where(sb),
                          "with %s the packet can be accepted without the latch being set (e.g. when its source equals the "
                          "current destination): the next packet from another address then moves the destination" % what,
                          core.describe_path(b, [sb] + q))
    return r


def _switch_reads_local(b, sb, l, hops=3):
    """does the discriminant of switch block sb derive from local l (through is_some(&l) / discriminant(l) temporaries)?"""
    d = b.blocks[sb]["t"]["d"]
    if d.get("k") not in ("cp", "mv"):
        return False
    cur = {d["p"]["l"]}
    for _ in range(hops):
        if l in cur:
            return True
        nxt = set()
        for c in cur:
            for df in b.defs().get(c, []):
                if df[0] == "s":
                    rv = b.blocks[df[1]]["s"][df[2]]["rv"]
                    for key in ("o", "a", "b"):
                        o = rv.get(key)
                        if isinstance(o, dict) and o.get("k") in ("cp", "mv"):
                            nxt.add(o["p"]["l"])
                    if rv.get("r") in ("ref", "discr", "rawptr") and "p" in rv:
                        nxt.add(rv["p"]["l"])
                else:
                    t = b.blocks[df[1]]["t"]
                    for a in t.get("a", []):
                        if a.get("k") in ("cp", "mv"):
                            nxt.add(a["p"]["l"])
        cur = nxt
    return l in cur


def r18_8(ctx):
    """'committed after at most N probation packets': once the number of observed packets has reached the configured
    window (`total >= prob.max_packets`) a winner is always named - rule 3, the packet majority, has no precondition of
    its own. Any other test that can end in 'no winner yet' therefore has to sit behind the `total >= max_packets` test,
    on its false edge: a 'fewer than 3 observations' arm ahead of it stretches a window of 1 or 2 packets to 3, and
    until then the destination follows whoever sent last."""
    r = RuleResult("R18.8", "K1", "with the probation window exhausted a winner is always chosen")
    b = ctx.body(RECEIVE)
    r.scope.append(RECEIVE)

    def window_open(term, meaning, *_):
        # total >= max_packets is FALSE (or total < max_packets is TRUE): the window is still open
        if term[0] == "bin" and term[1] in ("Ge", "Lt", "Gt", "Le") and isinstance(meaning, bool):
            def has_total(x):
                return mir.has(x, lambda y: y[0] == "field" and y[2] == "total_packets")
            def has_max(x):
                return mir.has(x, lambda y: y[0] == "field" and y[2] == "max_packets")
            if has_total(term[2]) and has_max(term[3]):
                return meaning is (term[1] in ("Lt", "Le"))
            if has_max(term[2]) and has_total(term[3]):
                return meaning is (term[1] in ("Gt", "Ge"))
        return False
    g = core.guard_edges(b, window_open)
    if not g:
        raise core.CheckerError("R18.8: the `total >= max_packets` test was not found in receive()")
    nones = []
    # locals that carry the winner: `winner` itself and the temporaries moved into it (`winner = if c { a } else { b }`)
    carriers = {i for i, l in enumerate(b.locals) if l.get("n") == "winner"}
    for _ in range(2):
        for bi, si, st in b.assigns():
            if "p" not in st["p"] and st["p"]["l"] in carriers and st["rv"]["r"] == "use" and "p" in st["rv"]["o"] and "p" not in st["rv"]["o"]["p"]:
                src = st["rv"]["o"]["p"]["l"]
                # `if x.is_some() { winner = x }`: only a Some ever flows - x's own None / empty search names nobody
                nm = b.local_name(src)

                def only_some(term, meaning, *_, nm=nm):
                    if term[0] == "call" and term[1].endswith("::is_some") and meaning is True:
                        return mir.has(term, lambda y: y[0] == "var" and y[1] == nm) or True
                    if term[0] == "discr" and meaning == "Some":
                        return mir.has(term, lambda y: y[0] == "var" and y[1] == nm)
                    return False
                gs = [e for e in core.guard_edges(b, only_some)
                      if mir.has(b.switch_info(e[0])[0], lambda y, src=src: any(z == ("var", b.local_name(src), src) for z in mir.walk(y))) or
                      b.blocks[e[0]]["t"]["d"].get("k") in ("cp", "mv")]
                # the switch must be about THIS local: its discriminant reads a value computed from src
                gs = [e for e in gs if _switch_reads_local(b, e[0], src)]
                if gs and core.k1(b, [bi], gs)[bi] is None:
                    continue
                carriers.add(src)
    for bi, si, st in b.assigns():
        if "p" in st["p"] or st["p"]["l"] not in carriers:
            continue
        rv = st["rv"]
        if rv["r"] == "agg" and rv.get("ak") == "adt" and rv.get("variant") == "None":
            nones.append((bi, si, "None"))
    for bi, t, p in b.calls():
        if "p" not in t["dst"] and t["dst"]["l"] in carriers and p and p.endswith(("::map", "::find", "::find_map", "::and_then", "::filter")):
            # a search that may come back empty: allowed only while the window is open
            if mir.has(b.term_call(t), lambda x: x[0] == "call" and x[1].endswith(("::find", "::find_map", "::filter"))):
                nones.append((bi, None, "search that can be empty"))
    r.need("places where no winner is named", len(nones), 1)
    for bi, si, what in nones:
        if core.k1(b, [bi], g)[bi] is None:
            r.ok({"site": b.where(bi, si), "no winner": what, "only while": "total < max_packets"})
        else:
            r.violate(RECEIVE, "window:no-winner", b.where(bi, si),
                      "'no winner yet' (%s) can be the outcome although the probation window is exhausted (total >= max_packets): a window "
                      "of 1 or 2 packets is not honoured and the destination keeps following the last sender" % what)
    return r


def r18_9(ctx):
    """'the RTP send address can only move to an address from which RTP carrying the expected SSRC (when one is known) was
    received'. While no SSRC is known every source is a probation candidate (early media arrives before the answer); the
    winner is chosen among ALL recorded candidates. So the moment an expected SSRC becomes known (or changes), candidates
    recorded under another SSRC have to go, or two early packets from anywhere outvote the real source. Decided:
    expected_ssrc is written only by set_expected_ssrc (and the constructor); there, every path from the write to the
    return either discards the whole probation state, or filters the candidates by their recorded SSRC against the new
    value, or leaves by an edge on which nothing changed (same value), no SSRC is expected (0), or no probation runs."""
    r = RuleResult("R18.9", "K3+K4", "a newly known expected SSRC discards the probation candidates recorded under another one")
    writers = []
    for b in ctx.facts.all_bodies():
        if "::tests::" in b.name or not b.name.startswith("transports::ice::conn::"):
            continue
        for op in ("store", "swap"):
            for bi, t, args in core.atomic_sites(b, "expected_ssrc", op):
                writers.append((b, bi))
    r.need("writers of expected_ssrc", len(writers), 1)
    fn = "transports::ice::conn::IceConn::set_expected_ssrc"
    for b, bi in writers:
        if b.name != fn:
            r.violate(b.name, "ssrc:writer", b.where(bi), "expected_ssrc is written outside set_expected_ssrc: the probation candidates are not re-examined")
            continue
        r.scope.append(fn)
        discard = set(_discard_blocks(ctx, b))
        for ci, t, path in b.calls():
            if path and path.endswith("::retain") and t["a"] and mir.has_field(b.term_operand(t["a"][0]), "candidates"):
                clo = [b.term_operand(a) for a in t["a"][1:]]
                ok = False
                for c in clo:
                    if c[0] == "closure" and ctx.facts.has_body(c[1]):
                        cb = ctx.facts.body(c[1])
                        for sb in range(len(cb.blocks)):
                            if cb.blocks[sb]["t"]["k"] == "switch" and mir.has_field(cb.switch_info(sb)[0], "ssrc"):
                                ok = True
                        for _bi, _si, st_ in cb.assigns():
                            tv = cb.term_rvalue(st_["rv"])
                            if tv[0] == "bin" and tv[1] in ("Eq", "Ne") and mir.has_field(tv, "ssrc"):
                                ok = True
                if ok:
                    discard.add(ci)

        def harmless(term, meaning, *_):
            if term[0] == "bin" and term[1] in ("Eq", "Ne") and isinstance(meaning, bool):
                equal = meaning is (term[1] == "Eq")
                ops = (term[2], term[3])
                prev = [o for o in ops if o[0] == "call" and mir.has_field(o, "expected_ssrc")]
                newv = [o for o in ops if o[0] == "arg"]
                if prev and newv:
                    return equal                      # previous value == new value: nothing changed
                if newv and any(mir.int_value(o) == 0 for o in ops if o[0] != "arg"):
                    return equal                      # new value == 0: no SSRC is expected
            if term[0] == "discr" and mir.has_field(term[1], "probation") and meaning == "None":
                return True                           # no probation running
            return False
        exits = core.guard_edges(b, harmless)
        reach = b.reachable([x for x, _ in b.succ_edges(bi)], cut_blocks=discard, cut_edges=exits)
        leak = [x for x in reach if b.blocks[x]["t"]["k"] == "ret" and x not in b.cleanup]
        if leak:
            r.violate(fn, "ssrc:candidates-kept", b.where(bi),
                      "set_expected_ssrc can return with candidates recorded under another (or no) expected SSRC still in the probation state: "
                      "early packets from any source keep counting towards the winner")
        else:
            r.ok({"site": b.where(bi), "then": "candidates filtered by SSRC / probation replaced, or nothing changed"})
    return r


def r18_10(ctx):
    """'one source is committed according to the documented rules (marker start, consecutive run, majority)'. The
    majority rule is a comparator handed to max_by: more observed packets win, and among sources with the same count
    the one whose stream started EARLIER (lower first sequence number) wins - under max_by that is a tie-break with the
    operands swapped. The comparator is small enough to be read exactly: primary key cmp(a.packet_count,
    b.packet_count); tie-break cmp(b.first_seq, a.first_seq), or its serial-arithmetic form
    (b.first_seq.wrapping_sub(a.first_seq) as i16).cmp(&0). Anything else - in particular the same tie-break with a and b
    the natural way round - commits the latch to the LATER starter (typically the stale NAT port)."""
    r = RuleResult("R18.10", "K6", "majority rule: most packets win, ties go to the source that started first")
    b = ctx.body(RECEIVE)
    r.scope.append(RECEIVE)
    comps = []
    for bi, t, p in b.calls():
        if p and p.endswith("::max_by") and bi not in b.cleanup and mir.has_field(b.term_call(t), "candidates"):
            for a in t["a"]:
                ta = b.term_operand(a)
                if ta[0] == "closure" and ctx.facts.has_body(ta[1]):
                    comps.append((bi, ctx.facts.body(ta[1])))
    r.need("majority comparators (max_by over the probation candidates)", len(comps), 1)

    def side(term):
        # which comparator argument a term reads: 'a' / 'b' (first / second closure parameter)
        names = {x[1] for x in mir.walk(term) if x[0] == "arg"}
        names |= {x[2][6:] if x[2].startswith("_ref__") else x[2]
                  for x in mir.walk(term) if x[0] == "field" and x[1] == ("env",)}      # captured by a nested closure (then_with)
        return names.pop() if len(names) == 1 else None
    for bi, cb in comps:
        r.scope.append(cb.name)
        params = [cb.local_name(i) for i in range(1, cb.argc + 1)]
        # closure params: (env, a, b)
        pa, pb = (params[-2], params[-1]) if len(params) >= 2 else (None, None)
        primary = tie = None
        bodies = [cb] + [nb for nb in ctx.facts.all_bodies() if nb.name.startswith(cb.name + "::{closure")]
        for cb2, ci, ct, cp in [(q, ci, ct, cp) for q in bodies for ci, ct, cp in q.calls()]:
            if not cp or not cp.endswith("::cmp") or len(ct["a"]) != 2:
                continue
            x, y = cb2.term_operand(ct["a"][0]), cb2.term_operand(ct["a"][1])
            if mir.has_field(x, "packet_count") and mir.has_field(y, "packet_count"):
                primary = (side(x), side(y), cb2.where(ci))
            elif mir.has_field(x, "first_seq") and mir.has_field(y, "first_seq"):
                tie = (side(x), side(y), cb2.where(ci))
            elif mir.has_field(x, "first_seq") and mir.int_value(y) == 0:
                # (P.first_seq.wrapping_sub(Q.first_seq) as i16).cmp(&0)
                ws = [z for z in mir.walk(x) if z[0] == "call" and z[1].endswith("wrapping_sub") and len(z[2]) == 2]
                if ws:
                    tie = (side(ws[0][2][0]), side(ws[0][2][1]), cb2.where(ci))
        if primary and primary[:2] == (pa, pb):
            r.ok({"site": primary[2], "primary": "cmp(a.packet_count, b.packet_count): more packets win under max_by"})
        else:
            r.violate(cb.name, "majority:primary", b.where(bi), "the majority comparator does not order the candidates by packet count (a before b)")
        if tie and tie[:2] == (pb, pa):
            r.ok({"site": tie[2], "tie-break": "first_seq compared b-before-a: under max_by the earlier starter wins"})
        else:
            r.violate(cb.name, "majority:tie-break", b.where(bi),
                      "a packet-count tie at the end of the probation window is not decided for the source with the lower first sequence number "
                      "(tie-break operands: %s): the latch commits to the later starter and stays there" % (tie[:2] if tie else "not found",))
    return r


def r18_11(ctx):
    """'RTCP arrivals can only set the RTCP destination': which arrivals ARE RTCP is decided by the second byte. RFC 5761 4
    reserves 192..=223 for RTCP packet types when RTP and RTCP share a port. With a narrower range (200..=211) a packet
    of type 192 (FIR, RFC 2032) or 212+ is read as RTP with the marker bit and commits the RTP destination at once.
    Decided: the `is_rtcp` classification of IceConn::receive is a range test on packet[1] covering 192..=223."""
    r = RuleResult("R18.11", "K6", "every RTCP packet type of RFC 5761 is classified as RTCP by the latch")
    b = ctx.body(RECEIVE)
    r.scope.append(RECEIVE)
    li = [i for i, l in enumerate(b.locals) if l.get("n") == "is_rtcp"]
    if not li:
        raise core.CheckerError("R18.11: variable is_rtcp not found in receive")
    lo = hi = None
    for t in b.var_def_terms(li[0]):
        for x in mir.walk(t):
            if x[0] == "call" and x[1].endswith("RangeInclusive::<Idx>::new") and len(x[2]) == 2:
                lo, hi = mir.int_value(x[2][0]), mir.int_value(x[2][1])
            if x[0] == "agg" and isinstance(x[1], str) and x[1].endswith("ops::Range") and len(x[3]) == 2:
                lo, hi = mir.int_value(x[3][0]), (mir.int_value(x[3][1]) or 0) - 1
    if lo is None:
        # the classification may be delegated to a crate helper (rtp::is_rtcp): read the range there
        for t in b.var_def_terms(li[0]):
            for x in mir.walk(t):
                if x[0] == "call" and ctx.facts.has_body(x[1]):
                    cb = ctx.facts.body(x[1])
                    terms = [cb.term_rvalue(st["rv"]) for _bi, _si, st in cb.assigns()] + \
                            [cb.term_call(tt) for _bi, tt, _p in cb.calls()]
                    for ct in terms:
                        for y in mir.walk(ct):
                            if y[0] == "call" and y[1].endswith("RangeInclusive::<Idx>::new") and len(y[2]) == 2:
                                lo, hi = mir.int_value(y[2][0]), mir.int_value(y[2][1])
                                r.scope.append(cb.name)
    if lo is None:
        raise core.CheckerError("R18.11: is_rtcp is not a range test")
    if lo <= 192 and hi >= 223:
        r.ok({"is_rtcp": "packet[1] in %d..=%d" % (lo, hi)})
    else:
        r.violate(RECEIVE, "is_rtcp:range", b.where(0),
                  "is_rtcp covers %d..=%d only: RTCP packet types outside it (RFC 5761: 192..=223) are read as RTP with the marker bit and "
                  "move / commit the RTP destination" % (lo, hi))
    return r


def run(ctx):
    return [r18_1(ctx), r18_2(ctx), r18_3(ctx), r18_4(ctx), r18_5(ctx), r18_6(ctx), r18_7(ctx), r18_8(ctx), r18_9(ctx), r18_10(ctx), r18_11(ctx)]
